import ObiVerif.Lemmas.HeaderRefine
/-! refinement, third pass: the byte state machine `parseFasta` (FastaChunkParser) on **every** text — several
    records per text included — is the structural reading `readFastaManyS` (title lines split by `splitTitle`,
    bodies cut at the next `>` and read by `unfold`).  Exact answer, both directions, errors included. -/
namespace ObiVerif.Header

/-- put the records already delivered in front of an answer -/
def pre (out : List Rec) : Except Err (List Rec) → Except Err (List Rec)
  | .ok rs => .ok (out ++ rs)
  | .error e => .error e

@[simp] theorem pre_ok (out rs : List Rec) : pre out (.ok rs) = .ok (out ++ rs) := rfl
@[simp] theorem pre_error (out : List Rec) (e : Err) : pre out (.error e) = .error e := rfl

theorem pre_pre (a b : List Rec) (r : Except Err (List Rec)) : pre a (pre b r) = pre (a ++ b) r := by
  cases r <;> simp [pre]

/-- the last byte of a segment is an end of line -/
def lastIsEol (b : Bytes) : Bool :=
  match b.getLast? with
  | some c => isEol c
  | none => false

theorem lastIsEol_cons_cons (a c : UInt8) (t : Bytes) : lastIsEol (a :: c :: t) = lastIsEol (c :: t) := by
  simp [lastIsEol, List.getLast?_cons_cons]

/-- **the structural reading of a FASTA text after its first `>`** (fuel = an upper bound of the length): the title
    line up to the first end of line is split by `splitTitle`; the body runs up to the next `>` (excluded) and is read
    as by the one-record reading `faBodyRes` (`unfold`); when a `>` follows, the body must hold a sequence and end
    with an end of line, and the reading goes on after that `>`. -/
def faManyF : Nat → Bytes → Except Err (List Rec)
  | 0, _ => .ok []
  | n + 1, l =>
    match l with
    | [] => .ok []
    | d :: _ =>
      if isSep d = true then .error .fatal else
      let line := l.takeWhile (fun c => !isEol c)
      let rest := l.dropWhile (fun c => !isEol c)
      let body := rest.takeWhile (fun c => c != 62)
      match rest.dropWhile (fun c => c != 62) with
      | [] => faBodyRes (splitTitle line).1 (splitTitle line).2 body
      | _ :: l' =>
        match faBodyRes (splitTitle line).1 (splitTitle line).2 body with
        | .ok (r :: _) => if lastIsEol body = true then pre [r] (faManyF n l') else .error .fatal
        | _ => .error .fatal

/-- the structural reading of a whole FASTA chunk (the first two bytes are examined as `FastaChunkParser` does) -/
def readFastaManyS (text : Bytes) : Except Err (List Rec) :=
  match text with
  | [] => .error .panic
  | [c] => if c ≠ 62 then .error .fatal else .error .panic
  | c :: t => if c ≠ 62 then .error .fatal else faManyF t.length t

/-! ## the machine, state by state, with any records already delivered (`out`) and any stale buffers -/

/-- `prev` after a segment read in state 6 -/
def prevAfter (p : UInt8) (b : Bytes) : UInt8 := b.foldl (fun _ c => if isSep c = true then c else lower c) p

set_option maxRecDepth 100000 in
theorem isEol_prevByte : ∀ c : UInt8, isEol (if isSep c = true then c else lower c) = isEol c := by
  apply forall_uint8
  decide

set_option maxRecDepth 100000 in
theorem seqOK_lower_notEol : ∀ c : UInt8, seqOK (lower c) = true → isEol (lower c) = false := by
  apply forall_uint8
  decide

theorem isEol_prevAfter (p : UInt8) (b : Bytes) :
    isEol (prevAfter p b) = if b = [] then isEol p else lastIsEol b := by
  induction b generalizing p with
  | nil => rfl
  | cons c t ih =>
    show isEol (prevAfter (if isSep c = true then c else lower c) t) = _
    rw [ih]
    cases t with
    | nil => simp [lastIsEol, isEol_prevByte]
    | cons a t => simp [lastIsEol_cons_cons]

/-- state 6 over a segment without `>` : the machine stays in state 6, collects `unfold` of the segment, and is
    fatal exactly when a byte is neither a separator nor a letter of the alphabet -/
theorem fa_seg6 (b rest : Bytes) (hb : ∀ c ∈ b, c ≠ 62) (i d s q id df : Bytes) (p : UInt8) (out : List Rec) :
    faRun ⟨6, i, d, s, q, id, df, p, out⟩ (b ++ rest) =
      if b.all okByte = true then faRun ⟨6, i, d, s ++ unfold b, q, id, df, prevAfter p b, out⟩ rest
      else .error .fatal := by
  induction b generalizing s p with
  | nil => simp [unfold, prevAfter]
  | cons c t ih =>
    have hne : c ≠ 62 := hb c (by simp)
    have ht : ∀ c ∈ t, c ≠ 62 := fun c hc => hb c (List.mem_cons_of_mem _ hc)
    rw [List.cons_append]
    cases hs : isSep c with
    | true =>
      rw [faRun_ok (st2 := ⟨6, i, d, s, q, id, df, c, out⟩) (by simp [faStep, hne, hs])]
      rw [unfold_cons_sep t hs, ih ht]
      simp [okByte, hs, prevAfter]
    | false =>
      cases ho : seqOK (lower c) with
      | false =>
        rw [faRun_err (e := .fatal) (by simp [faStep, hne, hs, ho])]
        simp [okByte, hs, ho]
      | true =>
        rw [faRun_ok (st2 := ⟨6, i, d, s ++ [lower c], q, id, df, lower c, out⟩)
          (by simp [faStep, hne, hs, ho])]
        rw [unfold_cons_notSep t hs, ih ht]
        simp [okByte, hs, ho, prevAfter]

/-- state 6 at the end of the text -/
theorem fa_end6 (i d s q id df : Bytes) (p : UInt8) (out : List Rec) :
    faRun ⟨6, i, d, s, q, id, df, p, out⟩ [] =
      if s = [] then .error .fatal else .ok (out ++ [⟨id, df, s, none⟩]) := by
  rw [faRun_nil]; simp [faFin, pure, Except.pure]

/-- state 6 on `>` : the record is delivered when the previous byte is an end of line, fatal otherwise -/
theorem fa_gt6 (l : Bytes) (i d s q id df : Bytes) (p : UInt8) (out : List Rec) :
    faRun ⟨6, i, d, s, q, id, df, p, out⟩ (62 :: l) =
      if isEol p = true then
        (if s = [] then .error .fatal else faRun ⟨1, i, d, s, q, id, df, 62, out ++ [⟨id, df, s, none⟩]⟩ l)
      else .error .fatal := by
  by_cases hp : p = 13 ∨ p = 10
  · have he : isEol p = true := by rcases hp with h | h <;> subst h <;> decide
    by_cases hs : s = []
    · rw [faRun_err (e := .fatal) (by simp [faStep, hp, hs])]; simp [he, hs]
    · rw [faRun_ok (st2 := ⟨1, i, d, s, q, id, df, 62, out ++ [⟨id, df, s, none⟩]⟩) (by simp [faStep, hp, hs])]
      simp [he, hs]
  · have he : isEol p = false := by
      cases h : isEol p with
      | false => rfl
      | true => simp [isEol] at h; exact absurd h hp
    rw [faRun_err (e := .fatal) (by simp [faStep, hp])]; simp [he]

/-- state 5 over a body without `>` up to the end of the text -/
theorem fa_body_end (b : Bytes) (hb : ∀ c ∈ b, c ≠ 62) (i d s q id df : Bytes) (p : UInt8) (out : List Rec) :
    faRun ⟨5, i, d, s, q, id, df, p, out⟩ b = pre out (faBodyRes id df b) := by
  induction b generalizing p with
  | nil => rw [faRun_nil]; simp [faFin, faBodyRes, pure, Except.pure]
  | cons c t ih =>
    have ht : ∀ c ∈ t, c ≠ 62 := fun c hc => hb c (List.mem_cons_of_mem _ hc)
    cases he : isEol c with
    | true =>
      rw [faRun_ok (st2 := ⟨5, i, d, s, q, id, df, c, out⟩) (by simp [faStep, he])]
      rw [ih ht, faBodyRes_cons_eol id df t he]
    | false =>
      cases ho : seqOK (lower c) with
      | false =>
        rw [faRun_err (e := .fatal) (by simp [faStep, he, ho])]
        simp [faBodyRes, he, ho]
      | true =>
        rw [faRun_ok (st2 := ⟨6, i, d, [lower c], q, id, df, lower c, out⟩) (by simp [faStep, he, ho])]
        have := fa_seg6 t [] ht i d [lower c] q id df (lower c) out
        rw [List.append_nil] at this
        rw [this, fa_end6]
        simp only [faBodyRes, List.dropWhile_cons, he, Bool.false_eq_true, ↓reduceIte, ho, true_and,
          unfold_cons_notSep t (seqOK_lower_notSep c ho)]
        cases hall : t.all okByte <;> simp

/-- what follows a body that is followed by `>` -/
def afterBody (id df b : Bytes) (k : Rec → Except Err (List Rec)) : Except Err (List Rec) :=
  match faBodyRes id df b with
  | .ok (r :: _) => if lastIsEol b = true then k r else .error .fatal
  | _ => .error .fatal

theorem afterBody_cons_eol (id df : Bytes) {c : UInt8} (t : Bytes) (h : isEol c = true)
    (k : Rec → Except Err (List Rec)) : afterBody id df (c :: t) k = afterBody id df t k := by
  unfold afterBody
  rw [faBodyRes_cons_eol id df t h]
  cases t with
  | nil => simp [faBodyRes]
  | cons a t => rw [lastIsEol_cons_cons]

/-- state 5 over a body without `>` followed by `>` : fatal unless the body holds a sequence (first byte after the
    ends of line a letter, then letters and separators) and ends with an end of line; then the record is delivered
    and the machine is in state 1 -/
theorem fa_body_gt (b l : Bytes) (hb : ∀ c ∈ b, c ≠ 62) (i d s q id df : Bytes) (p : UInt8) (out : List Rec) :
    faRun ⟨5, i, d, s, q, id, df, p, out⟩ (b ++ 62 :: l) =
      afterBody id df b (fun r => faRun ⟨1, i, d, r.seq, q, id, df, 62, out ++ [r]⟩ l) := by
  induction b generalizing p with
  | nil =>
    rw [List.nil_append, faRun_err (e := .fatal) (by
      simp [faStep, show isEol 62 = false by decide, show seqOK (lower 62) = false by decide])]
    simp [afterBody, faBodyRes]
  | cons c t ih =>
    have ht : ∀ c ∈ t, c ≠ 62 := fun c hc => hb c (List.mem_cons_of_mem _ hc)
    rw [List.cons_append]
    cases he : isEol c with
    | true =>
      rw [faRun_ok (st2 := ⟨5, i, d, s, q, id, df, c, out⟩) (by simp [faStep, he])]
      rw [ih ht, afterBody_cons_eol id df t he]
    | false =>
      cases ho : seqOK (lower c) with
      | false =>
        rw [faRun_err (e := .fatal) (by simp [faStep, he, ho])]
        simp [afterBody, faBodyRes, he, ho]
      | true =>
        rw [faRun_ok (st2 := ⟨6, i, d, [lower c], q, id, df, lower c, out⟩) (by simp [faStep, he, ho])]
        rw [fa_seg6 t (62 :: l) ht, fa_gt6, isEol_prevAfter]
        have hlc : isEol (lower c) = false := seqOK_lower_notEol c ho
        simp only [afterBody, faBodyRes, List.dropWhile_cons, he, Bool.false_eq_true, ↓reduceIte, ho, true_and,
          unfold_cons_notSep t (seqOK_lower_notSep c ho)]
        cases hall : t.all okByte with
        | false => simp
        | true =>
          cases t with
          | nil => simp [lastIsEol, he, hlc]
          | cons a t => simp [lastIsEol_cons_cons]

theorem pre_afterBody (out : List Rec) (id df b : Bytes) (k : Rec → Except Err (List Rec)) :
    pre out (afterBody id df b k) = afterBody id df b (fun r => pre out (k r)) := by
  unfold afterBody
  split
  · split <;> simp
  · simp

/-! ## the title line (states 2, 3, 4) followed by an end of line or by the end of the text -/

/-- after a title line: the end of the text (nothing delivered for the pending record) or an end of line `e` and
    the continuation on what follows -/
def titleK (out : List Rec) (rest : Bytes) (k : UInt8 → Bytes → Except Err (List Rec)) : Except Err (List Rec) :=
  match rest with
  | [] => .ok out
  | e :: r => k e r

theorem fa_title4 (line rest : Bytes) (hline : ∀ c ∈ line, isEol c = false)
    (hrest : ∀ e ∈ rest.head?, isEol e = true) (i d s q id df : Bytes) (p : UInt8) (out : List Rec) :
    ∃ i' d', faRun ⟨4, i, d, s, q, id, df, p, out⟩ (line ++ rest) =
      titleK out rest (fun e r => faRun ⟨5, i', d', s, q, id, d ++ line, e, out⟩ r) := by
  induction line generalizing d p with
  | nil =>
    cases rest with
    | nil => exact ⟨i, d, by rw [List.append_nil, faRun_nil]; simp [faFin, titleK, pure, Except.pure]⟩
    | cons e r =>
      have he : isEol e = true := hrest e (by simp)
      refine ⟨i, d, ?_⟩
      rw [List.nil_append, faRun_ok (st2 := ⟨5, i, d, s, q, id, d, e, out⟩) (by simp [faStep, he])]
      simp [titleK]
  | cons c t ih =>
    have he : isEol c = false := hline c (by simp)
    have ht : ∀ c ∈ t, isEol c = false := fun c hc => hline c (List.mem_cons_of_mem _ hc)
    obtain ⟨i', d', h⟩ := ih ht (d ++ [c]) c
    refine ⟨i', d', ?_⟩
    rw [List.cons_append, faRun_ok (st2 := ⟨4, i, d ++ [c], s, q, id, df, c, out⟩) (by simp [faStep, he]), h]
    simp

theorem fa_title3 (line rest : Bytes) (hline : ∀ c ∈ line, isEol c = false)
    (hrest : ∀ e ∈ rest.head?, isEol e = true) (i d s q id df : Bytes) (p : UInt8) (out : List Rec) :
    ∃ i' d', faRun ⟨3, i, d, s, q, id, df, p, out⟩ (line ++ rest) =
      titleK out rest (fun e r => faRun ⟨5, i', d', s, q, id, line.dropWhile isSpace, e, out⟩ r) := by
  induction line generalizing p with
  | nil =>
    cases rest with
    | nil => exact ⟨i, d, by rw [List.append_nil, faRun_nil]; simp [faFin, titleK, pure, Except.pure]⟩
    | cons e r =>
      have he : isEol e = true := hrest e (by simp)
      refine ⟨i, d, ?_⟩
      rw [List.nil_append, faRun_ok (st2 := ⟨5, i, d, s, q, id, [], e, out⟩) (by simp [faStep, he])]
      simp [titleK]
  | cons c t ih =>
    have he : isEol c = false := hline c (by simp)
    have ht : ∀ c ∈ t, isEol c = false := fun c hc => hline c (List.mem_cons_of_mem _ hc)
    rw [List.cons_append]
    cases hs : isSpace c with
    | true =>
      obtain ⟨i', d', h⟩ := ih ht c
      refine ⟨i', d', ?_⟩
      rw [faRun_ok (st2 := ⟨3, i, d, s, q, id, df, c, out⟩) (by simp [faStep, he, hs]), h]
      simp [hs]
    | false =>
      obtain ⟨i', d', h⟩ := fa_title4 t rest ht hrest i [c] s q id df c out
      refine ⟨i', d', ?_⟩
      rw [faRun_ok (st2 := ⟨4, i, [c], s, q, id, df, c, out⟩) (by simp [faStep, he, hs]), h]
      simp [hs]

theorem fa_title2 (line rest : Bytes) (hline : ∀ c ∈ line, isEol c = false)
    (hrest : ∀ e ∈ rest.head?, isEol e = true) (i d s q id df : Bytes) (p : UInt8) (out : List Rec) :
    ∃ i' d', faRun ⟨2, i, d, s, q, id, df, p, out⟩ (line ++ rest) =
      titleK out rest (fun e r =>
        faRun ⟨5, i', d', s, q, i ++ (splitTitle line).1, (splitTitle line).2, e, out⟩ r) := by
  induction line generalizing i p with
  | nil =>
    cases rest with
    | nil => exact ⟨i, d, by rw [List.append_nil, faRun_nil]; simp [faFin, titleK, pure, Except.pure]⟩
    | cons e r =>
      have he : isEol e = true := hrest e (by simp)
      refine ⟨[], d, ?_⟩
      rw [List.nil_append, faRun_ok (st2 := ⟨5, [], d, s, q, i, [], e, out⟩)
        (by simp [faStep, he, isEol_isSep he])]
      simp [titleK, splitTitle]
  | cons c t ih =>
    have he : isEol c = false := hline c (by simp)
    have ht : ∀ c ∈ t, isEol c = false := fun c hc => hline c (List.mem_cons_of_mem _ hc)
    rw [List.cons_append]
    cases hs : isSep c with
    | false =>
      obtain ⟨i', d', h⟩ := ih ht (i ++ [c]) c
      refine ⟨i', d', ?_⟩
      rw [faRun_ok (st2 := ⟨2, i ++ [c], d, s, q, id, df, c, out⟩) (by simp [faStep, he, hs]), h]
      simp [splitTitle, hs]
    | true =>
      have hsp := isSep_notEol_isSpace hs he
      obtain ⟨i', d', h⟩ := fa_title3 t rest ht hrest [] d s q i df c out
      refine ⟨i', d', ?_⟩
      rw [faRun_ok (st2 := ⟨3, [], d, s, q, i, df, c, out⟩) (by simp [faStep, he, hs]), h]
      simp [splitTitle, hs, hsp]

/-! ## cutting a text at the first byte that fails a test -/

theorem cut_at (p : UInt8 → Bool) (l : Bytes) :
    ∃ a b, l = a ++ b ∧ (∀ c ∈ a, p c = true) ∧ (∀ e ∈ b.head?, p e = false) := by
  induction l with
  | nil => exact ⟨[], [], rfl, by simp, by simp⟩
  | cons c t ih =>
    cases hc : p c with
    | false => exact ⟨[], c :: t, rfl, by simp, by simp [hc]⟩
    | true =>
      obtain ⟨a, b, h, ha, hb⟩ := ih
      refine ⟨c :: a, b, by rw [h]; rfl, ?_, hb⟩
      intro x hx
      rcases List.mem_cons.mp hx with rfl | hx
      · exact hc
      · exact ha x hx

theorem takeWhile_cut (p : UInt8 → Bool) (a b : Bytes) (ha : ∀ c ∈ a, p c = true)
    (hb : ∀ e ∈ b.head?, p e = false) : (a ++ b).takeWhile p = a ∧ (a ++ b).dropWhile p = b := by
  induction a with
  | nil =>
    cases b with
    | nil => simp
    | cons e r => have := hb e (by simp); simp [this]
  | cons c t ih =>
    have hc := ha c (by simp)
    have := ih (fun c hc => ha c (List.mem_cons_of_mem _ hc))
    simp [hc, this.1, this.2]

/-! ## the whole machine from state 1 -/

set_option maxRecDepth 100000 in
theorem isEol_ne62 : ∀ c : UInt8, isEol c = true → (c != 62) = true := by
  apply forall_uint8
  decide

/-- **the FASTA machine from state 1** (just after a `>`), whatever was delivered before and whatever the buffers
    hold, is the structural reading of the rest of the text -/
theorem fa_many (n : Nat) : ∀ (l : Bytes), l.length ≤ n → ∀ (i d s q id df : Bytes) (p : UInt8) (out : List Rec),
    faRun ⟨1, i, d, s, q, id, df, p, out⟩ l = pre out (faManyF n l) := by
  induction n with
  | zero =>
    intro l hl i d s q id df p out
    have : l = [] := List.length_eq_zero_iff.mp (Nat.le_zero.mp hl)
    subst this
    rw [faRun_nil]; simp [faFin, faManyF, pure, Except.pure]
  | succ n ih =>
    intro l hl i d s q id df p out
    cases l with
    | nil => rw [faRun_nil]; simp [faFin, faManyF, pure, Except.pure]
    | cons d0 t =>
      cases hs : isSep d0 with
      | true =>
        rw [faRun_err (e := .fatal) (by simp [faStep, hs])]
        simp [faManyF, hs]
      | false =>
        obtain ⟨_, he0⟩ := isSep_false hs
        rw [faRun_ok (st2 := ⟨2, [d0], d, s, q, id, df, d0, out⟩) (by simp [faStep, hs])]
        obtain ⟨line, rest, ht, hline, hrest⟩ := cut_at (fun c => !isEol c) t
        have hline' : ∀ c ∈ line, isEol c = false := fun c hc => by simpa using hline c hc
        have hrest' : ∀ e ∈ rest.head?, isEol e = true := fun e he => by simpa using hrest e he
        obtain ⟨hT, hD⟩ := takeWhile_cut _ line rest hline hrest
        subst ht
        obtain ⟨i', d', h2⟩ := fa_title2 line rest hline' hrest' [d0] d s q id df d0 out
        rw [h2]
        have hst : splitTitle (d0 :: line) = (d0 :: (splitTitle line).1, (splitTitle line).2) := by
          simp [splitTitle, hs]
        simp only [faManyF, hs, Bool.false_eq_true, ↓reduceIte, List.takeWhile_cons, List.dropWhile_cons, he0,
          Bool.not_false, hT, hD, hst]
        cases rest with
        | nil => simp [titleK, faBodyRes]
        | cons e r =>
          have he : isEol e = true := hrest' e (by simp)
          have he62 := isEol_ne62 e he
          simp only [titleK, List.takeWhile_cons, List.dropWhile_cons, he62, ↓reduceIte, List.singleton_append]
          obtain ⟨b, after, hr, hb, hafter⟩ := cut_at (fun c => c != 62) r
          have hb' : ∀ c ∈ b, c ≠ 62 := fun c hc => by simpa using hb c hc
          obtain ⟨hT2, hD2⟩ := takeWhile_cut _ b after hb hafter
          subst hr
          rw [hT2, hD2]
          cases after with
          | nil =>
            rw [List.append_nil, fa_body_end b hb', faBodyRes_cons_eol _ _ b he]
          | cons x l' =>
            have hx : x = 62 := by simpa using hafter x (by simp)
            subst hx
            rw [fa_body_gt b l' hb']
            have hlen : l'.length ≤ n := by
              simp only [List.length_cons, List.length_append] at hl
              omega
            have hk : (fun r => faRun ⟨1, i', d', r.seq, q, d0 :: (splitTitle line).1, (splitTitle line).2, 62,
                  out ++ [r]⟩ l') = fun r => pre out (pre [r] (faManyF n l')) := by
              funext r
              rw [ih l' hlen, pre_pre]
            rw [hk, ← pre_afterBody, ← afterBody_cons_eol _ _ b he]
            rfl

/-- **`FastaChunkParser` on every text is the structural reading** — several records per text, errors included -/
theorem parseFasta_eq_many (text : Bytes) : parseFasta text = readFastaManyS text := by
  match text with
  | [] => rfl
  | [c] => rfl
  | c :: d :: t =>
    by_cases hc : c = 62
    · subst hc
      by_cases hd : d = 32
      · subst hd
        simp [parseFasta, readFastaManyS, faManyF, show isSep 32 = true by decide]
      · rw [parseFasta_eq_faRun d t hd]
        rw [faRun_ok (st2 := ⟨1, [], [], [], [], [], [], 62, []⟩) (by simp [faStep])]
        rw [fa_many (d :: t).length (d :: t) (Nat.le_refl _)]
        simp only [readFastaManyS, ne_eq, not_true_eq_false, ↓reduceIte]
        cases faManyF (d :: t).length (d :: t) <;> simp [pre]
    · simp [parseFasta, readFastaManyS, hc]

/-- more fuel than the length changes nothing -/
theorem faManyF_fuel (n : Nat) (l : Bytes) (h : l.length ≤ n) : faManyF n l = faManyF l.length l := by
  have h1 := fa_many n l h [] [] [] [] [] [] 0 []
  have h2 := fa_many l.length l (Nat.le_refl _) [] [] [] [] [] [] 0 []
  rw [h1] at h2
  cases hn : faManyF n l <;> cases hm : faManyF l.length l <;> rw [hn, hm] at h2 <;> simp [pre] at h2 ⊢
  · exact h2
  · exact h2

end ObiVerif.Header
