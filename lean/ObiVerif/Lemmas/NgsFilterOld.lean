import ObiVerif.Lemmas.NgsFilterBytes
/-!
# Renderings of an old-format sample sheet are read back line for line (C12)
-/
-- sequential elaboration: with 16 worker threads the address-space limit of the build (`ulimit -v`) is hit
set_option Elab.async false


namespace ObiVerif.NgsFilterBytes

open ObiVerif.TaxLoad (rawLines rawLines_flatten)
open ObiVerif.NgsFilter

/-! ## the old format: `_readLines` on a rendering -/

def chr (c : UInt8) : Char := Char.ofNat c.toNat

/-- bytes that `strings.TrimSpace` removes -/
def BlankB (p : Bytes) : Prop := ∀ c ∈ p, isBlank (chr c) = true

/-- the content of a line: not empty, no line feed, no blank at either end -/
structure ContentOK (c : Bytes) : Prop where
  nonempty : c ≠ []
  noLF : 10 ∉ c
  first : ∀ x, c.head? = some x → isBlank (chr x) = false
  last : ∀ x, c.getLast? = some x → isBlank (chr x) = false

inductive OItem
  | line (pad content trail : Bytes) (crlf : Bool)
  | blank (ws : Bytes) (crlf : Bool)

def OItem.bytes : OItem → Bytes
  | .line pad content trail crlf => pad ++ content ++ trail ++ eol crlf
  | .blank ws crlf => ws ++ eol crlf

def OItem.OK : OItem → Prop
  | .line pad content trail _ => BlankB pad ∧ 10 ∉ pad ∧ BlankB trail ∧ 10 ∉ trail ∧ ContentOK content
  | .blank ws _ => BlankB ws ∧ 10 ∉ ws

def OItem.content : OItem → Option String
  | .line _ content _ _ => some (toStr content)
  | .blank _ _ => none

def renderOld (items : List OItem) : Bytes := (items.map OItem.bytes).flatten

theorem dropWhile_blank_append (p l : List Char) (hp : ∀ c ∈ p, isBlank c = true)
    (hl : ∀ x, l.head? = some x → isBlank x = false) : (p ++ l).dropWhile isBlank = l := by
  induction p with
  | nil =>
    cases l with
    | nil => rfl
    | cons x r => simp [hl x rfl]
  | cons c r ih =>
    simp only [List.cons_append, List.dropWhile, hp c (by simp)]
    exact ih (fun x hx => hp x (by simp [hx]))

theorem trim_line (pad content trail : Bytes) (hp : BlankB pad) (ht : BlankB trail) (hc : ContentOK content) :
    trim (toStr (pad ++ content ++ trail)) = toStr content := by
  unfold trim toStr
  simp only [String.toList_ofList, List.map_append]
  have h1 : ((pad.map (fun c => Char.ofNat c.toNat)) ++ (content.map (fun c => Char.ofNat c.toNat)) ++
      (trail.map (fun c => Char.ofNat c.toNat))).dropWhile isBlank =
      (content.map (fun c => Char.ofNat c.toNat)) ++ (trail.map (fun c => Char.ofNat c.toNat)) := by
    rw [List.append_assoc]
    apply dropWhile_blank_append
    · intro c hc'
      obtain ⟨b, hb, rfl⟩ := List.mem_map.1 hc'
      exact hp b hb
    · intro x hx
      cases content with
      | nil => exact absurd rfl hc.nonempty
      | cons b r =>
        simp only [List.map_cons, List.cons_append, List.head?_cons, Option.some.injEq] at hx
        subst hx
        exact hc.first b rfl
  rw [h1, List.reverse_append]
  have h2 : ((trail.map (fun c => Char.ofNat c.toNat)).reverse ++ (content.map (fun c => Char.ofNat c.toNat)).reverse).dropWhile isBlank =
      (content.map (fun c => Char.ofNat c.toNat)).reverse := by
    apply dropWhile_blank_append
    · intro c hc'
      obtain ⟨b, hb, rfl⟩ := List.mem_map.1 (List.mem_reverse.1 hc')
      exact ht b hb
    · intro x hx
      rw [List.head?_reverse, List.getLast?_map] at hx
      cases hl : content.getLast? with
      | none => rw [hl] at hx; simp at hx
      | some b =>
        rw [hl] at hx
        simp only [Option.map_some, Option.some.injEq] at hx
        subst hx
        exact hc.last b hl
  rw [h2, List.reverse_reverse]

theorem trim_blank (ws : Bytes) (h : BlankB ws) : trim (toStr ws) = "" := by
  unfold trim toStr
  simp only [String.toList_ofList]
  have : (ws.map (fun c => Char.ofNat c.toNat)).dropWhile isBlank = [] := by
    have := dropWhile_blank_append (ws.map (fun c => Char.ofNat c.toNat)) [] (by
      intro c hc
      obtain ⟨b, hb, rfl⟩ := List.mem_map.1 hc
      exact h b hb) (by simp)
    simpa using this
  rw [this]
  rfl

theorem blank_eol (crlf : Bool) : BlankB (eol crlf) := by
  intro c hc
  cases crlf <;> simp [eol] at hc
  · subst hc; decide
  · rcases hc with e | e <;> subst e <;> decide

theorem blankB_append (a b : Bytes) (ha : BlankB a) (hb : BlankB b) : BlankB (a ++ b) := by
  intro c hc
  rcases List.mem_append.1 hc with h | h
  · exact ha c h
  · exact hb c h

theorem oitem_line (it : OItem) (h : it.OK) : ∃ b, it.bytes = b ++ [10] ∧ 10 ∉ b := by
  cases it with
  | line pad content trail crlf =>
    obtain ⟨_, hp, _, ht, hc⟩ := h
    have base : 10 ∉ pad ++ content ++ trail := by
      intro hm
      rcases List.mem_append.1 hm with hm | hm
      · rcases List.mem_append.1 hm with hm | hm
        · exact hp hm
        · exact hc.noLF hm
      · exact ht hm
    cases crlf
    · exact ⟨pad ++ content ++ trail, by simp [OItem.bytes, eol], base⟩
    · refine ⟨pad ++ content ++ trail ++ [13], by simp [OItem.bytes, eol], ?_⟩
      intro hm
      rcases List.mem_append.1 hm with hm | hm
      · exact base hm
      · simp at hm
  | blank ws crlf =>
    cases crlf
    · exact ⟨ws, by simp [OItem.bytes, eol], h.2⟩
    · refine ⟨ws ++ [13], by simp [OItem.bytes, eol], ?_⟩
      intro hm
      rcases List.mem_append.1 hm with hm | hm
      · exact h.2 hm
      · simp at hm

theorem toStr_ne_empty (c : Bytes) (h : c ≠ []) : (toStr c).isEmpty = false := by
  cases c with
  | nil => exact absurd rfl h
  | cons b r =>
    unfold toStr
    simp

/-- READ-BACK (old format): whatever the blanks before and after the lines, LF / CRLF and blank lines,
`_readLines` returns the declared lines -/
theorem readLines_renderOld (items : List OItem) (h : ∀ it ∈ items, it.OK) :
    readLines (renderOld items) = items.filterMap OItem.content := by
  unfold readLines renderOld
  rw [rawLines_flatten _ (by
    intro l hl
    obtain ⟨it, hit, rfl⟩ := List.mem_map.1 hl
    exact oitem_line it (h it hit))]
  induction items with
  | nil => rfl
  | cons it rest ih =>
    have ihr := ih (fun x hx => h x (by simp [hx]))
    have hit := h it (by simp)
    simp only [List.map_cons, List.filter_cons]
    cases it with
    | line pad content trail crlf =>
      obtain ⟨hp, _, ht, _, hc⟩ := hit
      have e : trim (toStr (OItem.line pad content trail crlf).bytes) = toStr content := by
        have : (OItem.line pad content trail crlf).bytes = pad ++ content ++ (trail ++ eol crlf) := by
          simp [OItem.bytes]
        rw [this]
        exact trim_line pad content _ hp (blankB_append _ _ ht (blank_eol crlf)) hc
      rw [e, toStr_ne_empty content hc.nonempty]
      simp only [Bool.not_false, if_true, List.filterMap_cons, OItem.content]
      exact congrArg _ ihr
    | blank ws crlf =>
      have e : trim (toStr (OItem.blank ws crlf).bytes) = "" :=
        trim_blank _ (blankB_append _ _ hit.1 (blank_eol crlf))
      rw [e]
      simp only [List.filterMap_cons, OItem.content]
      exact ihr

end ObiVerif.NgsFilterBytes
