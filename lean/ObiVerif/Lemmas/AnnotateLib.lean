import ObiVerif.Lemmas.Annotate
/-!
# The library-driven workers of `obiannotate` (C16): their slot names are never reserved keys, and
what each of them writes

* `libraryKeys_not_reserved`: for every value of the options, no name of `libraryKeys` is `id`,
  `sequence` or `qualities` (the keys `SetAttribute` treats specially): this discharges the `hlib`
  hypothesis of the frame theorems for `id`, and shows that these workers never panic.
* `setAttrs_effect`: a sequence of `SetAttribute` on ordinary keys succeeds, keeps identifier and
  sequence, and the attributes afterwards are "last write wins, the others unchanged".
-/
namespace ObiVerif.Annotate
open ObiVerif.Grep

/-- the keys `SetAttribute` / `GetAttribute` treat specially -/
def Reserved (k : String) : Prop := k = "id" ∨ k = "sequence" ∨ k = "qualities"

/-- a string holding a character that no reserved key holds is not reserved -/
theorem not_reserved_of_marker (c : Char) (k : String) (h : c ∈ k.toList)
    (hc : c ∉ "id".toList ∧ c ∉ "sequence".toList ∧ c ∉ "qualities".toList) : ¬ Reserved k := by
  intro hr
  rcases hr with e | e | e
  · exact hc.1 (e ▸ h)
  · exact hc.2.1 (e ▸ h)
  · exact hc.2.2 (e ▸ h)

theorem underscore_marker : '_' ∉ "id".toList ∧ '_' ∉ "sequence".toList ∧ '_' ∉ "qualities".toList := by decide
theorem x_marker : 'x' ∉ "id".toList ∧ 'x' ∉ "sequence".toList ∧ 'x' ∉ "qualities".toList := by decide
theorem m_marker : 'm' ∉ "id".toList ∧ 'm' ∉ "sequence".toList ∧ 'm' ∉ "qualities".toList := by decide
theorem r_marker : 'r' ∉ "id".toList ∧ 'r' ∉ "sequence".toList ∧ 'r' ∉ "qualities".toList := by decide

/-! ## `strings.Replace(s, old, new, 1)` -/

/-- when `pat` occurs in `l`, every character of the replacement is in the result -/
theorem replaceFirstL_mem (pat rep : List Char) (hp : pat ≠ []) :
    ∀ l, pat <:+: l → ∀ c ∈ rep, c ∈ replaceFirstL pat rep l := by
  intro l
  induction l with
  | nil => intro h; exact absurd (List.eq_nil_of_infix_nil h) hp
  | cons a t ih =>
    intro h c hc
    unfold replaceFirstL
    by_cases hpre : pat.isPrefixOf (a :: t) = true
    · simp only [hpre, if_true]; exact List.mem_append_left _ hc
    · simp only [hpre]
      rcases List.infix_cons_iff.mp h with h1 | h1
      · exact absurd (List.isPrefixOf_iff_prefix.mpr h1) hpre
      · exact List.mem_cons_of_mem _ (ih h1 c hc)

/-- the first occurrence is the one replaced: before it the text is unchanged, after it too -/
theorem replaceFirstL_spec (pat rep : List Char) (hne : pat ≠ []) :
    ∀ l, (¬ pat <:+: l → replaceFirstL pat rep l = l) ∧
      (pat <:+: l → ∃ pre post, l = pre ++ pat ++ post ∧ replaceFirstL pat rep l = pre ++ rep ++ post ∧
        ∀ pre' post', l = pre' ++ pat ++ post' → pre.length ≤ pre'.length) := by
  intro l
  induction l with
  | nil =>
    exact ⟨fun _ => rfl, fun h => absurd (List.eq_nil_of_infix_nil h) hne⟩
  | cons a t ih =>
    by_cases hpre : pat.isPrefixOf (a :: t) = true
    · have hp := List.isPrefixOf_iff_prefix.mp hpre
      refine ⟨fun hn => absurd hp.isInfix hn, fun _ => ?_⟩
      obtain ⟨post, hpost⟩ := hp
      refine ⟨[], post, by simp [hpost], ?_, fun _ _ _ => Nat.zero_le _⟩
      unfold replaceFirstL
      simp only [hpre, if_true, List.nil_append]
      rw [← hpost, List.drop_left]
    · have hnp : ¬ pat <+: a :: t := fun h => hpre (List.isPrefixOf_iff_prefix.mpr h)
      constructor
      · intro hn
        unfold replaceFirstL
        simp only [hpre]
        rw [(ih.1 fun h => hn (List.infix_cons_iff.mpr (Or.inr h)))]
        simp
      · intro h
        rcases List.infix_cons_iff.mp h with h1 | h1
        · exact absurd h1 hnp
        · obtain ⟨pre, post, e1, e2, e3⟩ := ih.2 h1
          refine ⟨a :: pre, post, by simp [e1], ?_, ?_⟩
          · unfold replaceFirstL
            simp only [hpre]
            rw [e2]; simp
          · intro pre' post' e
            cases pre' with
            | nil => exact absurd ⟨post', by simpa using e.symm⟩ hnp
            | cons b p' =>
              simp only [List.cons_append, List.cons.injEq] at e
              have := e3 p' post' (by simpa using e.2)
              simp only [List.length_cons]; omega

/-! ## the slot names of `--add-lca-in` -/

theorem taxid_in_lcaSlot (slot : List Char) : taxidL <:+: (lcaSlotsL slot).1 := by
  unfold lcaSlotsL
  simp only
  by_cases h : taxidL.isSuffixOf slot = true
  · simp only [h, if_true]
    exact (List.isSuffixOf_iff_suffix.mp h).isInfix
  · simp only [h]
    exact ((List.suffix_cons _ _).trans (List.suffix_append _ _)).isInfix

/-- the taxid slot ends with `taxid` -/
theorem lcaSlot_suffix (slot : List Char) : taxidL <:+ (lcaSlotsL slot).1 := by
  unfold lcaSlotsL
  simp only
  by_cases h : taxidL.isSuffixOf slot = true
  · simp only [h, if_true]
    exact List.isSuffixOf_iff_suffix.mp h
  · simp only [h]
    exact (List.suffix_cons _ _).trans (List.suffix_append _ _)

theorem lcaSlotsL_markers (slot : List Char) :
    'x' ∈ (lcaSlotsL slot).1 ∧ 'm' ∈ (lcaSlotsL slot).2.1 ∧ 'r' ∈ (lcaSlotsL slot).2.2 := by
  have key : ∀ s : List Char, taxidL <:+: s →
      'x' ∈ s ∧
      'm' ∈ (if replaceFirstL taxidL nameL s = nameL then ['s', 'c', 'i', 'e', 'n', 't', 'i', 'f', 'i', 'c', '_'] ++ nameL
             else replaceFirstL taxidL nameL s) ∧
      'r' ∈ (if replaceFirstL taxidL errorL s = errorL then ['l', 'c', 'a', '_'] ++ errorL
             else replaceFirstL taxidL errorL s) := by
    intro s hin
    refine ⟨hin.subset (by decide), ?_, ?_⟩
    · by_cases hc : replaceFirstL taxidL nameL s = nameL
      · rw [if_pos hc]; decide
      · rw [if_neg hc]; exact replaceFirstL_mem taxidL nameL (by decide) _ hin 'm' (by decide)
    · by_cases hc : replaceFirstL taxidL errorL s = errorL
      · rw [if_pos hc]; decide
      · rw [if_neg hc]; exact replaceFirstL_mem taxidL errorL (by decide) _ hin 'r' (by decide)
  exact key _ (taxid_in_lcaSlot slot)

theorem lcaSlots_not_reserved (slot : String) :
    ¬ Reserved (lcaSlots slot).1 ∧ ¬ Reserved (lcaSlots slot).2.1 ∧ ¬ Reserved (lcaSlots slot).2.2 := by
  obtain ⟨h1, h2, h3⟩ := lcaSlotsL_markers slot.toList
  unfold lcaSlots
  exact ⟨not_reserved_of_marker 'x' _ (by simpa using h1) x_marker,
    not_reserved_of_marker 'm' _ (by simpa using h2) m_marker,
    not_reserved_of_marker 'r' _ (by simpa using h3) r_marker⟩

/-! ## the slot names of `--pattern` -/

theorem patternSlots_cases (name : String) :
    patternSlots name = ("pattern", "pattern_match", "pattern_error", "pattern_location") ∨
    patternSlots name = (name ++ "_pattern", name ++ "_match", name ++ "_error", name ++ "_location") := by
  unfold patternSlots
  by_cases h : name ≠ "pattern" ∧ name ≠ ""
  · right; simp only [if_pos h]
  · left; simp only [if_neg h]; rfl

theorem append_underscore_not_reserved (a b : String) (hb : '_' ∈ b.toList) : ¬ Reserved (a ++ b) :=
  not_reserved_of_marker '_' _ (by simp [hb]) underscore_marker

theorem patternSlots_not_reserved (name : String) :
    ¬ Reserved (patternSlots name).1 ∧ ¬ Reserved (patternSlots name).2.1 ∧
    ¬ Reserved (patternSlots name).2.2.1 ∧ ¬ Reserved (patternSlots name).2.2.2 := by
  rcases patternSlots_cases name with h | h <;> rw [h]
  · refine ⟨?_, ?_, ?_, ?_⟩ <;> (unfold Reserved; decide)
  · exact ⟨append_underscore_not_reserved _ _ (by decide), append_underscore_not_reserved _ _ (by decide),
      append_underscore_not_reserved _ _ (by decide), append_underscore_not_reserved _ _ (by decide)⟩

/-- the four slots of `--pattern` are pairwise distinct -/
theorem patternSlots_distinct (name : String) :
    let s := patternSlots name
    s.1 ≠ s.2.1 ∧ s.1 ≠ s.2.2.1 ∧ s.1 ≠ s.2.2.2 ∧ s.2.1 ≠ s.2.2.1 ∧ s.2.1 ≠ s.2.2.2 ∧ s.2.2.1 ≠ s.2.2.2 := by
  intro s
  have key : ∀ (a b : String), a.toList ≠ b.toList → name ++ a ≠ name ++ b := by
    intro a b hab e
    have := congrArg String.toList e
    simp only [String.toList_append] at this
    exact hab (List.append_cancel_left this)
  rcases patternSlots_cases name with h | h <;> simp only [s, h]
  · refine ⟨?_, ?_, ?_, ?_, ?_, ?_⟩ <;> decide
  · exact ⟨key _ _ (by decide), key _ _ (by decide), key _ _ (by decide), key _ _ (by decide),
      key _ _ (by decide), key _ _ (by decide)⟩

/-! ## no library key is reserved -/

/-- **for every option set, no attribute name a library-driven worker may write is `id`, `sequence` or
`qualities`** -/
theorem libraryKeys_not_reserved (o : AnnotOpts) : ∀ k ∈ libraryKeys o, ¬ Reserved k := by
  intro k hk
  unfold libraryKeys at hk
  simp only [List.mem_append, List.mem_flatMap] at hk
  rcases hk with (((((⟨rank, _, hk⟩ | hk) | hk) | hk) | hk) | hk) | hk
  · simp only [List.mem_cons, List.not_mem_nil, or_false] at hk
    rcases hk with rfl | rfl
    · exact append_underscore_not_reserved _ _ (by decide)
    · exact append_underscore_not_reserved _ _ (by decide)
  · split at hk
    · simp only [List.mem_cons, List.not_mem_nil, or_false] at hk; subst hk; unfold Reserved; decide
    · simp at hk
  · split at hk
    · simp only [List.mem_cons, List.not_mem_nil, or_false] at hk; subst hk; unfold Reserved; decide
    · simp at hk
  · split at hk
    · simp only [List.mem_cons, List.not_mem_nil, or_false] at hk; subst hk; unfold Reserved; decide
    · simp at hk
  · split at hk
    · simp only [List.mem_cons, List.not_mem_nil, or_false] at hk
      obtain ⟨h1, h2, h3⟩ := lcaSlots_not_reserved o.lcaSlot
      rcases hk with rfl | rfl | rfl | rfl
      · unfold Reserved; decide
      · exact h1
      · exact h2
      · exact h3
    · simp at hk
  · split at hk
    · simp only [List.mem_cons, List.not_mem_nil, or_false] at hk
      rcases hk with rfl | rfl | rfl <;> (unfold Reserved; decide)
    · simp at hk
  · split at hk
    · simp only [List.mem_cons, List.not_mem_nil, or_false] at hk
      obtain ⟨h1, h2, h3, h4⟩ := patternSlots_not_reserved o.patternName
      rcases hk with rfl | rfl | rfl | rfl
      · exact h1
      · exact h2
      · exact h3
      · exact h4
    · simp at hk

theorem id_not_libraryKey (o : AnnotOpts) : "id" ∉ libraryKeys o :=
  fun h => libraryKeys_not_reserved o "id" h (Or.inl rfl)

/-! ## what a sequence of `SetAttribute` on ordinary keys does -/

/-- the value the writes `kvs` leave under `k` (the last write wins), `none` when none names `k` -/
def lastWrite (kvs : List (String × AVal)) (k : String) : Option AVal := kvs.reverse.lookup k

theorem lastWrite_nil (k : String) : lastWrite [] k = none := rfl

theorem lastWrite_cons (kv : String × AVal) (t : List (String × AVal)) (k : String) :
    lastWrite (kv :: t) k = (lastWrite t k).or (if k = kv.1 then some kv.2 else none) := by
  unfold lastWrite
  rw [List.reverse_cons, List.lookup_append]
  congr 1
  by_cases h : k = kv.1
  · have hb : (k == kv.1) = true := by simp [h]
    simp [List.lookup, h]
  · have hb : (k == kv.1) = false := by simp [h]
    simp [List.lookup, hb, h]

theorem setAttribute_ordinary (k : String) (v : AVal) (r : Rec) (hk : ¬ Reserved k) :
    setAttribute k v r = .ok { r with attrs := setKey k v r.attrs } := by
  have h1 : k ≠ "id" := fun e => hk (Or.inl e)
  have h2 : k ≠ "sequence" := fun e => hk (Or.inr (Or.inl e))
  have h3 : k ≠ "qualities" := fun e => hk (Or.inr (Or.inr e))
  simp [setAttribute, h1, h2, h3]

/-- **a sequence of `SetAttribute` on ordinary keys**: it succeeds, identifier and sequence are
unchanged, and every attribute is the last value written under its name, or its old value when
nothing was written under its name -/
theorem setAttrs_effect (kvs : List (String × AVal)) (hk : ∀ kv ∈ kvs, ¬ Reserved kv.1) (r : Rec) :
    ∃ r', setAttrs kvs r = .ok r' ∧ r'.id = r.id ∧ r'.seq = r.seq ∧
      ∀ k, r'.attrs.lookup k = (lastWrite kvs k).or (r.attrs.lookup k) := by
  induction kvs generalizing r with
  | nil => exact ⟨r, rfl, rfl, rfl, fun k => by simp [lastWrite_nil]⟩
  | cons kv t ih =>
    have h0 := setAttribute_ordinary kv.1 kv.2 r (hk kv (by simp))
    obtain ⟨r', e1, e2, e3, e4⟩ := ih (fun kv' h' => hk kv' (by simp [h'])) { r with attrs := setKey kv.1 kv.2 r.attrs }
    refine ⟨r', ?_, e2, e3, ?_⟩
    · have : setAttrs (kv :: t) r = setAttrs t { r with attrs := setKey kv.1 kv.2 r.attrs } := by
        unfold setAttrs
        rw [List.foldl_cons]
        show List.foldl _ (setAttribute kv.1 kv.2 r) t = _
        rw [h0]
      rw [this]
      exact e1
    · intro k
      rw [e4 k, lastWrite_cons]
      show (lastWrite t k).or ((setKey kv.1 kv.2 r.attrs).lookup k) = _
      rw [lookup_setKey]
      cases lastWrite t k with
      | some v => rfl
      | none => by_cases h : k = kv.1 <;> simp [h]

/-- a key no write names keeps its value -/
theorem lastWrite_none (kvs : List (String × AVal)) (k : String) (h : ∀ kv ∈ kvs, kv.1 ≠ k) :
    lastWrite kvs k = none := by
  induction kvs with
  | nil => rfl
  | cons kv t ih =>
    rw [lastWrite_cons, ih (fun kv' h' => h kv' (by simp [h']))]
    have : k ≠ kv.1 := fun e => h kv (by simp) e.symm
    simp [this]

/-- with pairwise distinct names, every write is the value found afterwards under its name -/
theorem lastWrite_of_nodup (kvs : List (String × AVal)) (hnd : (kvs.map (·.1)).Nodup) (k : String) (v : AVal)
    (h : (k, v) ∈ kvs) : lastWrite kvs k = some v := by
  induction kvs with
  | nil => simp at h
  | cons kv t ih =>
    rw [lastWrite_cons]
    simp only [List.map_cons, List.nodup_cons] at hnd
    rcases List.mem_cons.mp h with e | e
    · subst e
      rw [lastWrite_none t k (fun kv' h' e' => hnd.1 (e' ▸ List.mem_map_of_mem (f := (·.1)) h'))]
      simp
    · rw [ih hnd.2 e]; rfl

/-- a single worker in a chain -/
theorem foldl_bind_singleton {β : Type} (f : β → Edit) (b : β) (r : Rec) :
    [b].foldl (fun acc b => Outcome.bind acc (f b)) (.ok r) = f b r := rfl

end ObiVerif.Annotate
