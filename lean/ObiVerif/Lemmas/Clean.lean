import ObiVerif.Model.Clean
import ObiVerif.Lemmas.Race
/-! lemmas on the obiclean graph model (property C13) -/
namespace ObiVerif.Clean
open ObiVerif.Race

/-! ## sortByCount -/

theorem insertByCount_perm (x : Node) (l : List Node) : (insertByCount x l).Perm (x :: l) := by
  induction l with
  | nil => exact List.Perm.refl _
  | cons y ys ih =>
    simp only [insertByCount]
    split
    · exact List.Perm.refl _
    · exact ((List.Perm.cons y ih).trans (List.Perm.swap x y ys))

theorem sortByCount_perm (l : List Node) : (sortByCount l).Perm l := by
  induction l with
  | nil => exact List.Perm.refl _
  | cons x xs ih =>
    show (insertByCount x (sortByCount xs)).Perm (x :: xs)
    exact (insertByCount_perm x _).trans (List.Perm.cons x ih)

theorem insertByCount_sorted (x : Node) (l : List Node) (h : l.Pairwise (fun a b => a.count ≤ b.count)) :
    (insertByCount x l).Pairwise (fun a b => a.count ≤ b.count) := by
  induction l with
  | nil => simp [insertByCount]
  | cons y ys ih =>
    simp only [insertByCount]
    rw [List.pairwise_cons] at h
    split
    · rename_i hxy
      rw [List.pairwise_cons]
      refine ⟨fun z hz => ?_, List.pairwise_cons.2 h⟩
      rcases List.mem_cons.1 hz with rfl | hz
      · exact hxy
      · exact Nat.le_trans hxy (h.1 z hz)
    · rename_i hxy
      rw [List.pairwise_cons]
      refine ⟨fun z hz => ?_, ih h.2⟩
      rcases List.mem_cons.1 ((insertByCount_perm x ys).mem_iff.1 hz) with rfl | hz
      · omega
      · exact h.1 z hz

theorem sortByCount_sorted (l : List Node) : (sortByCount l).Pairwise (fun a b => a.count ≤ b.count) := by
  induction l with
  | nil => exact List.Pairwise.nil
  | cons x xs ih => exact insertByCount_sorted x _ ih

/-! ## the rows of the distance-one graph -/

theorem mem_rowEdges1 (K : Kernels) (ns : Array Node) (i : Nat) (e : Edge) :
    e ∈ rowEdges1 K ns i ↔ ∃ j, i < j ∧ j < ns.size ∧ edgeTo1 K ns i j = some e := by
  simp only [rowEdges1, List.mem_filterMap, List.mem_range'_1]
  constructor
  · rintro ⟨j, ⟨h1, h2⟩, he⟩
    exact ⟨j, by omega, by omega, he⟩
  · rintro ⟨j, h1, h2, he⟩
    exact ⟨j, ⟨by omega, by omega⟩, he⟩

theorem edgeTo1_eq (K : Kernels) (ns : Array Node) (i j : Nat) (hi : i < ns.size) (hj : j < ns.size) :
    edgeTo1 K ns i j =
      if ns[j].count > ns[i].count ∧ (K.d1 ns[i].seq ns[j].seq).verdict > 0 then
        some ⟨j, (K.d1 ns[i].seq ns[j].seq).verdict, (K.d1 ns[i].seq ns[j].seq).pos,
              (K.d1 ns[i].seq ns[j].seq).a2, (K.d1 ns[i].seq ns[j].seq).a1⟩
      else none := by
  unfold edgeTo1
  rw [Array.getElem?_eq_getElem hi, Array.getElem?_eq_getElem hj]
  simp only
  by_cases h1 : ns[j].count > ns[i].count
  · by_cases h2 : (K.d1 ns[i].seq ns[j].seq).verdict > 0
    · simp [h1, h2]
    · simp [h1, h2]
  · simp [h1]

/-! ## one parallel phase = the sequential reference -/

theorem count_range (n i : Nat) : (List.range n).count i = if i < n then 1 else 0 := by
  rw [List.Nodup.count List.nodup_range]
  simp [List.mem_range]

theorem flatMap_filter_nil {α : Type} (P : Nat → Bool) (f : Nat → List α) (l : List Nat)
    (h : ∀ i, P i = false → f i = []) : (l.filter P).flatMap f = l.flatMap f := by
  induction l with
  | nil => rfl
  | cons x xs ih =>
    by_cases hx : P x = true
    · simp only [List.filter_cons, hx, if_true, List.flatMap_cons, ih]
    · have hx' : P x = false := by simpa using hx
      simp only [List.filter_cons, hx', Bool.false_eq_true, if_false, List.flatMap_cons, ih, h x hx', List.nil_append]

theorem sonsOf_row (r : List Edge) (j : Nat) :
    (r.filter (fun e => e.father == j)).length = (r.map (·.father)).count j := by
  induction r with
  | nil => rfl
  | cons e es ih =>
    simp only [List.filter_cons, List.map_cons, List.count_cons]
    by_cases h : e.father == j
    · simp only [h, if_true, List.length_cons, ih]
    · simp only [h, Bool.false_eq_true, if_false, ih, Nat.add_zero]

theorem sonsOf_map (rowOut : Nat → List Edge) (l : List Nat) (j : Nat) :
    sonsOf (l.map rowOut) j = (l.flatMap (fun i => (rowOut i).map (·.father))).count j := by
  unfold sonsOf
  induction l with
  | nil => rfl
  | cons x xs ih =>
    simp only [List.map_cons, List.flatten_cons, List.filter_append, List.length_append, List.flatMap_cons,
      List.count_append, ih, sonsOf_row]

/-- a pool whose workers handle, in any order and with any interleaving of ATOMIC increments, exactly the rows
that are dispatched (`P`), leaves the same edge lists and the same counters as the sequential loop -/
theorem parPhase_eq (n : Nat) (rowOut : Nat → List Edge) (P : Nat → Bool) (assign : List (List Nat)) (picks : List Nat)
    (hassign : assign.flatten.Perm ((List.range n).filter P))
    (hP : ∀ i, P i = false → rowOut i = [])
    (hdone : (parMachine rowOut true assign picks).done = true) :
    parPhase n rowOut true assign picks = ((List.range n).map rowOut, sonCount n ((List.range n).map rowOut)) := by
  unfold parPhase
  simp only
  refine Prod.ext ?_ ?_
  · show (List.range n).map (poolEdges rowOut assign) = (List.range n).map rowOut
    apply List.map_congr_left
    intro i hi
    have hin : i < n := List.mem_range.1 hi
    unfold poolEdges
    rw [hassign.count_eq i]
    by_cases hp : P i = true
    · rw [List.count_filter hp, count_range, if_pos hin]
      simp
    · have hp' : P i = false := by simpa using hp
      have : ((List.range n).filter P).count i = 0 := by
        rw [List.count_eq_zero]
        intro hm
        have := (List.mem_filter.1 hm).2
        rw [hp'] at this
        exact Bool.false_ne_true this
      rw [this, hP i hp']
      rfl
  · show (List.range n).map _ = sonCount n ((List.range n).map rowOut)
    unfold sonCount
    apply List.map_congr_left
    intro j _
    have hm := pool_atomic_mem (fun i => (rowOut i).map (fun e : Edge => e.father)) assign picks hdone j
    rw [hm, (hassign.flatMap_right _).count_eq j,
      flatMap_filter_nil P _ _ (fun i hi => by rw [hP i hi]; rfl), sonsOf_map]

/-! ## the son counters at the end are the number of remaining sons -/

theorem sonsOf_appendRows (j : Nat) : ∀ (a b : List (List Edge)), a.length = b.length →
    sonsOf (appendRows a b) j = sonsOf a j + sonsOf b j := by
  intro a
  induction a with
  | nil => intro b hb; cases b with
    | nil => rfl
    | cons _ _ => simp at hb
  | cons x xs ih =>
    intro b hb
    cases b with
    | nil => simp at hb
    | cons y ys =>
      have hl : xs.length = ys.length := by simpa using hb
      have := ih ys hl
      simp only [sonsOf, appendRows, List.zipWith_cons_cons, List.flatten_cons, List.filter_append,
        List.length_append] at this ⊢
      omega

theorem sonsOf_pos (es : List (List Edge)) (j : Nat) :
    sonsOf es j > 0 ↔ ∃ row ∈ es, ∃ e ∈ row, e.father = j := by
  unfold sonsOf
  rw [gt_iff_lt, List.length_pos_iff_exists_mem]
  constructor
  · rintro ⟨e, he⟩
    obtain ⟨hm, hf⟩ := List.mem_filter.1 he
    obtain ⟨row, hr, her⟩ := List.mem_flatten.1 hm
    exact ⟨row, hr, e, her, by simpa using hf⟩
  · rintro ⟨row, hr, e, her, hf⟩
    exact ⟨e, List.mem_filter.2 ⟨List.mem_flatten.2 ⟨row, hr, her⟩, by simpa using hf⟩⟩

theorem map_range_getD {α : Type} (l : List α) (d : α) : (List.range l.length).map (fun i => l.getD i d) = l := by
  apply List.ext_getElem?
  intro i
  by_cases hi : i < l.length
  · simp [List.getElem?_map, List.getElem?_range hi, List.getD_eq_getElem?_getD, List.getElem?_eq_getElem hi]
  · have h1 : l[i]? = none := List.getElem?_eq_none (by omega)
    have h2 : (List.range l.length)[i]? = none := List.getElem?_eq_none (by simp; omega)
    simp [List.getElem?_map, h1, h2]

/-- what `finish` returns: one `Out` per row; its edge list is the (filtered) edge list of the row, and its son
counter is exactly the number of remaining edges pointing to it -/
theorem finish_spec (cfg : Config) (ns : Array Node) (es1 es2 : List (List Edge))
    (hl1 : es1.length = ns.size) (hl2 : es2.length = ns.size) (outs : List Out)
    (h : finish cfg ns es1 (sonCount ns.size es1) es2 (sonCount ns.size es2) = .ok outs) :
    outs.length = ns.size ∧
    ∀ k o, outs[k]? = some o → o.sons = (sonsOf (outs.map (·.edges)) k : Int) := by
  unfold finish at h
  simp only at h
  split at h
  · cases h
  · rename_i weight _
    injection h with h
    have hles : (appendRows es1 es2).length = ns.size := by simp [appendRows, List.length_zipWith, hl1, hl2]
    generalize hes : appendRows es1 es2 = es at h hles
    generalize hesF : (if cfg.p < cfg.q then filterEdges cfg.p cfg.q weight es else es) = esF at h
    have hlF : esF.length = ns.size := by
      rw [← hesF]
      split
      · simp [filterEdges, hles]
      · exact hles
    have hsons : ∀ k, k < ns.size →
        (List.zipWith (· + ·) (sonCount ns.size es1) (sonCount ns.size es2))[k]? = some (sonsOf es k) := by
      intro k hk
      rw [← hes, sonsOf_appendRows k es1 es2 (by omega)]
      simp [sonCount, List.getElem?_map, List.getElem?_range hk]
    have hedges : outs.map (·.edges) = esF := by
      rw [← h, List.map_map]
      have := map_range_getD esF []
      rw [hlF] at this
      exact this
    refine ⟨by rw [← h]; simp, fun k o hko => ?_⟩
    rw [hedges]
    rw [← h, List.getElem?_map] at hko
    by_cases hk : k < ns.size
    · rw [List.getElem?_range hk] at hko
      simp only [Option.map_some, Option.some.injEq] at hko
      rw [← hko]
      simp only
      split
      · rename_i hpq
        simp only [hpq, if_true] at hesF
        simp only [sonsAfterFilter, List.getD_eq_getElem?_getD, List.getElem?_map, List.getElem?_zipIdx, hsons k hk,
          Option.map_some, Option.getD_some, Nat.zero_add]
        omega
      · rename_i hpq
        simp only [hpq, if_false] at hesF
        subst hesF
        simp only [List.getD_eq_getElem?_getD, List.getElem?_map, hsons k hk, Option.map_some, Option.getD_some]
        rfl
    · rw [List.getElem?_eq_none (by simp; omega)] at hko
      simp at hko

/-- the edge list `finish` returns for row `i`: the edges of the two phases, filtered on the ratio when `p < q` -/
theorem finish_edges (cfg : Config) (ns : Array Node) (es1 es2 : List (List Edge)) (sons1 sons2 : List Nat)
    (hl1 : es1.length = ns.size) (hl2 : es2.length = ns.size) (outs : List Out)
    (h : finish cfg ns es1 sons1 es2 sons2 = .ok outs) (i : Nat) (o : Out) (hi : outs[i]? = some o) :
    i < ns.size ∧ o.node = ns.getD i ⟨0, 0, []⟩ ∧ ∃ weight : Array Nat,
      o.edges = if cfg.p < cfg.q then filterRow cfg.p cfg.q weight i (es1.getD i [] ++ es2.getD i [])
                else es1.getD i [] ++ es2.getD i [] := by
  unfold finish at h
  simp only at h
  split at h
  · cases h
  · rename_i weight _
    injection h with h
    rw [← h, List.getElem?_map] at hi
    by_cases hk : i < ns.size
    · rw [List.getElem?_range hk] at hi
      simp only [Option.map_some, Option.some.injEq] at hi
      refine ⟨hk, by rw [← hi], weight, ?_⟩
      rw [← hi]
      simp only
      have happ : (appendRows es1 es2)[i]? = some (es1.getD i [] ++ es2.getD i []) := by
        have h1 : es1[i]? = some es1[i] := List.getElem?_eq_getElem (by omega)
        have h2 : es2[i]? = some es2[i] := List.getElem?_eq_getElem (by omega)
        simp [appendRows, List.getElem?_zipWith, h1, h2, List.getD_eq_getElem?_getD]
      split
      · simp [filterEdges, List.getD_eq_getElem?_getD, List.getElem?_map, List.getElem?_zipIdx, happ]
      · simp [List.getD_eq_getElem?_getD, happ]
    · rw [List.getElem?_eq_none (by simp; omega)] at hi
      simp at hi

end ObiVerif.Clean
