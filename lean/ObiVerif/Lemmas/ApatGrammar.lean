import ObiVerif.Lemmas.ApatComp
/-!
# `CheckPattern` accepts exactly the documented grammar, up to three exotic adjacencies (C10, `compile_grammar_iff`)

`compile_pat` (Lemmas/ApatComp.lean): every pattern string of the grammar `(['!'] (Letter | '[' Letter+ ']') ['#'])+` compiles.
Converse, this file: a string accepted by `CheckPattern` in which no `#` directly follows a `#` or a `!`, and no `!`
directly follows a `!` (`plain`), is the string of a well-formed token list.  (`CheckPattern` also accepts `A##`, `!#`,
`!!A`: those are outside the documented grammar; `complement_outside_grammar` shows what they do.)
-/
namespace ObiVerif.Apat

/-- no `#` right after `#` or `!`, no `!` right after `!` -/
def plain : Bytes → Bool
  | [] => true
  | [_] => true
  | a :: b :: rest =>
    !((b == chHash && (a == chHash || a == chBang)) || (b == chBang && a == chBang)) && plain (b :: rest)

theorem plain_tail (a : UInt8) (l : Bytes) (h : plain (a :: l) = true) : plain l = true := by
  cases l with
  | nil => rfl
  | cons b rest =>
    simp only [plain, Bool.and_eq_true] at h
    exact h.2

theorem plain_suffix (x y : Bytes) (h : plain (x ++ y) = true) : plain y = true := by
  induction x with
  | nil => exact h
  | cons a x ih => exact ih (plain_tail a _ h)

/-- `prev` only matters through `prev == '['` -/
theorem checkLoop_prev (p p' : UInt8) (hp : (p == chLBr) = false) (hp' : (p' == chLBr) = false) (lev : Int) (l : Bytes) :
    checkLoop p lev l = checkLoop p' lev l := by
  cases l with
  | nil => rfl
  | cons c rest => simp only [checkLoop, hp, hp']

/-- inside brackets: a run of letters up to the closing bracket -/
theorem check_lev1 (l : Bytes) : ∀ prev, checkLoop prev 1 l = true →
    ∃ ls tail, l = ls ++ chRBr :: tail ∧ (∀ c ∈ ls, isUpper c = true) ∧ checkLoop chRBr 0 tail = true := by
  induction l with
  | nil => intro prev h; simp [checkLoop] at h
  | cons c rest ih =>
    intro prev h
    have h1 : (((1 : Int)) != 0) = true := by decide
    have h6 : (((1 : Int) - 1) != 0) = false := by decide
    by_cases c1 : (c == chLBr) = true
    · simp only [checkLoop, c1, if_true, h1] at h; cases h
    · by_cases c2 : (c == chRBr) = true
      · have hc : c = chRBr := eq_of_beq c2
        simp only [checkLoop, c1, c2, if_true, h6, Bool.false_eq_true, if_false] at h
        subst hc
        refine ⟨[], rest, rfl, by simp, ?_⟩
        have : ((1 : Int) - 1) = 0 := by decide
        rw [this] at h
        exact h
      · by_cases c3 : (c == chBang) = true
        · simp only [checkLoop, c1, c2, c3, if_true, h1, Bool.false_eq_true, if_false] at h
        · by_cases c4 : (c == chHash) = true
          · simp only [checkLoop, c1, c2, c3, c4, if_true, h1, Bool.false_eq_true, if_false] at h
          · by_cases c5 : isUpper c = true
            · simp only [checkLoop, c1, c2, c3, c4, c5, if_true, Bool.false_eq_true, if_false] at h
              obtain ⟨ls, tail, hl, hup, hck⟩ := ih c h
              refine ⟨c :: ls, tail, by rw [hl]; rfl, ?_, hck⟩
              intro x hx
              rcases List.mem_cons.1 hx with rfl | hx
              · exact c5
              · exact hup x hx
            · simp only [checkLoop, c1, c2, c3, c4, c5, Bool.false_eq_true, if_false] at h

/-- the body of a token at the head of an accepted string: `[letters]` or one letter; what follows is accepted -/
theorem check_body (d : UInt8) (r : Bytes) (prev : UInt8) (hd : (d == chLBr) = true ∨ isUpper d = true)
    (h : checkLoop prev 0 (d :: r) = true) :
    ∃ (br : Bool) (ls tail : Bytes) (p : UInt8), (∀ c ∈ ls, isUpper c = true) ∧ ls ≠ [] ∧ (br = false → ls.length = 1) ∧
      d :: r = (if br then chLBr :: (ls ++ [chRBr]) else ls) ++ tail ∧ (p == chLBr) = false ∧ checkLoop p 0 tail = true := by
  have h4 : ((0 : Int) != 0) = false := by decide
  rcases hd with c1 | c5
  · have hd' : d = chLBr := eq_of_beq c1
    subst hd'
    simp only [checkLoop, beq_self_eq_true, if_true, h4, Bool.false_eq_true, if_false] at h
    split at h
    · cases h
    · rename_i hnext
      have h' : checkLoop chLBr 1 r = true := h
      obtain ⟨ls, tail, hl, hup, hck⟩ := check_lev1 r chLBr h'
      refine ⟨true, ls, tail, chRBr, hup, ?_, by simp, ?_, by decide, hck⟩
      · intro h0
        subst h0
        rw [hl] at hnext
        simp at hnext
      · rw [hl]; simp
  · have hx := upper_ne d c5
    simp only [checkLoop, hx.1, hx.2.1, hx.2.2.1, hx.2.2.2.1, c5, if_true, Bool.false_eq_true, if_false] at h
    exact ⟨false, [d], r, d, by simpa using c5, by simp, by simp, by simp, hx.1, h⟩

/-- **every plain string accepted by the `CheckPattern` loop is a pattern of the grammar** -/
theorem parse_grammar : ∀ (n : Nat) (l : Bytes) (prev : UInt8), l.length ≤ n → (prev == chLBr) = false →
    checkLoop prev 0 l = true → plain l = true → (l.headD 0 == chHash) = false →
    ∃ ts : List Tok, (∀ t ∈ ts, t.WF) ∧ l = patStr ts := by
  intro n
  induction n with
  | zero =>
    intro l _ hl _ _ _ _
    have : l = [] := List.length_eq_zero_iff.1 (by omega)
    subst this
    exact ⟨[], by simp, rfl⟩
  | succ n ih =>
    intro l prev hl hprev hck hpl hhead
    cases l with
    | nil => exact ⟨[], by simp, rfl⟩
    | cons c rest =>
      have h4 : ((0 : Int) != 0) = false := by decide
      -- the part after the optional `!`
      have key : ∀ (neg : Bool) (d : UInt8) (r : Bytes) (pv : UInt8), (d :: r).length ≤ n + 1 →
          c :: rest = (if neg then [chBang] else []) ++ (d :: r) → checkLoop pv 0 (d :: r) = true →
          ((d == chLBr) = true ∨ isUpper d = true) → ∃ ts : List Tok, (∀ t ∈ ts, t.WF) ∧ c :: rest = patStr ts := by
        intro neg d r pv hlen hsplit hckd hdk
        obtain ⟨br, ls, tail, p, hup, hne, hone, heq, hp, hcktail⟩ := check_body d r pv hdk hckd
        have hpl' : plain tail = true := by
          have : plain (d :: r) = true := by
            rw [hsplit] at hpl
            exact plain_suffix _ _ hpl
          rw [heq] at this
          exact plain_suffix _ _ this
        have hbodylen : 1 ≤ (if br then chLBr :: (ls ++ [chRBr]) else ls).length := by
          cases br
          · simp only [Bool.false_eq_true, if_false]
            exact List.length_pos_iff.2 hne
          · simp
        have htl : tail.length ≤ n := by
          have := congrArg List.length heq
          simp only [List.length_append] at this
          simp only [List.length_cons] at hlen this
          omega
        -- optional `#`
        by_cases c4 : (tail.headD 0 == chHash) = true
        · cases tail with
          | nil => simp [chHash] at c4
          | cons x tail' =>
            have hx : x = chHash := by simpa using c4
            subst hx
            have h1 : (chHash == chLBr) = false := by decide
            have h2 : (chHash == chRBr) = false := by decide
            have h3 : (chHash == chBang) = false := by decide
            have hck' : checkLoop chHash 0 tail' = true := by
              simp only [checkLoop, h1, h2, h3, h4, hp, Bool.false_eq_true, if_false, beq_self_eq_true, if_true] at hcktail
              exact hcktail
            have hhead' : (tail'.headD 0 == chHash) = false := by
              cases tail' with
              | nil => decide
              | cons y t2 =>
                simp only [plain, Bool.and_eq_true, Bool.not_eq_true', Bool.or_eq_false_iff, Bool.and_eq_false_imp] at hpl'
                simp only [List.headD_cons]
                cases hy : y == chHash with
                | false => rfl
                | true =>
                  have := hpl'.1.1 hy
                  simp at this
            obtain ⟨ts, hts, htl'⟩ := ih tail' chHash (by simp only [List.length_cons] at htl; omega) h1 hck'
              (plain_tail _ _ hpl') hhead'
            refine ⟨⟨neg, br, ls, true⟩ :: ts, ?_, ?_⟩
            · intro t ht
              rcases List.mem_cons.1 ht with rfl | ht
              · exact ⟨hup, hne, hone⟩
              · exact hts t ht
            · rw [patStr_cons, ← htl', hsplit, heq]
              simp [Tok.str, Tok.bang, Tok.body, Tok.hash]
        · have c4' : (tail.headD 0 == chHash) = false := by simpa using c4
          obtain ⟨ts, hts, htl'⟩ := ih tail p htl hp hcktail hpl' c4'
          refine ⟨⟨neg, br, ls, false⟩ :: ts, ?_, ?_⟩
          · intro t ht
            rcases List.mem_cons.1 ht with rfl | ht
            · exact ⟨hup, hne, hone⟩
            · exact hts t ht
          · rw [patStr_cons, ← htl', hsplit, heq]
            simp [Tok.str, Tok.bang, Tok.body, Tok.hash]
      by_cases c1 : (c == chLBr) = true
      · exact key false c rest prev hl (by simp) hck (Or.inl c1)
      · by_cases c2 : (c == chRBr) = true
        · have h6 : (((0 : Int) - 1) != 0) = true := by decide
          simp only [checkLoop, c1, c2, if_true, h6, Bool.false_eq_true, if_false] at hck
        · by_cases c3 : (c == chBang) = true
          · have hc : c = chBang := eq_of_beq c3
            subst hc
            simp only [checkLoop, c1, c2, beq_self_eq_true, if_true, h4, Bool.false_eq_true, if_false] at hck
            split at hck
            · cases hck
            · rename_i hn0
              split at hck
              · cases hck
              · rename_i hnr
                cases rest with
                | nil => simp at hn0
                | cons d r =>
                  simp only [List.headD_cons] at hn0 hnr
                  have hb1 : (chBang == chLBr) = false := by decide
                  -- `d` is neither `!` nor `#` (plain), nor `]`: it is `[` or a letter, otherwise the loop rejects
                  simp only [plain, Bool.and_eq_true, Bool.not_eq_true', Bool.or_eq_false_iff] at hpl
                  have hd3 : (d == chBang) = false := by
                    have := hpl.1.2
                    simpa using this
                  have hd4 : (d == chHash) = false := by
                    have := hpl.1.1
                    simpa using this
                  have hdk : (d == chLBr) = true ∨ isUpper d = true := by
                    by_cases d1 : (d == chLBr) = true
                    · exact Or.inl d1
                    · right
                      by_cases d5 : isUpper d = true
                      · exact d5
                      · have hck2 := hck
                        simp only [checkLoop, d1, hnr, hd3, hd4, d5, Bool.false_eq_true, if_false] at hck2

                  exact key true d r chBang (by simp only [List.length_cons] at hl ⊢; omega) (by simp) hck hdk
          · by_cases c4 : (c == chHash) = true
            · simp only [List.headD_cons] at hhead
              rw [c4] at hhead; cases hhead
            · by_cases c5 : isUpper c = true
              · exact key false c rest prev hl (by simp) hck (Or.inr c5)
              · simp only [checkLoop, c1, c2, c3, c4, c5, Bool.false_eq_true, if_false] at hck

/-- **converse of `compile_pat`**: a non-empty plain string accepted by `CheckPattern` is a pattern of the grammar -/
theorem checkPattern_grammar (cpat : Bytes) (hne : cpat ≠ []) (hck : checkPattern cpat = true) (hpl : plain cpat = true) :
    ∃ ts : List Tok, (∀ t ∈ ts, t.WF) ∧ ts ≠ [] ∧ cpat = patStr ts := by
  unfold checkPattern at hck
  split at hck
  · cases hck
  · rename_i hh
    have hh' : (cpat.headD 0 == chHash) = false := by simpa using hh
    obtain ⟨ts, hts, heq⟩ := parse_grammar cpat.length cpat 0 (Nat.le_refl _) (by decide) hck hpl hh'
    refine ⟨ts, hts, ?_, heq⟩
    intro h0
    subst h0
    exact hne heq

end ObiVerif.Apat
