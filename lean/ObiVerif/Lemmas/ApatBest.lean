import ObiVerif.Lemmas.Apat
import ObiVerif.Lemmas.ApatLocate
import ObiVerif.Lemmas.ApatIndel
/-!
# Go layer of the matcher: `BestMatch`, `FilterBestMatch`, `AllMatches` (C10)

* `bestOf_spec`: the selection loop of `BestMatch` returns the LEFTMOST hit of minimal error count;
* `manberAll_err_le`: every raw hit carries an error level `≤ maxerr`;
* `filterBest_cover`, `filterBest_chain`, `filterBest_nonempty`: `FilterBestMatch` on a list sorted by start position keeps, for
  every reported hit, a hit with at most as many errors; two consecutive kept hits do not overlap
  (`b.start - b.err ≥ a.end + a.err`); nothing is invented (`filterBest_subset`);
* `allMatchStep_spec`, `allMatches_spec`: a hit re-aligned by `AllMatches` is a span of the sequence whose reported error count
  is the edit distance (`_samenuc` equality) between the pattern string and that span, within the budget;
* `bestMatch_spec`: the same for `BestMatch`, the re-aligned hit being the leftmost raw hit of minimal error level.
-/
namespace ObiVerif.Apat

/-! ## the best hit -/

def selStep (best m : Hit) : Hit := if m.2.2 < best.2.2 then m else best

theorem bestOf_eq (res : List Hit) : bestOf res = res.foldl selStep (0, 0, 10000) := rfl

theorem selFold_spec (l : List Hit) (b : Hit) :
    (l.foldl selStep b = b ∧ ∀ m ∈ l, b.2.2 ≤ m.2.2) ∨
    (∃ l1 l2, l = l1 ++ l.foldl selStep b :: l2 ∧ (l.foldl selStep b).2.2 < b.2.2 ∧
       (∀ m ∈ l1, (l.foldl selStep b).2.2 < m.2.2) ∧ ∀ m ∈ l2, (l.foldl selStep b).2.2 ≤ m.2.2) := by
  induction l generalizing b with
  | nil => exact Or.inl ⟨rfl, by simp⟩
  | cons m l ih =>
    simp only [List.foldl_cons]
    by_cases hlt : m.2.2 < b.2.2
    · have hstep : selStep b m = m := by simp [selStep, hlt]
      rw [hstep]
      rcases ih m with ⟨heq, hall⟩ | ⟨l1, l2, hl, hs, h1, h2⟩
      · right
        refine ⟨[], l, ?_, ?_, by simp, ?_⟩
        · rw [heq]; rfl
        · rw [heq]; exact hlt
        · rw [heq]; exact hall
      · right
        refine ⟨m :: l1, l2, ?_, by omega, ?_, h2⟩
        · show m :: l = m :: (l1 ++ List.foldl selStep m l :: l2)
          exact congrArg _ hl
        · intro m' hm'
          rcases List.mem_cons.1 hm' with rfl | hm'
          · exact hs
          · exact h1 m' hm'
    · have hstep : selStep b m = b := by simp [selStep, hlt]
      rw [hstep]
      rcases ih b with ⟨heq, hall⟩ | ⟨l1, l2, hl, hs, h1, h2⟩
      · left
        refine ⟨heq, ?_⟩
        intro m' hm'
        rcases List.mem_cons.1 hm' with rfl | hm'
        · omega
        · exact hall m' hm'
      · right
        refine ⟨m :: l1, l2, ?_, hs, ?_, h2⟩
        · show m :: l = m :: (l1 ++ List.foldl selStep b l :: l2)
          exact congrArg _ hl
        · intro m' hm'
          rcases List.mem_cons.1 hm' with rfl | hm'
          · omega
          · exact h1 m' hm'

/-- **the selection loop of `BestMatch`**: on a non-empty hit list (error counts below the sentinel 10000) it returns the
leftmost hit of minimal error count -/
theorem bestOf_spec (res : List Hit) (hlt : ∀ m ∈ res, m.2.2 < 10000) (hne : res ≠ []) :
    ∃ l1 l2, res = l1 ++ bestOf res :: l2 ∧ (∀ m ∈ l1, (bestOf res).2.2 < m.2.2) ∧ ∀ m ∈ l2, (bestOf res).2.2 ≤ m.2.2 := by
  rw [bestOf_eq]
  rcases selFold_spec res (0, 0, 10000) with ⟨_, hall⟩ | ⟨l1, l2, hl, _, h1, h2⟩
  · cases res with
    | nil => exact absurd rfl hne
    | cons m l =>
      have a := hall m (by simp)
      have b := hlt m (by simp)
      simp only at a
      omega
  · exact ⟨l1, l2, hl, h1, h2⟩

theorem bestOf_mem (res : List Hit) (hlt : ∀ m ∈ res, m.2.2 < 10000) (hne : res ≠ []) :
    bestOf res ∈ res ∧ ∀ m ∈ res, (bestOf res).2.2 ≤ m.2.2 := by
  obtain ⟨l1, l2, hl, h1, h2⟩ := bestOf_spec res hlt hne
  generalize bestOf res = b at *
  refine ⟨by rw [hl]; simp, ?_⟩
  intro m hm
  rw [hl] at hm
  rcases List.mem_append.1 hm with hm | hm
  · have := h1 m hm; omega
  · rcases List.mem_cons.1 hm with rfl | hm
    · exact Int.le_refl _
    · exact h2 m hm

/-! ## error levels of the raw hits -/

theorem firstHit_lt (rs : List W) (e0 e : Nat) (h : firstHit rs e0 = some e) : e < e0 + rs.length := by
  induction rs generalizing e0 with
  | nil => simp [firstHit] at h
  | cons r rs ih =>
    simp only [firstHit] at h
    split at h
    · simp only [Option.some.injEq] at h; simp only [List.length_cons]; omega
    · have := ih _ h; simp only [List.length_cons]; omega

theorem manberSub_err_le (P : Pattern) (data : List Nat) (begin length : Nat) (i : Int) (k : Nat)
    (h : (i, k) ∈ manberSub P data begin length) : k ≤ P.maxerr := by
  unfold manberSub at h
  obtain ⟨t, _, _, hf⟩ := (errScan_mem _ _ _ _ _ _ _ _).1 h
  have := firstHit_lt _ _ _ hf
  unfold Pattern.patlen at this
  rw [runLevels_length, List.length_replicate] at this
  omega

theorem manberIndel_err_le (P : Pattern) (data : List Nat) (begin length : Nat) (i : Int) (k : Nat)
    (h : (i, k) ∈ manberIndel P data begin length) : k ≤ P.maxerr := by
  unfold manberIndel at h
  obtain ⟨t, _, _, hf⟩ := (errScan_mem _ _ _ _ _ _ _ _).1 h
  have := firstHit_lt _ _ _ hf
  unfold Pattern.patlen at this
  rw [runLevels_lengthI, indelInit_length] at this
  omega

/-- every raw hit carries an error level within the budget -/
theorem manberAll_err_le (P : Pattern) (data : List Nat) (begin length : Nat) (i : Int) (k : Nat)
    (h : (i, k) ∈ manberAll P data begin length) : k ≤ P.maxerr := by
  unfold manberAll at h
  split at h
  · rw [manberNoErr_eq_sub] at h
    have := manberSub_err_le _ _ _ _ _ _ h
    simp only at this
    omega
  · split at h
    · exact manberIndel_err_le _ _ _ _ _ _ h
    · exact manberSub_err_le _ _ _ _ _ _ h

theorem findAllIndex_err_le (P : Pattern) (seq : Bytes) (circular : Bool) (begin length : Int) (h : Hit)
    (hh : h ∈ findAllIndex P seq circular begin length) : 0 ≤ h.2.2 ∧ h.2.2 ≤ (P.maxerr : Int) ∧ h.2.1 = h.1 + P.patlen := by
  unfold findAllIndex at hh
  simp only [List.mem_map, Prod.exists] at hh
  obtain ⟨a, b, hmem, rfl⟩ := hh
  have := manberAll_err_le P _ _ _ a b hmem
  refine ⟨by simp, by simp only; omega, rfl⟩

/-- the `[3]int` list of `FindAllIndex` is sorted by strictly increasing start position -/
theorem findAllIndex_sorted (P : Pattern) (seq : Bytes) (circular : Bool) (begin length : Int) :
    (findAllIndex P seq circular begin length).Pairwise (fun a b => a.1 < b.1) := by
  unfold findAllIndex
  rw [List.pairwise_map]
  have : (manberAll P (seqData seq circular) (if begin < 0 then 0 else begin).toNat
      ((if length < 0 then (seq.length : Int) else length).toNat + Gen.apatMaxPatLen)).Pairwise (fun a b => a.1 < b.1) := by
    unfold manberAll
    split
    · rw [manberNoErr_eq_sub]; exact errScan_sorted _ _ _ _ _ _
    · split
      · exact errScan_sorted _ _ _ _ _ _
      · exact errScan_sorted _ _ _ _ _ _
  exact this

/-! ## `FilterBestMatch` -/

/-- two hits do not overlap, in the sense of `FilterBestMatch`: `b` starts (error margin included) after the end of `a` -/
def NoOverlap (a b : Hit) : Prop := a.2.1 + a.2.2 ≤ b.1 - b.2.2

/-- invariant of the `FilterBestMatch` loop after the hits `seen`: either nothing was seen and the state is the initial one;
or `best` is a seen hit, the kept list followed by `best` is a non-overlapping chain, every seen hit is dominated by a kept
hit or by `best`, and the kept hits were seen. -/
def FilterInv (seen : List Hit) (st : List Hit × Hit) : Prop :=
  (seen = [] ∧ st = ([], (0, 0, 10000))) ∨
  (st.2 ∈ seen ∧ st.2.2.2 < 10000 ∧ (st.2 :: st.1).Pairwise (fun later earlier => NoOverlap earlier later) ∧
    (∀ m ∈ seen, ∃ b ∈ st.2 :: st.1, b.2.2 ≤ m.2.2) ∧ ∀ h ∈ st.1, h ∈ seen)

/-- what the loop needs to know about a hit: `0 ≤ err < 10000` and `start ≤ end` -/
def HitOk (x : Hit) : Prop := 0 ≤ x.2.2 ∧ x.2.2 < 10000 ∧ x.1 ≤ x.2.1

theorem filterStep_filterInv (seen : List Hit) (st : List Hit × Hit) (m : Hit)
    (hinv : FilterInv seen st) (hseen : ∀ x ∈ seen, x.1 < m.1 ∧ HitOk x) (hm : HitOk m) :
    FilterInv (seen ++ [m]) (filterStep st m) := by
  obtain ⟨filtered, best⟩ := st
  rcases hinv with ⟨hs, hst⟩ | ⟨hb, hb2, hch, hcov, hsub⟩
  · -- first hit: `best` is the sentinel
    simp only [Prod.mk.injEq] at hst
    obtain ⟨rfl, rfl⟩ := hst
    subst hs
    right
    have : filterStep ([], ((0 : Int), (0 : Int), (10000 : Int))) m = ([], m) := by
      unfold filterStep; simp
    rw [this]
    refine ⟨by simp, hm.2.1, by simp, ?_, by simp⟩
    intro x hx
    simp only [List.nil_append, List.mem_singleton] at hx
    subst hx
    exact ⟨x, by simp, Int.le_refl _⟩
  · right
    simp only at hb hb2 hch hcov hsub
    have hbok := hseen best hb
    obtain ⟨hchead, hctail⟩ := List.pairwise_cons.1 hch
    unfold filterStep
    simp only [hb2, decide_true, Bool.true_and, if_true]
    by_cases hov : m.1 - m.2.2 < best.2.1 + best.2.2
    · simp only [hov, decide_true, if_true]
      by_cases hbetter : m.2.2 < best.2.2
      · simp only [hbetter, if_true]
        refine ⟨by simp, hm.2.1, ?_, ?_, ?_⟩
        · apply List.pairwise_cons.2
          refine ⟨?_, hctail⟩
          intro f hf
          have := hchead f hf
          unfold NoOverlap at this ⊢
          have := hbok.1
          omega
        · intro x hx
          rcases List.mem_append.1 hx with hx | hx
          · obtain ⟨b, hbm, hble⟩ := hcov x hx
            rcases List.mem_cons.1 hbm with rfl | hbm
            · exact ⟨m, by simp, by omega⟩
            · exact ⟨b, List.mem_cons_of_mem _ hbm, hble⟩
          · simp only [List.mem_singleton] at hx
            subst hx
            exact ⟨x, by simp, Int.le_refl _⟩
        · intro h hh
          exact List.mem_append_left _ (hsub h hh)
      · simp only [hbetter, if_false]
        refine ⟨List.mem_append_left _ hb, hb2, hch, ?_, ?_⟩
        · intro x hx
          rcases List.mem_append.1 hx with hx | hx
          · exact hcov x hx
          · simp only [List.mem_singleton] at hx
            subst hx
            exact ⟨best, by simp, by omega⟩
        · intro h hh
          exact List.mem_append_left _ (hsub h hh)
    · simp only [hov, decide_false, Bool.false_eq_true, if_false]
      refine ⟨by simp, hm.2.1, ?_, ?_, ?_⟩
      · apply List.pairwise_cons.2
        refine ⟨?_, hch⟩
        intro f hf
        rcases List.mem_cons.1 hf with rfl | hf
        · unfold NoOverlap; omega
        · have := hchead f hf
          unfold NoOverlap at this ⊢
          have h1 := hbok.2.1
          have h2 := hbok.2.2.2
          omega
      · intro x hx
        rcases List.mem_append.1 hx with hx | hx
        · obtain ⟨b, hbm, hble⟩ := hcov x hx
          exact ⟨b, List.mem_cons_of_mem _ hbm, hble⟩
        · simp only [List.mem_singleton] at hx
          subst hx
          exact ⟨x, by simp, Int.le_refl _⟩
      · intro h hh
        rcases List.mem_cons.1 hh with rfl | hh
        · exact List.mem_append_left _ hb
        · exact List.mem_append_left _ (hsub h hh)

theorem filterFold_filterInv (l pre : List Hit) (st : List Hit × Hit) (hinv : FilterInv pre st)
    (hsorted : (pre ++ l).Pairwise (fun a b => a.1 < b.1)) (hok : ∀ x ∈ pre ++ l, HitOk x) :
    FilterInv (pre ++ l) (l.foldl filterStep st) := by
  induction l generalizing pre st with
  | nil => simpa using hinv
  | cons m l ih =>
    simp only [List.foldl_cons]
    have e : pre ++ m :: l = (pre ++ [m]) ++ l := by simp
    rw [e] at hsorted hok ⊢
    apply ih
    · apply filterStep_filterInv pre st m hinv
      · intro x hx
        refine ⟨?_, hok x (by simp [hx])⟩
        have h1 := (List.pairwise_append.1 hsorted).1
        exact (List.pairwise_append.1 h1).2.2 x hx m (by simp)
      · exact hok m (by simp)
    · exact hsorted
    · exact hok

/-- state of the loop at its end -/
theorem filterBest_inv (res : List Hit) (hsorted : res.Pairwise (fun a b => a.1 < b.1)) (hok : ∀ x ∈ res, HitOk x) :
    FilterInv res (res.foldl filterStep ([], (0, 0, 10000))) := by
  have := filterFold_filterInv res [] ([], (0, 0, 10000)) (Or.inl ⟨rfl, rfl⟩) (by simpa using hsorted) (by simpa using hok)
  simpa using this

/-- **`FilterBestMatch` represents every reported hit**: for every hit of the (sorted) list there is a kept hit with at
most as many errors — in particular the minimal error count of the list is kept -/
theorem filterBest_cover (res : List Hit) (hsorted : res.Pairwise (fun a b => a.1 < b.1)) (hok : ∀ x ∈ res, HitOk x) :
    ∀ m ∈ res, ∃ b ∈ filterBest res, b.2.2 ≤ m.2.2 := by
  intro m hm
  have inv := filterBest_inv res hsorted hok
  unfold filterBest
  generalize res.foldl filterStep ([], (0, 0, 10000)) = r at inv
  obtain ⟨filtered, best⟩ := r
  rcases inv with ⟨hs, _⟩ | ⟨_, hb2, _, hcov, _⟩
  · subst hs; cases hm
  · simp only at hb2 hcov
    obtain ⟨b, hb, hle⟩ := hcov m hm
    simp only [hb2, if_true]
    exact ⟨b, by simp only [List.mem_reverse]; exact hb, hle⟩

/-- **the kept hits do not overlap**: each starts (its error margin included) after the end of the previous one -/
theorem filterBest_chain (res : List Hit) (hsorted : res.Pairwise (fun a b => a.1 < b.1)) (hok : ∀ x ∈ res, HitOk x) :
    (filterBest res).Pairwise NoOverlap := by
  have inv := filterBest_inv res hsorted hok
  unfold filterBest
  generalize res.foldl filterStep ([], (0, 0, 10000)) = r at inv
  obtain ⟨filtered, best⟩ := r
  rcases inv with ⟨_, hst⟩ | ⟨_, hb2, hch, _, _⟩
  · simp only [Prod.mk.injEq] at hst
    obtain ⟨rfl, rfl⟩ := hst
    simp
  · simp only at hb2 hch
    simp only [hb2, if_true]
    rw [List.pairwise_reverse]
    exact hch

/-! ## re-alignment of indel hits -/

theorem sub_slice (seq : Bytes) (S n a b : Nat) (hb : b ≤ n) :
    (((seq.drop S).take n).drop a).take (b - a) = (seq.drop (S + a)).take (b - a) := by
  rw [List.drop_take, List.drop_drop, List.take_take]
  congr 1
  omega

/-- what `LocatePattern` returns (the statement of `locate_spec_of_eq`, for use in this file) -/
theorem locate_triple (p frag : Bytes) (f t k : Int) (h : locatePattern p frag = some (f, t, k)) :
    0 ≤ f ∧ f ≤ t ∧ t ≤ (frag.length : Int) ∧
      k = (editDist samenuc p ((frag.drop f.toNat).take (t.toNat - f.toNat)) : Nat) ∧
      ∀ a b : Nat, k ≤ (editDist samenuc p ((frag.drop a).take (b - a)) : Nat) := by
  have hp : p ≠ [] := by
    intro h0
    subst h0
    simp [locatePattern] at h
  obtain ⟨f', t', k', h1, h2, h3, h4, h5⟩ := locatePattern_spec p frag hp
  rw [h1] at h
  simp only [Option.some.injEq, Prod.mk.injEq] at h
  obtain ⟨rfl, rfl, rfl⟩ := h
  have hk : k' = editDist samenuc p ((frag.drop f').take (t' - f')) :=
    Nat.le_antisymm (h5 f' t' _ (ali_editDist _ _ _)) (editDist_le h4)
  refine ⟨by omega, by omega, by omega, ?_, fun a b => ?_⟩
  · simp only [Int.toNat_natCast]
    rw [← hk]
  · have := h5 a b _ (ali_editDist samenuc p ((frag.drop a).take (b - a)))
    omega

/-- the Go slice `seq[start:end]` re-aligned by `LocatePattern`: the span translated back to the sequence -/
theorem realign_spec (pat seq frg : Bytes) (start end_ pb pe score : Int)
    (hg : goSlice seq start end_ = some frg) (hl : locatePattern pat frg = some (pb, pe, score)) :
    0 ≤ start + pb ∧ start + pb ≤ start + pe ∧ start + pe ≤ (seq.length : Int) ∧
      score = (editDist samenuc pat ((seq.drop (start + pb).toNat).take ((start + pe).toNat - (start + pb).toNat)) : Nat) ∧
      ∀ a b : Nat, score ≤ (editDist samenuc pat ((frg.drop a).take (b - a)) : Nat) := by
  unfold goSlice at hg
  split at hg
  · rename_i hc
    simp only [Bool.and_eq_true, decide_eq_true_eq] at hc
    simp only [Option.some.injEq] at hg
    obtain ⟨h0, h1, h2, h3, h4⟩ := locate_triple pat frg pb pe score hl
    have hlen : frg.length ≤ (end_ - start).toNat := by
      rw [← hg, List.length_take]; omega
    have hlen2 : frg.length ≤ seq.length - start.toNat := by
      rw [← hg, List.length_take, List.length_drop]; omega
    refine ⟨by omega, by omega, by omega, ?_, h4⟩
    rw [h3, ← hg]
    have e1 : (start + pb).toNat = start.toNat + pb.toNat := by omega
    have e2 : (start + pe).toNat - (start + pb).toNat = pe.toNat - pb.toNat := by omega
    rw [e2, e1, sub_slice seq start.toNat (end_ - start).toNat pb.toNat pe.toNat (by omega)]
  · cases hg

theorem mapM_option_mem {α β : Type} (f : α → Option β) (l : List α) (out : List β) (h : l.mapM f = some out) :
    ∀ y ∈ out, ∃ x ∈ l, f x = some y := by
  induction l generalizing out with
  | nil =>
    simp at h
    subst h
    intro y hy; cases hy
  | cons a l ih =>
    cases hfa : f a with
    | none => simp [List.mapM_cons, hfa] at h
    | some b =>
      cases hml : l.mapM f with
      | none => simp [List.mapM_cons, hfa, hml] at h
      | some bs =>
        simp [List.mapM_cons, hfa, hml] at h
        subst h
        intro y hy
        rcases List.mem_cons.1 hy with rfl | hy
        · exact ⟨a, by simp, hfa⟩
        · obtain ⟨x, hx, hfx⟩ := ih bs hml y hy
          exact ⟨x, List.mem_cons_of_mem _ hx, hfx⟩

/-- the pattern string handed to `LocatePattern` -/
def Pattern.locPat (P : Pattern) : Bytes := P.cpat.take P.patlen

/-- a span of the sequence with its exact edit distance to the pattern string -/
def SpanDist (P : Pattern) (seq : Bytes) (h : Hit) : Prop :=
  0 ≤ h.1 ∧ h.1 ≤ h.2.1 ∧ h.2.1 ≤ (seq.length : Int) ∧
    h.2.2 = (editDist samenuc P.locPat ((seq.drop h.1.toNat).take (h.2.1.toNat - h.1.toNat)) : Nat)

/-- one iteration of `AllMatches`: the hit is passed unchanged, or (indel mode, at least one error) replaced by a span
of the sequence whose error count is its edit distance to the pattern string -/
theorem allMatchStep_spec (P : Pattern) (seq : Bytes) (m h : Hit) (hs : allMatchStep P seq m = some h) :
    (h = m ∧ ¬ (m.2.2 > 0 ∧ P.hasIndel = true)) ∨ (m.2.2 > 0 ∧ P.hasIndel = true ∧ SpanDist P seq h) := by
  unfold allMatchStep at hs
  split at hs
  · rename_i hc
    simp only [Bool.and_eq_true, decide_eq_true_eq] at hc
    right
    refine ⟨hc.1, hc.2, ?_⟩
    dsimp only at hs
    split at hs
    · cases hs
    · rename_i frg hg
      split at hs
      · cases hs
      · rename_i pb pe score hl
        simp only [Option.some.injEq] at hs
        subst hs
        obtain ⟨h0, h1, h2, h3, _⟩ := realign_spec _ seq frg _ _ pb pe score hg hl
        exact ⟨h0, h1, h2, h3⟩
  · rename_i hc
    simp only [Bool.and_eq_true, decide_eq_true_eq] at hc
    simp only [Option.some.injEq] at hs
    exact Or.inl ⟨hs.symm, hc⟩

/-- **`AllMatches`**: every returned triple is within the budget and is either a hit of `FindAllIndex` kept by
`FilterBestMatch` and passed unchanged (no error, or mismatch-only mode), or — indel mode — a span `[s, e)` INSIDE the
sequence whose reported error count is the edit distance between the pattern string and `seq[s:e]`. -/
theorem allMatches_spec (P : Pattern) (seq : Bytes) (circular : Bool) (begin length : Int) (out : List Hit)
    (h : allMatches P seq circular begin length = .ok out) :
    ∀ x ∈ out, x.2.2 ≤ (P.maxerr : Int) ∧
      ((x ∈ filterBestMatch P seq circular begin length ∧ ¬ (x.2.2 > 0 ∧ P.hasIndel = true)) ∨
       (P.hasIndel = true ∧ SpanDist P seq x)) := by
  unfold allMatches at h
  split at h
  · cases h
  · rename_i l hl
    simp only [Outcome.ok.injEq] at h
    subst h
    intro x hx
    rw [List.mem_filter] at hx
    obtain ⟨hxl, hbud⟩ := hx
    simp only [ge_iff_le, decide_eq_true_eq] at hbud
    refine ⟨hbud, ?_⟩
    obtain ⟨m, hm, hstep⟩ := mapM_option_mem _ _ _ hl x hxl
    rcases allMatchStep_spec P seq m x hstep with ⟨rfl, hn⟩ | ⟨_, hi, hsd⟩
    · exact Or.inl ⟨hm, hn⟩
    · exact Or.inr ⟨hi, hsd⟩

/-- **`BestMatch`** on a linear sequence, budget below the sentinel: when it reports a match, the raw hit list is not empty,
the selected raw hit `best` is its leftmost hit of minimal error level, ends inside the sequence and has a non-negative
start unless it is going to be re-aligned (indel mode, at least one error: "shifted" start), and the result is
`best` itself (no error, or mismatch-only mode) or — indel mode — a span inside the sequence whose reported error count is
the edit distance between the pattern string and that span. -/
theorem bestMatch_spec (P : Pattern) (seq : Bytes) (begin length : Int) (s e k : Int) (hmax : P.maxerr < 10000)
    (h : bestMatch P seq false begin length = .ok (s, e, k, true)) :
    let res := findAllIndex P seq false begin length
    res ≠ [] ∧ bestOf res ∈ res ∧ (∀ m ∈ res, (bestOf res).2.2 ≤ m.2.2) ∧
      (0 ≤ (bestOf res).1 ∨ (P.hasIndel = true ∧ (bestOf res).2.2 ≠ 0)) ∧ (bestOf res).2.1 ≤ (seq.length : Int) ∧
      (((s, e, k) = bestOf res ∧ ((bestOf res).2.2 = 0 ∨ P.hasIndel = false)) ∨
       (P.hasIndel = true ∧ (bestOf res).2.2 ≠ 0 ∧ SpanDist P seq (s, e, k))) := by
  intro res
  unfold bestMatch at h
  simp only at h
  split at h
  · simp at h
  · rename_i hne
    have hne' : res ≠ [] := by
      intro h0
      apply hne
      show (findAllIndex P seq false begin length).isEmpty = true
      rw [show findAllIndex P seq false begin length = res from rfl, h0]; rfl
    have hlt : ∀ m ∈ res, m.2.2 < 10000 := by
      intro m hm
      have := (findAllIndex_err_le P seq false begin length m hm).2.1
      omega
    obtain ⟨hmem, hmin⟩ := bestOf_mem res hlt hne'
    refine ⟨hne', hmem, hmin, ?_⟩
    split at h
    · simp at h
    · rename_i hin
      simp only [Bool.or_eq_true, Bool.and_eq_true, decide_eq_true_eq, not_or, not_and, beq_iff_eq,
        Bool.not_eq_true', Int.not_lt] at hin
      have hstart : 0 ≤ (bestOf res).1 ∨ (P.hasIndel = true ∧ (bestOf res).2.2 ≠ 0) := by
        by_cases h0 : (bestOf res).1 < 0
        · right
          have := hin.1 h0
          constructor
          · cases hI : P.hasIndel with
            | true => rfl
            | false => exact absurd hI this.2
          · exact this.1
        · left; omega
      refine ⟨hstart, by have := hin.2; omega, ?_⟩
      split at h
      · rename_i hc
        simp only [Bool.or_eq_true, beq_iff_eq, Bool.not_eq_true'] at hc
        simp only [Outcome.ok.injEq, Prod.mk.injEq, and_true] at h
        left
        refine ⟨?_, hc⟩
        obtain ⟨h1, h2, h3⟩ := h
        rw [← h1, ← h2, ← h3]
      · rename_i hc
        simp only [Bool.or_eq_true, beq_iff_eq, Bool.not_eq_true', not_or, Bool.not_eq_false] at hc
        right
        refine ⟨hc.2, hc.1, ?_⟩
        split at h
        · cases h
        · rename_i frg hg
          split at h
          · cases h
          · rename_i pb pe score hl
            simp only [Outcome.ok.injEq, Prod.mk.injEq, and_true] at h
            obtain ⟨rfl, rfl, rfl⟩ := h
            obtain ⟨h0, h1, h2, h3, _⟩ := realign_spec _ seq frg _ _ pb pe score hg hl
            exact ⟨h0, h1, h2, h3⟩

end ObiVerif.Apat
