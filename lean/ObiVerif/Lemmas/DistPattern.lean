import ObiVerif.Lemmas.Distribute
/-!
# Lemmas on the name pattern of `obidistribute` as it is typed (C16)

`parsePatternL` (the patterns `CLIFileNamePattern` accepts) against `sprintfL` (`fmt.Sprintf` on text,
`%%` and `%s`): an accepted pattern prints `prefix ++ class ++ suffix`.
-/
namespace ObiVerif.Distribute

theorem literalL_sprintf (key : List Char) : ∀ (n : Nat) (l s : List Char), l.length ≤ n →
    literalL l = some s → sprintfL key l = s := by
  intro n
  induction n with
  | zero =>
    intro l s hl h
    have : l = [] := List.length_eq_zero_iff.mp (Nat.le_zero.mp hl)
    subst this
    simp [literalL] at h
    simp [sprintfL, h]
  | succ n ih =>
    intro l s hl h
    cases l with
    | nil => simp [literalL] at h; simp [sprintfL, h]
    | cons c t =>
      unfold literalL at h
      unfold sprintfL
      by_cases hc : c = '%'
      · simp only [hc, if_true] at h ⊢
        cases t with
        | nil => simp at h
        | cons d t' =>
          by_cases hd : d = '%'
          · simp only [hd, if_true, Option.map_eq_some_iff] at h ⊢
            obtain ⟨s', hs', rfl⟩ := h
            rw [ih t' s' (by simp only [List.length_cons] at hl; omega) hs']
          · simp [hd] at h
      · simp only [hc, if_false, Option.map_eq_some_iff] at h ⊢
        obtain ⟨s', hs', rfl⟩ := h
        rw [ih t s' (by simp only [List.length_cons] at hl; omega) hs']

/-- **an accepted pattern prints the class value once and in full**: `Sprintf(pattern, key)` is
`prefix ++ key ++ suffix`, the two literal parts being those of `parsePatternL` -/
theorem sprintf_shape (key : List Char) : ∀ (n : Nat) (raw pre suf : List Char), raw.length ≤ n →
    parsePatternL raw = some (pre, suf) → sprintfL key raw = pre ++ key ++ suf := by
  intro n
  induction n with
  | zero =>
    intro raw pre suf hl h
    have : raw = [] := List.length_eq_zero_iff.mp (Nat.le_zero.mp hl)
    subst this
    simp [parsePatternL] at h
  | succ n ih =>
    intro raw pre suf hl h
    cases raw with
    | nil => simp [parsePatternL] at h
    | cons c t =>
      unfold parsePatternL at h
      unfold sprintfL
      by_cases hc : c = '%'
      · simp only [hc, if_true] at h ⊢
        cases t with
        | nil => simp at h
        | cons d t' =>
          by_cases hd : d = '%'
          · simp only [hd, if_true, Option.map_eq_some_iff, Prod.mk.injEq] at h ⊢
            obtain ⟨p, hp, rfl, rfl⟩ := h
            rw [ih t' p.1 p.2 (by simp only [List.length_cons] at hl; omega) hp]
            simp
          · by_cases hs : d = 's'
            · have hne : ('s' : Char) ≠ '%' := by decide
              simp only [hs, hne, if_true, if_false, Option.map_eq_some_iff, Prod.mk.injEq] at h ⊢
              obtain ⟨s', hs', rfl, rfl⟩ := h
              rw [literalL_sprintf key t'.length t' s' (Nat.le_refl _) hs']
              simp
            · simp [hd, hs] at h
      · simp only [hc, if_false, Option.map_eq_some_iff, Prod.mk.injEq] at h ⊢
        obtain ⟨p, hp, rfl, rfl⟩ := h
        rw [ih t p.1 p.2 (by simp only [List.length_cons] at hl; omega) hp]
        simp

theorem literalL_mem : ∀ (n : Nat) (l s : List Char), l.length ≤ n → literalL l = some s → ∀ x ∈ s, x ∈ l := by
  intro n
  induction n with
  | zero =>
    intro l s hl h x hx
    have : l = [] := List.length_eq_zero_iff.mp (Nat.le_zero.mp hl)
    subst this
    simp [literalL] at h
    subst h
    exact hx
  | succ n ih =>
    intro l s hl h x hx
    cases l with
    | nil => simp [literalL] at h; subst h; exact hx
    | cons c t =>
      unfold literalL at h
      by_cases hc : c = '%'
      · simp only [hc, if_true] at h
        cases t with
        | nil => simp at h
        | cons d t' =>
          by_cases hd : d = '%'
          · simp only [hd, if_true, Option.map_eq_some_iff] at h
            obtain ⟨s', hs', rfl⟩ := h
            rcases List.mem_cons.mp hx with e | e
            · rw [e, hc]; exact List.mem_cons_self
            · exact List.mem_cons_of_mem _ (List.mem_cons_of_mem _
                (ih t' s' (by simp only [List.length_cons] at hl; omega) hs' x e))
          · simp [hd] at h
      · simp only [hc, if_false, Option.map_eq_some_iff] at h
        obtain ⟨s', hs', rfl⟩ := h
        rcases List.mem_cons.mp hx with e | e
        · rw [e]; exact List.mem_cons_self
        · exact List.mem_cons_of_mem _ (ih t s' (by simp only [List.length_cons] at hl; omega) hs' x e)

/-- the literal parts of an accepted pattern hold only characters of the pattern -/
theorem parsePatternL_mem : ∀ (n : Nat) (raw pre suf : List Char), raw.length ≤ n →
    parsePatternL raw = some (pre, suf) → ∀ x, (x ∈ pre ∨ x ∈ suf) → x ∈ raw := by
  intro n
  induction n with
  | zero =>
    intro raw pre suf hl h
    have : raw = [] := List.length_eq_zero_iff.mp (Nat.le_zero.mp hl)
    subst this
    simp [parsePatternL] at h
  | succ n ih =>
    intro raw pre suf hl h x hx
    cases raw with
    | nil => simp [parsePatternL] at h
    | cons c t =>
      unfold parsePatternL at h
      by_cases hc : c = '%'
      · simp only [hc, if_true] at h
        cases t with
        | nil => simp at h
        | cons d t' =>
          by_cases hd : d = '%'
          · simp only [hd, if_true, Option.map_eq_some_iff, Prod.mk.injEq] at h
            obtain ⟨p, hp, rfl, rfl⟩ := h
            have hrec := ih t' p.1 p.2 (by simp only [List.length_cons] at hl; omega) hp x
            rcases hx with e | e
            · rcases List.mem_cons.mp e with e' | e'
              · rw [e', hc]; exact List.mem_cons_self
              · exact List.mem_cons_of_mem _ (List.mem_cons_of_mem _ (hrec (Or.inl e')))
            · exact List.mem_cons_of_mem _ (List.mem_cons_of_mem _ (hrec (Or.inr e)))
          · by_cases hs : d = 's'
            · have hne : ('s' : Char) ≠ '%' := by decide
              simp only [hs, hne, if_true, if_false, Option.map_eq_some_iff, Prod.mk.injEq] at h
              obtain ⟨s', hs', rfl, rfl⟩ := h
              rcases hx with e | e
              · cases e
              · exact List.mem_cons_of_mem _ (List.mem_cons_of_mem _
                  (literalL_mem t'.length t' s' (Nat.le_refl _) hs' x e))
            · simp [hd, hs] at h
      · simp only [hc, if_false, Option.map_eq_some_iff, Prod.mk.injEq] at h
        obtain ⟨p, hp, rfl, rfl⟩ := h
        have hrec := ih t p.1 p.2 (by simp only [List.length_cons] at hl; omega) hp x
        rcases hx with e | e
        · rcases List.mem_cons.mp e with e' | e'
          · rw [e']; exact List.mem_cons_self
          · exact List.mem_cons_of_mem _ (hrec (Or.inl e'))
        · exact List.mem_cons_of_mem _ (hrec (Or.inr e))

end ObiVerif.Distribute
