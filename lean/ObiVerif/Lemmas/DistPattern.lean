import ObiVerif.Lemmas.Distribute
/-!
# Lemmas on the name pattern of `obidistribute` as it is typed (C16)

`parsePatternL` (the patterns `CLIFileNamePattern` accepts) against `sprintfL` (`fmt.Sprintf` on text,
`%%` and `%s`): an accepted pattern prints `prefix ++ class ++ suffix`.
-/
namespace ObiVerif.Distribute

theorem literalL_sprintf (key : List Char) : ∀ (n : Nat) (l s : List Char), l.length ≤ n →
    literalL l = some s → sprintfL key l = s := by
  intro n
  induction n with
  | zero =>
    intro l s hl h
    have : l = [] := List.length_eq_zero_iff.mp (Nat.le_zero.mp hl)
    subst this
    simp [literalL] at h
    simp [sprintfL, h]
  | succ n ih =>
    intro l s hl h
    cases l with
    | nil => simp [literalL] at h; simp [sprintfL, h]
    | cons c t =>
      unfold literalL at h
      unfold sprintfL
      by_cases hc : c = '%'
      · simp only [hc, if_true] at h ⊢
        cases t with
        | nil => simp at h
        | cons d t' =>
          by_cases hd : d = '%'
          · simp only [hd, if_true, Option.map_eq_some_iff] at h ⊢
            obtain ⟨s', hs', rfl⟩ := h
            rw [ih t' s' (by simp only [List.length_cons] at hl; omega) hs']
          · simp [hd] at h
      · simp only [hc, if_false, Option.map_eq_some_iff] at h ⊢
        obtain ⟨s', hs', rfl⟩ := h
        rw [ih t s' (by simp only [List.length_cons] at hl; omega) hs']

/-- **an accepted pattern prints the class value once and in full**: `Sprintf(pattern, key)` is
`prefix ++ key ++ suffix`, the two literal parts being those of `parsePatternL` -/
theorem sprintf_shape (key : List Char) : ∀ (n : Nat) (raw pre suf : List Char), raw.length ≤ n →
    parsePatternL raw = some (pre, suf) → sprintfL key raw = pre ++ key ++ suf := by
  intro n
  induction n with
  | zero =>
    intro raw pre suf hl h
    have : raw = [] := List.length_eq_zero_iff.mp (Nat.le_zero.mp hl)
    subst this
    simp [parsePatternL] at h
  | succ n ih =>
    intro raw pre suf hl h
    cases raw with
    | nil => simp [parsePatternL] at h
    | cons c t =>
      unfold parsePatternL at h
      unfold sprintfL
      by_cases hc : c = '%'
      · simp only [hc, if_true] at h ⊢
        cases t with
        | nil => simp at h
        | cons d t' =>
          by_cases hd : d = '%'
          · simp only [hd, if_true, Option.map_eq_some_iff, Prod.mk.injEq] at h ⊢
            obtain ⟨p, hp, rfl, rfl⟩ := h
            rw [ih t' p.1 p.2 (by simp only [List.length_cons] at hl; omega) hp]
            simp
          · by_cases hs : d = 's'
            · have hne : ('s' : Char) ≠ '%' := by decide
              simp only [hs, hne, if_true, if_false, Option.map_eq_some_iff, Prod.mk.injEq] at h ⊢
              obtain ⟨s', hs', rfl, rfl⟩ := h
              rw [literalL_sprintf key t'.length t' s' (Nat.le_refl _) hs']
              simp
            · simp [hd, hs] at h
      · simp only [hc, if_false, Option.map_eq_some_iff, Prod.mk.injEq] at h ⊢
        obtain ⟨p, hp, rfl, rfl⟩ := h
        rw [ih t p.1 p.2 (by simp only [List.length_cons] at hl; omega) hp]
        simp

theorem literalL_mem : ∀ (n : Nat) (l s : List Char), l.length ≤ n → literalL l = some s → ∀ x ∈ s, x ∈ l := by
  intro n
  induction n with
  | zero =>
    intro l s hl h x hx
    have : l = [] := List.length_eq_zero_iff.mp (Nat.le_zero.mp hl)
    subst this
    simp [literalL] at h
    subst h
    exact hx
  | succ n ih =>
    intro l s hl h x hx
    cases l with
    | nil => simp [literalL] at h; subst h; exact hx
    | cons c t =>
      unfold literalL at h
      by_cases hc : c = '%'
      · simp only [hc, if_true] at h
        cases t with
        | nil => simp at h
        | cons d t' =>
          by_cases hd : d = '%'
          · simp only [hd, if_true, Option.map_eq_some_iff] at h
            obtain ⟨s', hs', rfl⟩ := h
            rcases List.mem_cons.mp hx with e | e
            · rw [e, hc]; exact List.mem_cons_self
            · exact List.mem_cons_of_mem _ (List.mem_cons_of_mem _
                (ih t' s' (by simp only [List.length_cons] at hl; omega) hs' x e))
          · simp [hd] at h
      · simp only [hc, if_false, Option.map_eq_some_iff] at h
        obtain ⟨s', hs', rfl⟩ := h
        rcases List.mem_cons.mp hx with e | e
        · rw [e]; exact List.mem_cons_self
        · exact List.mem_cons_of_mem _ (ih t s' (by simp only [List.length_cons] at hl; omega) hs' x e)

/-- the literal parts of an accepted pattern hold only characters of the pattern -/
theorem parsePatternL_mem : ∀ (n : Nat) (raw pre suf : List Char), raw.length ≤ n →
    parsePatternL raw = some (pre, suf) → ∀ x, (x ∈ pre ∨ x ∈ suf) → x ∈ raw := by
  intro n
  induction n with
  | zero =>
    intro raw pre suf hl h
    have : raw = [] := List.length_eq_zero_iff.mp (Nat.le_zero.mp hl)
    subst this
    simp [parsePatternL] at h
  | succ n ih =>
    intro raw pre suf hl h x hx
    cases raw with
    | nil => simp [parsePatternL] at h
    | cons c t =>
      unfold parsePatternL at h
      by_cases hc : c = '%'
      · simp only [hc, if_true] at h
        cases t with
        | nil => simp at h
        | cons d t' =>
          by_cases hd : d = '%'
          · simp only [hd, if_true, Option.map_eq_some_iff, Prod.mk.injEq] at h
            obtain ⟨p, hp, rfl, rfl⟩ := h
            have hrec := ih t' p.1 p.2 (by simp only [List.length_cons] at hl; omega) hp x
            rcases hx with e | e
            · rcases List.mem_cons.mp e with e' | e'
              · rw [e', hc]; exact List.mem_cons_self
              · exact List.mem_cons_of_mem _ (List.mem_cons_of_mem _ (hrec (Or.inl e')))
            · exact List.mem_cons_of_mem _ (List.mem_cons_of_mem _ (hrec (Or.inr e)))
          · by_cases hs : d = 's'
            · have hne : ('s' : Char) ≠ '%' := by decide
              simp only [hs, hne, if_true, if_false, Option.map_eq_some_iff, Prod.mk.injEq] at h
              obtain ⟨s', hs', rfl, rfl⟩ := h
              rcases hx with e | e
              · cases e
              · exact List.mem_cons_of_mem _ (List.mem_cons_of_mem _
                  (literalL_mem t'.length t' s' (Nat.le_refl _) hs' x e))
            · simp [hd, hs] at h
      · simp only [hc, if_false, Option.map_eq_some_iff, Prod.mk.injEq] at h
        obtain ⟨p, hp, rfl, rfl⟩ := h
        have hrec := ih t p.1 p.2 (by simp only [List.length_cons] at hl; omega) hp x
        rcases hx with e | e
        · rcases List.mem_cons.mp e with e' | e'
          · rw [e']; exact List.mem_cons_self
          · exact List.mem_cons_of_mem _ (hrec (Or.inl e'))
        · exact List.mem_cons_of_mem _ (hrec (Or.inr e))

/-! ## the `.gz` decision on the typed pattern -/

theorem endsWithL_iff_suffix (l g : List Char) : endsWithL l g = true ↔ g <:+ l := by
  unfold endsWithL
  constructor
  · intro h
    simp only [Bool.and_eq_true, beq_iff_eq, decide_eq_true_eq] at h
    rw [← h.1]; exact List.drop_suffix _ _
  · rintro ⟨t, rfl⟩
    simp

theorem literalL_nopct : ∀ (n : Nat) (l s : List Char), l.length ≤ n → literalL l = some s → '%' ∉ s → l = s := by
  intro n
  induction n with
  | zero =>
    intro l s hl h _
    have : l = [] := List.length_eq_zero_iff.mp (Nat.le_zero.mp hl)
    subst this
    simp [literalL] at h
    exact h.symm
  | succ n ih =>
    intro l s hl h hs
    cases l with
    | nil => simp [literalL] at h; exact h.symm
    | cons c t =>
      unfold literalL at h
      by_cases hc : c = '%'
      · simp only [hc, if_true] at h
        cases t with
        | nil => simp at h
        | cons d t' =>
          by_cases hd : d = '%'
          · simp only [hd, if_true, Option.map_eq_some_iff] at h
            obtain ⟨s', _, rfl⟩ := h
            exact absurd List.mem_cons_self hs
          · simp [hd] at h
      · simp only [hc, if_false, Option.map_eq_some_iff] at h
        obtain ⟨s', hs', rfl⟩ := h
        rw [ih t s' (by simp only [List.length_cons] at hl; omega) hs' (fun m => hs (List.mem_cons_of_mem _ m))]

theorem literalL_of_nopct : ∀ (l : List Char), '%' ∉ l → literalL l = some l := by
  intro l
  induction l with
  | nil => intro _; simp [literalL]
  | cons c t ih =>
    intro h
    have hc : c ≠ '%' := fun e => h (e ▸ List.mem_cons_self)
    unfold literalL
    simp [hc, ih (fun m => h (List.mem_cons_of_mem _ m))]

/-- `%%` ↦ `%` does not change whether the text ends with `.gz` -/
theorem literalL_gz : ∀ (n : Nat) (l s : List Char), l.length ≤ n → literalL l = some s →
    (gzSuffix <:+ l ↔ gzSuffix <:+ s) := by
  intro n
  induction n with
  | zero =>
    intro l s hl h
    have : l = [] := List.length_eq_zero_iff.mp (Nat.le_zero.mp hl)
    subst this
    simp [literalL] at h
    subst h
    exact Iff.rfl
  | succ n ih =>
    intro l s hl h
    cases l with
    | nil => simp [literalL] at h; subst h; exact Iff.rfl
    | cons c t =>
      unfold literalL at h
      by_cases hc : c = '%'
      · simp only [hc, if_true] at h
        cases t with
        | nil => simp at h
        | cons d t' =>
          by_cases hd : d = '%'
          · simp only [hd, if_true, Option.map_eq_some_iff] at h
            obtain ⟨s', hs', rfl⟩ := h
            have ih' := ih t' s' (by simp only [List.length_cons] at hl; omega) hs'
            subst hc; subst hd
            rw [List.suffix_cons_iff, List.suffix_cons_iff, List.suffix_cons_iff, ih']
            simp [gzSuffix]
          · simp [hd] at h
      · simp only [hc, if_false, Option.map_eq_some_iff] at h
        obtain ⟨s', hs', rfl⟩ := h
        have ih' := ih t s' (by simp only [List.length_cons] at hl; omega) hs'
        rw [List.suffix_cons_iff, List.suffix_cons_iff, ih']
        have key : gzSuffix = c :: t ↔ gzSuffix = c :: s' := by
          constructor
          · intro e
            have et : t = ['g', 'z'] := by simp [gzSuffix] at e; exact e.2.symm
            subst et
            have : literalL ['g', 'z'] = some ['g', 'z'] := literalL_of_nopct _ (by decide)
            rw [this] at hs'
            rw [← Option.some.inj hs']; exact e
          · intro e
            have es : s' = ['g', 'z'] := by simp [gzSuffix] at e; exact e.2.symm
            subst es
            have := literalL_nopct t.length t _ (Nat.le_refl _) hs' (by decide)
            rw [this]; exact e
        rw [key]

/-- `prefix%stext` ends with `.gz` iff `text` does -/
theorem gz_after_verb (a b : List Char) : gzSuffix <:+ a ++ '%' :: 's' :: b ↔ gzSuffix <:+ b := by
  rw [← List.reverse_prefix, ← List.reverse_prefix (l₂ := b)]
  simp only [List.reverse_append, List.reverse_cons, gzSuffix, List.reverse_nil, List.nil_append, List.cons_append,
    List.append_assoc]
  generalize b.reverse = rb
  rcases rb with _ | ⟨x, _ | ⟨y, _ | ⟨z, w⟩⟩⟩ <;> simp [List.cons_prefix_cons]

/-- an accepted pattern is `text %s text'`, the text after the verb being the literal suffix -/
theorem parsePatternL_split : ∀ (n : Nat) (raw pre suf : List Char), raw.length ≤ n →
    parsePatternL raw = some (pre, suf) → ∃ a b, raw = a ++ '%' :: 's' :: b ∧ literalL b = some suf := by
  intro n
  induction n with
  | zero =>
    intro raw pre suf hl h
    have : raw = [] := List.length_eq_zero_iff.mp (Nat.le_zero.mp hl)
    subst this
    simp [parsePatternL] at h
  | succ n ih =>
    intro raw pre suf hl h
    cases raw with
    | nil => simp [parsePatternL] at h
    | cons c t =>
      unfold parsePatternL at h
      by_cases hc : c = '%'
      · simp only [hc, if_true] at h
        cases t with
        | nil => simp at h
        | cons d t' =>
          by_cases hd : d = '%'
          · simp only [hd, if_true, Option.map_eq_some_iff, Prod.mk.injEq] at h
            obtain ⟨p, hp, _, rfl⟩ := h
            obtain ⟨a, b, e, hb⟩ := ih t' p.1 p.2 (by simp only [List.length_cons] at hl; omega) hp
            exact ⟨c :: d :: a, b, by rw [e]; rfl, hb⟩
          · by_cases hs : d = 's'
            · have hne : ('s' : Char) ≠ '%' := by decide
              simp only [hs, hne, if_true, if_false, Option.map_eq_some_iff, Prod.mk.injEq] at h
              obtain ⟨s', hs', _, rfl⟩ := h
              exact ⟨[], t', by rw [hc, hs]; rfl, hs'⟩
            · simp [hd, hs] at h
      · simp only [hc, if_false, Option.map_eq_some_iff, Prod.mk.injEq] at h
        obtain ⟨p, hp, _, rfl⟩ := h
        obtain ⟨a, b, e, hb⟩ := ih t p.1 p.2 (by simp only [List.length_cons] at hl; omega) hp
        exact ⟨c :: a, b, by rw [e]; rfl, hb⟩

/-- **the decision "the pattern ends with `.gz`"** — `strings.HasSuffix` on the pattern as it is typed — **is
the one the model takes** on `prefix%ssuffix` after `%%` has been read as `%` -/
theorem parsePatternL_gz (raw pre suf : List Char) (h : parsePatternL raw = some (pre, suf)) :
    endsWithL raw gzSuffix = endsWithL (patternL pre suf) gzSuffix := by
  obtain ⟨a, b, e, hb⟩ := parsePatternL_split raw.length raw pre suf (Nat.le_refl _) h
  have h1 : gzSuffix <:+ raw ↔ gzSuffix <:+ patternL pre suf := by
    rw [e, gz_after_verb a b, literalL_gz b.length b suf (Nat.le_refl _) hb]
    unfold patternL
    rw [gz_after_verb pre suf]
  rw [Bool.eq_iff_iff, endsWithL_iff_suffix, endsWithL_iff_suffix]
  exact h1

end ObiVerif.Distribute
