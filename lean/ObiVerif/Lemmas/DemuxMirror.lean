import ObiVerif.Lemmas.DemuxRead
/-!
# What a selected pair of hits YIELDS is strand-symmetric, for arbitrary flanks (C12)

`pairing_strand_symmetric` / `symmetric_class` prove that the state machine selects the mirrored pairs on the
reverse-complemented read.  Here: what one pair yields.  Any read and any pair of in-range hits
`0 ≤ f.begin < f.end < m.begin < m.end ≤ len` is `A ++ P1 ++ BC ++ P2 ++ B` with the hits at `P1` and `P2`;
`A` and `B` are ARBITRARY (other amplicons of a chimera, partial sites, nothing).  For markers whose tagged sides
use fixed-length tags (or no tag) the amplicon — barcode, primer matches, error counts, tags, identification — is
a function of `(P1, BC, P2, flankTag A, flankTag (rc B))`, and the reverse-complemented read
`rc B ++ rc P2 ++ rc BC ++ rc P1 ++ rc A` with the mirrored hits yields the same amplicon, direction flipped
(`emit_mirror`).  Delimited tags are outside the class when the spacer is > 0 (the two windows have
different widths: `delimited_window_asymmetry` in Props/C12.lean is the counterexample); rescue tags are proved
symmetric on built reads (`strand_symmetry_rescue`).
-/
set_option Elab.async false

namespace ObiVerif.Demux

open ObiVerif.SeqOps (Bytes rc subsequence)

/-- a side without tag, or with a fixed-length tag -/
def FixedSide (sd : Side) : Prop := sd.taglen = 0 ∨ (sd.delim = 0 ∧ 0 < sd.taglen ∧ 0 ≤ sd.spacer)

/-- what a fixed-tag extractor reads from the flank `X` that ENDS at the primer: the `taglen` bytes that end
`spacer` bytes before the primer; nothing when the flank is too short -/
def flankTag (sd : Side) (X : Bytes) : Bytes :=
  if sd.taglen = 0 then []
  else if (X.length : Int) - sd.spacer - sd.taglen < 0 then []
  else (X.drop (X.length - sd.spacer.toNat - sd.taglen.toNat)).take sd.taglen.toNat

theorem beginTag_flank (sd : Side) (h : FixedSide sd) (X rest : Bytes) :
    beginTag (X ++ rest) sd (X.length : Int) = .ok (flankTag sd X) := by
  unfold beginTag flankTag
  rcases h with h0 | ⟨hd, ht, hs⟩
  · simp [h0]
  · have hne : sd.taglen ≠ 0 := by omega
    simp only [hne, if_false, hd, if_true]
    unfold beginFixed
    by_cases hlt : (X.length : Int) - sd.spacer - sd.taglen < 0
    · simp [hlt]
    · simp only [hlt, if_false]
      unfold slice
      have hc : 0 ≤ (X.length : Int) - sd.spacer - sd.taglen ∧
          (X.length : Int) - sd.spacer - sd.taglen ≤ (X.length : Int) - sd.spacer ∧
          (X.length : Int) - sd.spacer ≤ ((X ++ rest).length : Int) := by
        simp only [List.length_append]; omega
      rw [if_pos hc]
      have e1 : ((X.length : Int) - sd.spacer - sd.taglen).toNat = X.length - sd.spacer.toNat - sd.taglen.toNat := by omega
      have e2 : ((X.length : Int) - sd.spacer).toNat - ((X.length : Int) - sd.spacer - sd.taglen).toNat = sd.taglen.toNat := by omega
      rw [e2, e1]
      congr 1
      -- the window lies inside `X`
      have hle : X.length - sd.spacer.toNat - sd.taglen.toNat + sd.taglen.toNat ≤ X.length := by omega
      rw [List.drop_append_of_le_length (by omega), List.take_append_of_le_length (by simp; omega)]

theorem endTag_flank (sd : Side) (h : FixedSide sd) (pre Y : Bytes) :
    endTag (pre ++ Y) sd (pre.length : Int) = .ok (flankTag sd (rc Y)) := by
  unfold endTag flankTag
  rcases h with h0 | ⟨hd, ht, hs⟩
  · simp [h0]
  · have hne : sd.taglen ≠ 0 := by omega
    simp only [hne, if_false, hd, if_true]
    unfold endFixed
    rw [rc_length]
    by_cases hlt : (Y.length : Int) - sd.spacer - sd.taglen < 0
    · simp only [hlt, if_true, List.length_append, Int.natCast_add, pure, Except.pure]
      rw [if_pos (by omega)]
    · have hfe : ¬ ((pre.length : Int) + sd.spacer + sd.taglen > ((pre ++ Y).length : Int)) := by
        simp only [List.length_append]; omega
      simp only [hlt, hfe, if_false]
      -- Y = S ++ T ++ rest with |S| = spacer, |T| = taglen
      obtain ⟨sp, hsp⟩ : ∃ n : Nat, sd.spacer = n := ⟨sd.spacer.toNat, by omega⟩
      obtain ⟨tl, htl⟩ : ∃ n : Nat, sd.taglen = n := ⟨sd.taglen.toNat, by omega⟩
      have hlen : sp + tl ≤ Y.length := by omega
      have hY : Y = Y.take sp ++ ((Y.drop sp).take tl) ++ (Y.drop (sp + tl)) := by
        rw [List.append_assoc, ← List.drop_drop, List.take_append_drop, List.take_append_drop]
      have hT : ((Y.drop sp).take tl).length = tl := by simp; omega
      have hS : (Y.take sp).length = sp := by simp; omega
      have hsub := sub_window (pre ++ Y.take sp) ((Y.drop sp).take tl) (Y.drop (sp + tl)) (by omega)
      rw [List.append_assoc, List.append_assoc, ← List.append_assoc (Y.take sp), ← hY] at hsub
      simp only [List.length_append, hS, hT, Int.natCast_add] at hsub
      rw [hsp, htl]
      simp only [subOrFatal, hsub, bind, Except.bind, pure, Except.pure]
      congr 1
      have hrc := rc_subseq Y sp (sp + tl) (by omega) hlen
      simp only [Nat.add_sub_cancel_left] at hrc
      rw [hrc]
      simp [Nat.sub_sub]

/-- the amplicon that the pair of hits at `P1`, `P2` yields, whatever the flanks `A`, `B` -/
def yieldOf (mk : Marker) (i : Nat) (fw : Bool) (e1 e2 : Int) (A P1 BC P2 B : Bytes) : Amplicon :=
  let ft := if fw then flankTag mk.fside A else flankTag mk.fside (rc B)
  let rt := if fw then flankTag mk.rside (rc B) else flankTag mk.rside A
  { marker := i, forward := fw,
    subFrom := (A.length : Int) + P1.length, subTo := (A.length : Int) + P1.length + BC.length,
    barcode := if !fw then rc BC else BC,
    fmatch := if fw then P1 else rc P2,
    rmatch := if fw then rc P2 else P1,
    ferr := if fw then e1 else e2,
    rerr := if fw then e2 else e1,
    ftag := ft, rtag := rt, ident := identify mk ft rt }

/-- `emit` on a decomposed read: the amplicon depends on the flanks only through `flankTag` -/
theorem emit_decomposed (markers : List Marker) (mk : Marker) (i : Nat) (hi : 0 < i) (hmk : markers[i - 1]? = some mk)
    (hF : FixedSide mk.fside) (hR : FixedSide mk.rside)
    (fw : Bool) (e1 e2 : Int) (A P1 BC P2 B : Bytes) (_h1 : 0 < P1.length) (hb : 0 < BC.length) (h2 : 0 < P2.length) :
    emit markers (A ++ P1 ++ BC ++ P2 ++ B)
      ⟨A.length, (A.length : Int) + P1.length, e1, i, fw⟩
      ⟨(A.length : Int) + P1.length + BC.length, (A.length : Int) + P1.length + BC.length + P2.length, e2, -(i : Int), fw⟩
      = .ok (some (yieldOf mk i fw e1 e2 A P1 BC P2 B)) := by
  have hs1 : slice (A ++ P1 ++ BC ++ P2 ++ B) (A.length : Int) ((A.length : Int) + P1.length) = .ok P1 := by
    have := slice_window A P1 (BC ++ P2 ++ B)
    simpa [List.append_assoc] using this
  have hs2 : subsequence (A ++ P1 ++ BC ++ P2 ++ B) ((A.length : Int) + P1.length + BC.length)
      ((A.length : Int) + P1.length + BC.length + P2.length) false = .ok (P2, (A ++ P1 ++ BC).length) := by
    have := sub_window (A ++ P1 ++ BC) P2 B h2
    simpa [List.length_append, Int.natCast_add, Int.add_assoc] using this
  have hs4 : subsequence (A ++ P1 ++ BC ++ P2 ++ B) ((A.length : Int) + P1.length)
      ((A.length : Int) + P1.length + BC.length) false = .ok (BC, (A ++ P1).length) := by
    have := sub_window (A ++ P1) BC (P2 ++ B) hb
    simpa [List.length_append, Int.natCast_add, List.append_assoc, Int.add_assoc] using this
  have hbeg : ∀ sd, FixedSide sd → beginTag (A ++ P1 ++ BC ++ P2 ++ B) sd (A.length : Int) = .ok (flankTag sd A) := by
    intro sd hsd
    have := beginTag_flank sd hsd A (P1 ++ BC ++ P2 ++ B)
    simpa [List.append_assoc] using this
  have hend : ∀ sd, FixedSide sd → endTag (A ++ P1 ++ BC ++ P2 ++ B) sd
      ((A.length : Int) + P1.length + BC.length + P2.length) = .ok (flankTag sd (rc B)) := by
    intro sd hsd
    have := endTag_flank sd hsd (A ++ P1 ++ BC ++ P2) B
    simpa [List.length_append, Int.natCast_add, Int.add_assoc] using this
  have h3 : tagExtractor mk (A ++ P1 ++ BC ++ P2 ++ B) (A.length : Int)
      ((A.length : Int) + P1.length + BC.length + P2.length) fw =
      .ok (if fw then flankTag mk.fside A else flankTag mk.fside (rc B),
           if fw then flankTag mk.rside (rc B) else flankTag mk.rside A) := by
    unfold tagExtractor
    cases fw
    · simp only [Bool.false_eq_true, if_false, bind, Except.bind, pure, Except.pure]
      rw [hbeg mk.rside hR, hend mk.fside hF]
    · simp only [if_true, bind, Except.bind, pure, Except.pure]
      rw [hbeg mk.fside hF, hend mk.rside hR]
  have hidx : ((i : Int)).toNat - 1 = i - 1 := by omega
  have := emit_ok markers (A ++ P1 ++ BC ++ P2 ++ B)
    ⟨A.length, (A.length : Int) + P1.length, e1, i, fw⟩
    ⟨(A.length : Int) + P1.length + BC.length, (A.length : Int) + P1.length + BC.length + P2.length, e2, -(i : Int), fw⟩
    mk P1 P2 _ _ BC _ _ (by simpa [hidx] using hmk)
    (by simp only [List.length_append, Int.natCast_add]; omega) hs1 hs2 h3 hs4
  rw [this]
  unfold yieldOf
  simp

/-- `rc` of a decomposed read is the decomposed read of the reverse complements -/
theorem rc_decomposed (A P1 BC P2 B : Bytes) :
    rc (A ++ P1 ++ BC ++ P2 ++ B) = rc B ++ rc P2 ++ rc BC ++ rc P1 ++ rc A := by
  simp [rc_append, List.append_assoc]

/-- the mirror image of an amplicon in a read of length `L` -/
def mirrorAmplicon (L : Int) (a : Amplicon) : Amplicon :=
  { a with forward := !a.forward, subFrom := L - a.subTo, subTo := L - a.subFrom }

/-- MIRROR: the reverse-complemented read with the mirrored hits yields the same amplicon, direction flipped -/
theorem emit_mirror (markers : List Marker) (mk : Marker) (i : Nat) (hi : 0 < i) (hmk : markers[i - 1]? = some mk)
    (hF : FixedSide mk.fside) (hR : FixedSide mk.rside)
    (fw : Bool) (e1 e2 : Int) (A P1 BC P2 B : Bytes) (h1 : 0 < P1.length) (hb : 0 < BC.length) (h2 : 0 < P2.length)
    (halpha : ∀ b ∈ A ++ P1 ++ BC ++ P2 ++ B, b ∈ alphabet) :
    let seq := A ++ P1 ++ BC ++ P2 ++ B
    let L : Int := seq.length
    let f : PrimerMatch := ⟨A.length, (A.length : Int) + P1.length, e1, i, fw⟩
    let m : PrimerMatch := ⟨(A.length : Int) + P1.length + BC.length, (A.length : Int) + P1.length + BC.length + P2.length, e2, -(i : Int), fw⟩
    emit markers (rc seq) (mirrorMatch L m) (mirrorMatch L f) =
      .ok (some (mirrorAmplicon L (yieldOf mk i fw e1 e2 A P1 BC P2 B))) ∧
    emit markers seq f m = .ok (some (yieldOf mk i fw e1 e2 A P1 BC P2 B)) := by
  intro seq L f m
  refine ⟨?_, emit_decomposed markers mk i hi hmk hF hR fw e1 e2 A P1 BC P2 B h1 hb h2⟩
  have hA : ∀ b ∈ A, b ∈ alphabet := fun b hb' => halpha b (by simp [hb'])
  have hP1 : ∀ b ∈ P1, b ∈ alphabet := fun b hb' => halpha b (by simp [hb'])
  have hBC : ∀ b ∈ BC, b ∈ alphabet := fun b hb' => halpha b (by simp [hb'])
  have key := emit_decomposed markers mk i hi hmk hF hR (!fw) e2 e1 (rc B) (rc P2) (rc BC) (rc P1) (rc A)
    (by rw [rc_length]; exact h2) (by rw [rc_length]; exact hb) (by rw [rc_length]; exact h1)
  have hm1 : mirrorMatch L m = ⟨(rc B).length, ((rc B).length : Int) + (rc P2).length, e2, i, !fw⟩ := by
    simp only [mirrorMatch, L, seq, m, rc_length, List.length_append, Int.natCast_add, Int.neg_neg]
    congr 1 <;> omega
  have hm2 : mirrorMatch L f = ⟨((rc B).length : Int) + (rc P2).length + (rc BC).length,
      ((rc B).length : Int) + (rc P2).length + (rc BC).length + (rc P1).length, e1, -(i : Int), !fw⟩ := by
    simp only [mirrorMatch, L, seq, f, rc_length, List.length_append, Int.natCast_add]
    congr 1 <;> omega
  show emit markers (rc (A ++ P1 ++ BC ++ P2 ++ B)) (mirrorMatch L m) (mirrorMatch L f) = _
  rw [rc_decomposed, hm1, hm2, key]
  congr 2
  unfold yieldOf mirrorAmplicon
  simp only [rc_rc A hA, rc_rc P1 hP1, rc_rc BC hBC, rc_length, L, seq, List.length_append, Int.natCast_add]
  cases fw <;> simp <;> omega

end ObiVerif.Demux
