import ObiVerif.Lemmas.Uniq
/-!
# Lemmas on obidemerge followed by a second dereplication
-/
namespace ObiVerif.Uniq

theorem mem_keys_setKey {β : Type} (l : List (String × β)) (k : String) (x : β) (k' : String)
    (h : k' ∈ (setKey l k x).map (·.1)) : k' ∈ l.map (·.1) ∨ k' = k := by
  induction l with
  | nil => simp [setKey] at h; exact Or.inr h
  | cons e t ih =>
    obtain ⟨a, b⟩ := e
    simp only [setKey] at h
    split at h
    · next ha =>
      simp only [List.map_cons, List.mem_cons] at h ⊢
      rcases h with h | h
      · exact Or.inr h
      · exact Or.inl (Or.inr h)
    · simp only [List.map_cons, List.mem_cons] at h ⊢
      rcases h with h | h
      · exact Or.inl (Or.inl h)
      · rcases ih h with h | h
        · exact Or.inl (Or.inr h)
        · exact Or.inr h

theorem setKey_nodup {β : Type} (l : List (String × β)) (k : String) (x : β)
    (h : (l.map (·.1)).Nodup) : ((setKey l k x).map (·.1)).Nodup := by
  induction l with
  | nil => simp [setKey]
  | cons e t ih =>
    obtain ⟨a, b⟩ := e
    have hn : a ∉ t.map (·.1) ∧ (t.map (·.1)).Nodup := by simpa using h
    simp only [setKey]
    split
    · next ha => subst ha; simpa using h
    · next ha =>
      simp only [List.map_cons, List.nodup_cons]
      refine ⟨fun hm => ?_, ih hn.2⟩
      rcases mem_keys_setKey t k x a hm with h1 | h1
      · exact hn.1 h1
      · exact ha h1

/-- the weight of a value in a map is the sum of the entries for that value -/
theorem weight_eq_sum (m : Stats) (v : String) :
    weight m v = (m.map fun e => if e.1 = v then e.2 else 0).sum := by
  induction m with
  | nil => rfl
  | cons e t ih =>
    obtain ⟨a, b⟩ := e
    by_cases h : a = v <;> simp [weight, h, ih]

/-- in a list with distinct keys the elements with the key of `x` are `x` alone -/
theorem flatMap_single {α β κ : Type} [DecidableEq κ] (f : α → κ) (g : α → List β) (l : List α)
    (hnd : (l.map f).Nodup) (x : α) (hx : x ∈ l) :
    l.flatMap (fun u => if f u = f x then g u else []) = g x := by
  induction l with
  | nil => simp at hx
  | cons a t ih =>
    have hn : f a ∉ t.map f ∧ (t.map f).Nodup := by simpa using hnd
    rcases List.mem_cons.mp hx with e | hxt
    · subst e
      have : t.flatMap (fun u => if f u = f x then g u else []) = [] := by
        rw [List.flatMap_eq_nil_iff]
        intro u hu
        have : f u ≠ f x := fun e => hn.1 (e ▸ List.mem_map.mpr ⟨u, hu, rfl⟩)
        simp [this]
      simp [List.flatMap_cons, this]
    · have : f a ≠ f x := fun e => hn.1 (e ▸ List.mem_map.mpr ⟨x, hxt, rfl⟩)
      simp [List.flatMap_cons, this, ih hn.2 hxt]

theorem one_le_setCount (n : Nat) : 1 ≤ setCount n := by
  unfold setCount; split <;> omega

theorem flatMap_congr' {α β : Type} (l : List α) (F G : α → List β) (h : ∀ u ∈ l, F u = G u) :
    l.flatMap F = l.flatMap G := by
  induction l with
  | nil => rfl
  | cons a t ih =>
    simp only [List.flatMap_cons]
    rw [h a (by simp), ih fun u hu => h u (List.mem_cons_of_mem _ hu)]

/-- every record obidemerge makes of `u` keeps the key of `u` (when `k` is not a category), is
well formed, has a count ≥ 1 and no `merged_<k>` map -/
theorem demerge1_facts (o : Opts) (k : String) (hkc : k ∉ o.cats) (u : Rec) (mu : Stats)
    (hmu : u.merged.lookup k = some mu) (hwf : u.WF) :
    ∀ d ∈ demerge1 k u, key o d = key o u ∧ d.WF ∧ 1 ≤ d.count ∧ d.merged.lookup k = none := by
  intro d hd
  simp only [demerge1, hmu, List.mem_map] at hd
  obtain ⟨e, _, rfl⟩ := hd
  refine ⟨?_, ?_, ?_, ?_⟩
  · rw [key_eq_iff]
    refine ⟨rfl, fun c hc => ?_⟩
    have hne : ¬ k = c := fun e => hkc (e ▸ hc)
    simp [Rec.value, lookup_setKey, hne]
  · exact setKey_nodup u.attrs k e.1 hwf
  · exact one_le_setCount e.2
  · simp [lookup_filter_ne']

/-- the record obidemerge makes of `out` for entry `e` of its `merged_<k>` map -/
def demergeRec (k : String) (out : Rec) (e : String × Nat) : Rec :=
  { id := out.id, seq := out.seq, cnt := some (setCount e.2), attrs := setKey out.attrs k e.1,
    merged := out.merged.filter (fun e => decide (e.1 ≠ k)) }

theorem demerge1_eq (k : String) (out : Rec) (m : Stats) (hm : out.merged.lookup k = some m) :
    demerge1 k out = m.map (demergeRec k out) := by
  simp only [demerge1, hm]; rfl

theorem contrib_demerge1 (na k : String) (out : Rec) (m : Stats) (hm : out.merged.lookup k = some m)
    (hpos : ∀ e ∈ m, 1 ≤ e.2) (v : String) :
    contribSum na k (demerge1 k out) v = weight m v ∧
    total (demerge1 k out) = (m.map (·.2)).sum := by
  rw [demerge1_eq k out m hm]
  simp only [contribSum, total, List.map_map]
  constructor
  · rw [weight_eq_sum]
    congr 1
    apply List.map_congr_left
    intro e he
    have hn : (demergeRec k out e).merged.lookup k = none := by
      simp [demergeRec, lookup_filter_ne']
    simp only [Function.comp]
    rw [contrib_none hn]
    simp [demergeRec, Rec.value, Rec.count, lookup_setKey, setCount_pos (hpos e he)]
  · congr 1
    apply List.map_congr_left
    intro e he
    simp [demergeRec, Rec.count, setCount_pos (hpos e he)]

end ObiVerif.Uniq
