import ObiVerif.Model.PEAnnot
/-!
# C08: which annotations `AssemblePESequences` writes in each mode; exact rounding of the two ratios
-/
namespace ObiVerif.PEAlign

/-- **join mode**: the record carries exactly `ali_length`, `mode = join`, `score`, `score_norm`,
`seq_ab_match` — no `ali_dir`, no `seq_a_single` / `seq_b_single`, and neither `pairing_mismatches` nor the
`paring_fast_*` annotations (written on the consensus record that join mode discards) -/
theorem annot_join (fast : Bool) (v : Vote) (ovr : Int) (a qa b qb : Bytes) (minOverlap idn idd : Nat)
    (r : PERes) (c : Cons) (mm : List (String × Nat))
    (hj : (assemble a qa b qb minOverlap idn idd r c).alignment = false) :
    (annotEntries fast v ovr (assemble a qa b qb minOverlap idn idd r c) mm).map (·.1) =
      ["ali_length", "mode", "score", "score_norm", "seq_ab_match"] ∧
    ("mode", "join") ∈ annotEntries fast v ovr (assemble a qa b qb minOverlap idn idd r c) mm := by
  simp only [assemble] at hj ⊢
  split at hj
  · simp at hj
  · rename_i h
    simp only [h, if_false]
    simp [annotEntries]

/-- **alignment mode**: `ali_dir`, `ali_length`, `mode = alignment`, `score`, `score_norm`, `seq_a_single`,
`seq_ab_match`, `seq_b_single` always; `pairing_mismatches` exactly when a column holds two different
symbols; the three `paring_fast_*` exactly in fast mode -/
theorem annot_alignment (fast : Bool) (v : Vote) (ovr : Int) (a qa b qb : Bytes) (minOverlap idn idd : Nat)
    (r : PERes) (c : Cons) (mm : List (String × Nat))
    (hj : (assemble a qa b qb minOverlap idn idd r c).alignment = true) :
    (annotEntries fast v ovr (assemble a qa b qb minOverlap idn idd r c) mm).map (·.1) =
      ["ali_dir", "ali_length", "mode"] ++ (if mm.isEmpty then [] else ["pairing_mismatches"]) ++
      (if fast then ["paring_fast_count", "paring_fast_overlap", "paring_fast_score"] else []) ++
      ["score", "score_norm", "seq_a_single", "seq_ab_match", "seq_b_single"] ∧
    ("mode", "alignment") ∈ annotEntries fast v ovr (assemble a qa b qb minOverlap idn idd r c) mm := by
  simp only [assemble] at hj ⊢
  split at hj
  · rename_i h
    simp only [h, and_self, if_true]
    cases fast <;> cases hm : mm.isEmpty <;> simp [annotEntries, hm]
  · simp at hj

/-- `thousandths num den = some k`: `k` is `1000·num/den` rounded to the nearest integer, and the ratio is
not on a rounding boundary (so float rounding and exact rounding agree) -/
theorem thousandths_spec (num den k : Int) (hd : 0 < den) (h : thousandths num den = some k) :
    2 * den * k ≤ 2000 * num + den ∧ 2000 * num + den < 2 * den * k + 2 * den ∧ 2000 * num - den ≠ 2 * den * (k - 1) := by
  unfold thousandths at h
  have hd' : ¬ den ≤ 0 := by omega
  simp only [hd', if_false] at h
  split at h
  · simp at h
  · rename_i hne
    simp only [Option.some.injEq] at h
    have h2 : 0 < 2 * den := by omega
    have e1 := Int.mul_ediv_add_emod (2000 * num + den) (2 * den)
    have e2 := Int.emod_nonneg (2000 * num + den) (by omega : 2 * den ≠ 0)
    have e3 := Int.emod_lt_of_pos (2000 * num + den) h2
    rw [h] at e1
    refine ⟨by omega, by omega, ?_⟩
    intro hb
    apply hne
    have e : 2000 * num = den + (k - 1) * (2 * den) := by rw [Int.mul_comm (k - 1)]; omega
    rw [e, Int.add_mul_emod_self_right]
    exact Int.emod_eq_of_lt (by omega) (by omega)

end ObiVerif.PEAlign
