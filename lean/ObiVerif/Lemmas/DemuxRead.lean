import ObiVerif.Lemmas.Demux
/-! helper lemmas for C12: windows of a built read, the body of the state machine, exact tags.

The three facts about `rc` / `subsequence` used here (`rc_rc`, `subsequence_linear`, `rc_subseq`)
are property C07's; they are re-proved locally (same statements) so that this file depends on
`Model/SeqOps.lean` only. -/
namespace ObiVerif.Demux

open ObiVerif.SeqOps (Bytes rc subsequence nucComplement)

/-- the IUPAC DNA alphabet (lower case) plus `. - [ ]`, as in C07 -/
def alphabet : List UInt8 :=
  [97, 99, 103, 116, 114, 121, 109, 107, 115, 119, 98, 100, 104, 118, 110, 46, 45, 91, 93]

theorem comp_involutive : ∀ b ∈ alphabet, nucComplement (nucComplement b) = b := by decide

theorem comp_closed : ∀ b ∈ alphabet, nucComplement b ∈ alphabet := by decide

theorem rc_rc (s : Bytes) (h : ∀ b ∈ s, b ∈ alphabet) : rc (rc s) = s := by
  unfold rc
  rw [List.map_reverse, List.reverse_reverse]
  induction s with
  | nil => rfl
  | cons a t ih =>
    simp only [List.map_cons]
    rw [comp_involutive a (h a (by simp)), ih (fun b hb => h b (List.mem_cons_of_mem _ hb))]

theorem rc_closed (s : Bytes) (h : ∀ b ∈ s, b ∈ alphabet) : ∀ b ∈ rc s, b ∈ alphabet := by
  intro b hb
  unfold rc at hb
  rw [List.mem_reverse, List.mem_map] at hb
  obtain ⟨a, ha, rfl⟩ := hb
  exact comp_closed a (h a ha)

theorem rc_append (a b : Bytes) : rc (a ++ b) = rc b ++ rc a := by simp [rc]

theorem subsequence_linear (s : Bytes) (a b : Nat) (hab : a < b) (hb : b ≤ s.length) :
    subsequence s a b false = .ok ((s.drop a).take (b - a), a) := by
  have h1 : Int.tmod (a : Int) (s.length : Int) = a := Int.tmod_eq_of_lt (by omega) (by omega)
  have h2 : Int.tmod ((b : Int) - 1) (s.length : Int) = b - 1 := Int.tmod_eq_of_lt (by omega) (by omega)
  have hs : s ≠ [] := List.ne_nil_of_length_pos (by omega)
  have e1 : ¬ b ≤ a := by omega
  have e3 : ¬ s.length ≤ a := by omega
  have e5 : ¬ s.length < b := by omega
  have e6 : ¬ (b : Int) < 0 := by omega
  unfold subsequence
  simp only [h1, h2]
  simp [e1, e3, e5, e6, hs, hab]

theorem rc_subseq (s : Bytes) (a b : Nat) (hab : a ≤ b) (hb : b ≤ s.length) :
    rc ((s.drop a).take (b - a)) = ((rc s).drop (s.length - b)).take (b - a) := by
  unfold rc
  rw [List.map_take, List.map_drop, List.reverse_take, List.reverse_drop, List.drop_take]
  simp only [List.length_drop, List.length_map]
  congr 1
  · omega
  · congr 1; omega

theorem rc_length (s : Bytes) : (rc s).length = s.length := by simp [rc]

/-! ## windows -/

theorem slice_window (A W B : Bytes) :
    slice (A ++ W ++ B) (A.length : Int) ((A.length : Int) + W.length) = .ok W := by
  unfold slice
  have hc : (0 : Int) ≤ A.length ∧ (A.length : Int) ≤ A.length + W.length ∧
      (A.length : Int) + W.length ≤ ((A ++ W ++ B).length : Int) := by
    simp only [List.length_append]; omega
  rw [if_pos hc]
  have h2 : ((A.length : Int) + W.length).toNat - (A.length : Int).toNat = W.length := by omega
  rw [h2]
  simp

theorem sub_window (A W B : Bytes) (hW : 0 < W.length) :
    subsequence (A ++ W ++ B) (A.length : Int) ((A.length : Int) + W.length) false
      = .ok (W, A.length) := by
  have h := subsequence_linear (A ++ W ++ B) A.length (A.length + W.length) (by omega)
    (by simp only [List.length_append]; omega)
  have e : ((A.length + W.length : Nat) : Int) = (A.length : Int) + W.length := by omega
  rw [e] at h
  rw [h]
  simp

theorem beginFixed_window (A T S B : Bytes) (sd : Side) (hl : sd.taglen = T.length)
    (hs : sd.spacer = S.length) :
    beginFixed (A ++ T ++ S ++ B) sd ((A.length : Int) + T.length + S.length) = .ok T := by
  unfold beginFixed
  rw [hs, hl]
  have e2 : (A.length : Int) + T.length + S.length - S.length = (A.length : Int) + T.length := by omega
  have e3 : (A.length : Int) + T.length - T.length = A.length := by omega
  simp only [e2, e3]
  have h0 : ¬ ((A.length : Int) < 0) := by omega
  rw [if_neg h0]
  have := slice_window A T (S ++ B)
  rw [← List.append_assoc] at this
  exact this

theorem endFixed_window (A S T B : Bytes) (sd : Side) (hl : sd.taglen = T.length)
    (hs : sd.spacer = S.length) (hT : 0 < T.length) :
    endFixed (A ++ S ++ T ++ B) sd (A.length : Int) = .ok (rc T) := by
  unfold endFixed
  rw [hs, hl]
  have hfe : ¬ ((A.length : Int) + S.length + T.length > ((A ++ S ++ T ++ B).length : Int)) := by
    simp only [List.length_append]; omega
  have := sub_window (A ++ S) T B hT
  simp only [List.length_append, Int.natCast_add] at this
  simp only [hfe, if_false, subOrFatal, this, bind, Except.bind, pure, Except.pure]

/-! ## the body of the state machine -/

theorem emit_ok (markers : List Marker) (seq : Bytes) (f m : PrimerMatch) (mk : Marker)
    (m1 x ft rt bcw : Bytes) (sh1 sh2 : Nat)
    (hmk : markers[f.marker.toNat - 1]? = some mk)
    (hb : ¬ (f.begin < 0 ∨ f.end_ > (seq.length : Int)))
    (h1 : slice seq f.begin f.end_ = .ok m1)
    (h2 : subsequence seq m.begin m.end_ false = .ok (x, sh1))
    (h3 : tagExtractor mk seq f.begin m.end_ f.forward = .ok (ft, rt))
    (h4 : subsequence seq f.end_ m.begin false = .ok (bcw, sh2)) :
    emit markers seq f m = .ok (some
      { marker := f.marker.toNat, forward := f.forward, subFrom := f.end_, subTo := m.begin,
        barcode := if !m.forward then rc bcw else bcw,
        fmatch := if f.forward then m1 else rc x,
        rmatch := if f.forward then rc x else m1,
        ferr := if f.forward then f.mism else m.mism,
        rerr := if f.forward then m.mism else f.mism,
        ftag := ft, rtag := rt, ident := identify mk ft rt }) := by
  unfold emit
  simp only [hmk, hb, h1, h2, h3, h4, if_false, bind, Except.bind, pure, Except.pure]
  cases hf : f.forward <;> simp

/-! ## exact tags are proposed under every mode -/

theorem editDist_self (s : Bytes) : editDist s s = 0 := by
  induction s with
  | nil => simp [editDist]
  | cons a s ih => simp [editDist, ih]

theorem editDist_zero {s t : Bytes} (h : editDist s t = 0) : s = t := by
  induction s generalizing t with
  | nil =>
    rw [editDist_nil_left] at h
    exact (List.eq_nil_of_length_eq_zero h).symm
  | cons a s ih =>
    cases t with
    | nil => simp [editDist] at h
    | cons b t =>
      simp only [editDist] at h
      have h3 : editDist s t + (if a ≠ b then 1 else 0) = 0 := by omega
      by_cases hab : a = b
      · subst hab
        simp at h3
        rw [ih h3]
      · simp [hab] at h3

theorem levenshtein_zero_iff (a b : Bytes) : levenshtein a b = 0 ↔ a = b := by
  have hl : levenshtein a b = editDist a.reverse b.reverse := by
    unfold levenshtein
    by_cases h1 : a.length = 0
    · have : a = [] := List.eq_nil_of_length_eq_zero h1
      subst this
      simp [editDist_nil_left]
    · by_cases h2 : b.length = 0
      · have : b = [] := List.eq_nil_of_length_eq_zero h2
        subst this
        simp [h1, editDist_nil_right]
      · simp only [h1, h2, if_false]
        have hr : List.range (b.length + 1) = rowOf [] [] b := by
          rw [rowOf_nil_eq_range', List.range_eq_range']
          simp
        rw [hr]
        have := levRows_rowOf b a []
        simp only [List.length_nil, Nat.zero_add, List.append_nil] at this
        rw [this, rowOf_getLastD]
        simp
  rw [hl]
  constructor
  · intro h
    have := editDist_zero h
    exact List.reverse_inj.1 this
  · intro h
    subst h
    exact editDist_self _

/-- a declared, non-empty tag read without error is proposed, under the three modes -/
theorem propose_declared (mode : Mode) (tags : List Bytes) (tag : Bytes) (hne : tag ≠ [])
    (hmem : tag ∈ tags) : propose mode tags tag = (tag, some 0) := by
  have key : ∀ dist : Bytes → Bytes → Nat, (∀ a b, dist a b = 0 ↔ a = b) →
      closestUnique dist tags tag = (tag, some 0) := by
    intro dist hd
    have hinv := closestInv_closestUnique dist tag tags (by intro h; subst h; simp at hmem)
    obtain ⟨m, hm, hle, _, hnz, hnil⟩ := hinv
    have h0 : dist tag tag = 0 := (hd tag tag).2 rfl
    have hm0 : m = 0 := by have := hle tag hmem; omega
    subst hm0
    generalize closestUnique dist tags tag = r at *
    obtain ⟨u, d⟩ := r
    simp only at hm hnz hnil
    subst hm
    by_cases hu : u = []
    · obtain ⟨t, _, htd, htx⟩ := hnil hu tag hne hmem h0
      exact absurd ((hd t tag).1 htd) htx
    · obtain ⟨_, h2, _⟩ := hnz hu
      rw [(hd u tag).1 h2]
  cases mode
  · rfl
  · exact key hamming hamming_zero_iff
  · exact key levenshtein levenshtein_zero_iff

/-! ## hit collection -/

def noHits : Hits := ⟨[], [], [], []⟩

theorem collect_noHits (n : Nat) (rest : List Hits) (i : Int) :
    collect (List.replicate n noHits ++ rest) i = collect rest (i + n) := by
  induction n generalizing i with
  | zero => simp
  | succ n ih =>
    simp only [List.replicate_succ, List.cons_append, collect, noHits]
    simp only [ne_eq, not_true_eq_false, if_false, List.nil_append]
    rw [show (⟨[], [], [], []⟩ : Hits) = noHits from rfl, ih]
    congr 1
    omega

theorem collect_all_noHits (n : Nat) (i : Int) : collect (List.replicate n noHits) i = [] := by
  have := collect_noHits n [] i
  simpa [collect] using this


/-! ## which pairs of hits delimit a barcode -/

/-- a forward(+) hit immediately followed, in the sorted list, by the complementary hit of the same
marker with the same orientation flag -/
def isPair (x y : PrimerMatch) : Bool :=
  decide (x.marker > 0) && decide (y.marker = -x.marker) && decide (y.forward = x.forward)

def adjPairs : List PrimerMatch → List (PrimerMatch × PrimerMatch)
  | x :: y :: t => (if isPair x y then [(x, y)] else []) ++ adjPairs (y :: t)
  | _ => []

/-- run the body of the state machine on a list of pairs, in order -/
def runPairs (markers : List Marker) (seq : SeqOps.Bytes) :
    List (PrimerMatch × PrimerMatch) → R (List Amplicon)
  | [] => .ok []
  | (f, m) :: ps => do
    let a ← emit markers seq f m
    let rest ← runPairs markers seq ps
    return (match a with | some x => x :: rest | none => rest)

theorem adjPairs_skip (m : PrimerMatch) (ms : List PrimerMatch) (h : ¬ m.marker > 0) :
    adjPairs (m :: ms) = adjPairs ms := by
  cases ms with
  | nil => simp [adjPairs]
  | cons y t => simp [adjPairs, isPair, h]

theorem machine_pairs_aux (markers : List Marker) (seq : SeqOps.Bytes) (l : List PrimerMatch) :
    machine markers seq none l = runPairs markers seq (adjPairs l) ∧
    ∀ f : PrimerMatch, f.marker > 0 →
      machine markers seq (some f) l = runPairs markers seq (adjPairs (f :: l)) := by
  induction l with
  | nil => simp [machine, adjPairs, runPairs]
  | cons m ms ih =>
    obtain ⟨iha, ihb⟩ := ih
    have hnone : machine markers seq (if m.marker > 0 then some m else none) ms =
        runPairs markers seq (adjPairs (m :: ms)) := by
      by_cases hm : m.marker > 0
      · simp only [hm, if_true]; exact ihb m hm
      · simp only [hm, if_false]; rw [adjPairs_skip m ms hm]; exact iha
    constructor
    · simp only [machine]; exact hnone
    · intro f hf
      by_cases hp : m.marker = -f.marker ∧ m.forward = f.forward
      · have hm : ¬ m.marker > 0 := by omega
        have hpair : isPair f m = true := by simp [isPair, hf, hp.1, hp.2]
        simp only [machine, hp, and_self, if_true, adjPairs, hpair, List.singleton_append, runPairs]
        rw [adjPairs_skip m ms hm, iha]
        rfl
      · have hpair : isPair f m = false := by
          simp only [isPair, hf, decide_true, Bool.true_and, Bool.and_eq_false_iff,
            decide_eq_false_iff_not]
          by_cases h1 : m.marker = -f.marker
          · right; intro h2; exact hp ⟨h1, h2⟩
          · left; exact h1
        simp only [machine, hp, if_false, adjPairs, hpair]
        exact hnone

/-- the state machine of `ExtractMultiBarcode` extracts exactly the adjacent (forward hit,
complementary hit) pairs of the sorted list, in order -/
theorem machine_pairs (markers : List Marker) (seq : SeqOps.Bytes) (l : List PrimerMatch) :
    machine markers seq none l = runPairs markers seq (adjPairs l) :=
  (machine_pairs_aux markers seq l).1

/-- the hit seen on the reverse-complemented read of length `L` -/
def mirrorMatch (L : Int) (m : PrimerMatch) : PrimerMatch :=
  ⟨L - m.end_, L - m.begin, m.mism, -m.marker, !m.forward⟩

def mirrorList (L : Int) (l : List PrimerMatch) : List PrimerMatch := (l.map (mirrorMatch L)).reverse

theorem isPair_iff (x y : PrimerMatch) :
    isPair x y = true ↔ (x.marker > 0 ∧ y.marker = -x.marker ∧ y.forward = x.forward) := by
  simp [isPair, and_assoc]

theorem isPair_mirror (L : Int) (x y : PrimerMatch) :
    isPair (mirrorMatch L y) (mirrorMatch L x) = isPair x y := by
  apply Bool.eq_iff_iff.2
  rw [isPair_iff, isPair_iff]
  simp only [mirrorMatch]
  constructor
  · rintro ⟨h1, h2, h3⟩
    refine ⟨by omega, by omega, ?_⟩
    cases hx : x.forward <;> cases hy : y.forward <;> simp_all
  · rintro ⟨h1, h2, h3⟩
    refine ⟨by omega, by omega, ?_⟩
    rw [h3]

theorem adjPairs_snoc (l : List PrimerMatch) (y z : PrimerMatch) :
    adjPairs (l ++ [y, z]) = adjPairs (l ++ [y]) ++ (if isPair y z then [(y, z)] else []) := by
  induction l with
  | nil => simp [adjPairs]
  | cons a t ih =>
    cases t with
    | nil => simp [adjPairs]
    | cons b t' =>
      simp only [List.cons_append, adjPairs] at ih ⊢
      rw [ih]
      simp [List.append_assoc]

theorem adjPairs_single_snoc (l : List PrimerMatch) (z : PrimerMatch) :
    adjPairs (l ++ [z]) = adjPairs l ++
      (match l.getLast? with
       | some y => if isPair y z then [(y, z)] else []
       | none => []) := by
  induction l with
  | nil => simp [adjPairs]
  | cons a t ih =>
    cases t with
    | nil => simp [adjPairs]
    | cons b t' =>
      have hl : (a :: b :: t').getLast? = (b :: t').getLast? := by simp [List.getLast?_cons_cons]
      rw [hl]
      simp only [List.cons_append, adjPairs] at ih ⊢
      rw [ih]
      simp [List.append_assoc]

/-- swap and mirror a pair -/
def mirrorPair (L : Int) (p : PrimerMatch × PrimerMatch) : PrimerMatch × PrimerMatch :=
  (mirrorMatch L p.2, mirrorMatch L p.1)

/-- the pairs selected on the reverse-complemented read are the mirrored pairs, in the opposite
order -/
theorem adjPairs_mirror (L : Int) (l : List PrimerMatch) :
    adjPairs (mirrorList L l) = ((adjPairs l).map (mirrorPair L)).reverse := by
  induction l with
  | nil => simp [mirrorList, adjPairs]
  | cons x t ih =>
    have hcons : mirrorList L (x :: t) = mirrorList L t ++ [mirrorMatch L x] := by
      simp [mirrorList]
    rw [hcons, adjPairs_single_snoc, ih]
    cases t with
    | nil => simp [mirrorList, adjPairs]
    | cons y t' =>
      have hlast : (mirrorList L (y :: t')).getLast? = some (mirrorMatch L y) := by
        simp [mirrorList]
      rw [hlast]
      simp only [isPair_mirror]
      by_cases hp : isPair x y
      · simp [adjPairs, hp, mirrorPair]
      · simp [adjPairs, hp]

end ObiVerif.Demux
