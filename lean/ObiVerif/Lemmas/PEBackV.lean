import ObiVerif.Model.PEBackV
import ObiVerif.Lemmas.PEAlign
/-!
# The path buffer written from its end is the list built by prepending (C08)

`backtrackBuf_eq`: for every path matrix (also the ones that make the loop fail) and every previous
content / capacity of the arena buffer, `_Backtracking` with its real buffer returns the path of the list
model `backtrack`; in particular `p` never underflows: `2·(la+lb)` cells are always enough.
-/
namespace ObiVerif.PEAlign

/-- what has been written so far (from `p` to the end of the buffer) is the accumulator of the list model -/
def Rep (buf : Array Int) (p : Nat) (acc : Path) : Prop := p ≤ buf.size ∧ buf.toList.drop p = acc

theorem drop_set_pred (l : List Int) (p : Nat) (x : Int) (h0 : 0 < p) (hp : p ≤ l.length) :
    (l.set (p - 1) x).drop (p - 1) = x :: l.drop p := by
  obtain ⟨q, rfl⟩ : ∃ q, p = q + 1 := ⟨p - 1, by omega⟩
  simp only [Nat.add_sub_cancel]
  rw [List.drop_set]
  simp only [Nat.lt_irrefl, if_false, Nat.sub_self]
  rw [List.drop_eq_getElem_cons (i := q) (by omega)]
  rfl

theorem pushBack_spec {buf : Array Int} {p : Nat} {acc : Path} (x : Int) (h : Rep buf p acc) (h0 : 0 < p) :
    ∃ b, pushBack buf p x = some (b, p - 1) ∧ Rep b (p - 1) (x :: acc) ∧ b.size = buf.size := by
  obtain ⟨hp, hd⟩ := h
  have hb : 0 < p ∧ p - 1 < buf.size := by omega
  unfold pushBack
  rw [dif_pos hb]
  refine ⟨_, rfl, ⟨by simp only [Array.size_set]; omega, ?_⟩, by simp only [Array.size_set]⟩
  rw [Array.toList_set, drop_set_pred _ _ _ h0 (by simpa using hp), hd]

theorem flushPair_spec {buf : Array Int} {p : Nat} {acc : Path} (ind d : Int) (h : Rep buf p acc)
    (h2 : 2 ≤ p) :
    ∃ b, flushPair buf p ind d = some (b, p - 2) ∧ Rep b (p - 2) (ind :: d :: acc) ∧ b.size = buf.size := by
  obtain ⟨b1, e1, r1, s1⟩ := pushBack_spec d h (by omega)
  obtain ⟨b2, e2, r2, s2⟩ := pushBack_spec ind r1 (by omega)
  have : p - 1 - 1 = p - 2 := by omega
  rw [this] at e2 r2
  exact ⟨b2, by simp only [flushPair, e1, e2], r2, by omega⟩

/-- the list side of `flushIf` -/
def flushIfL (x ldiag : Int) (acc : Path) : Int × Int × Path :=
  if x ≠ 0 then (0, 0, x :: ldiag :: acc) else (ldiag, x, acc)

theorem flushIfL_snd (x d : Int) (acc : Path) : (flushIfL x d acc).2.1 = 0 := by
  unfold flushIfL
  by_cases h : x = 0 <;> simp [h]

theorem flushIfL_fst_zero {x : Int} (d : Int) (acc : Path) (h : x ≠ 0) : (flushIfL x d acc).1 = 0 := by
  simp [flushIfL, h]

theorem flushIfL_fst_same {x : Int} (d : Int) (acc : Path) (h : x = 0) : (flushIfL x d acc).1 = d := by
  simp [flushIfL, h]

theorem flushIf_spec (x d : Int) {buf : Array Int} {p : Nat} {acc : Path} (h : Rep buf p acc)
    (hroom : x ≠ 0 → 2 ≤ p) :
    ∃ b q, flushIf x d buf p = some ((flushIfL x d acc).1, (flushIfL x d acc).2.1, b, q) ∧
      Rep b q (flushIfL x d acc).2.2 ∧ b.size = buf.size ∧ (x = 0 → q = p) ∧ (x ≠ 0 → q + 2 = p) := by
  by_cases hx : x = 0
  · refine ⟨buf, p, by simp [flushIf, flushIfL, hx], by simpa [flushIfL, hx] using h, rfl,
      fun _ => rfl, fun h' => absurd hx h'⟩
  · obtain ⟨b, e, r, s⟩ := flushPair_spec x d h (hroom hx)
    have h2 := hroom hx
    refine ⟨b, p - 2, by simp [flushIf, flushIfL, hx, e], by simpa [flushIfL, hx] using r, s,
      fun h' => absurd h' hx, fun _ => by omega⟩

theorem finish_eq (ldiag lup lleft : Int) (acc : Path) :
    finish ldiag lup lleft acc =
      (if (flushIfL lup (flushIfL lleft ldiag acc).1 (flushIfL lleft ldiag acc).2.2).1 ≠ 0 then
        0 :: (flushIfL lup (flushIfL lleft ldiag acc).1 (flushIfL lleft ldiag acc).2.2).1 ::
          (flushIfL lup (flushIfL lleft ldiag acc).1 (flushIfL lleft ldiag acc).2.2).2.2
      else (flushIfL lup (flushIfL lleft ldiag acc).1 (flushIfL lleft ldiag acc).2.2).2.2) := by
  unfold finish flushIfL
  by_cases hl : lleft = 0 <;> by_cases hu : lup = 0 <;> simp [hl, hu]

theorem finishBuf_spec (ldiag lup lleft : Int) {buf : Array Int} {p : Nat} {acc : Path} (h : Rep buf p acc)
    (hb : lup = 0 ∨ lleft = 0) (hroom : (ldiag ≠ 0 ∨ lup ≠ 0 ∨ lleft ≠ 0) → 2 ≤ p) :
    ∃ b q, finishBuf ldiag lup lleft buf p = some (b, q) ∧ Rep b q (finish ldiag lup lleft acc) ∧
      b.size = buf.size ∧ q ≤ p ∧ p ≤ q + 2 ∧ ((ldiag = 0 ∧ lup = 0 ∧ lleft = 0) → q = p) := by
  obtain ⟨b1, q1, e1, r1, s1, z1, n1⟩ := flushIf_spec lleft ldiag h (by omega)
  obtain ⟨b2, q2, e2, r2, s2, z2, n2⟩ := flushIf_spec lup (flushIfL lleft ldiag acc).1 r1 (by omega)
  rw [finish_eq]
  unfold finishBuf
  simp only [e1, e2]
  by_cases hd : (flushIfL lup (flushIfL lleft ldiag acc).1 (flushIfL lleft ldiag acc).2.2).1 = 0
  · simp only [hd, ne_eq, not_true_eq_false, if_false]
    refine ⟨b2, q2, rfl, r2, by omega, by omega, by omega, by omega⟩
  · have hu : lup = 0 := by
      by_cases hu : lup = 0
      · exact hu
      · exact absurd (flushIfL_fst_zero _ _ hu) hd
    rw [flushIfL_fst_same _ _ hu] at hd
    have hl : lleft = 0 := by
      by_cases hl : lleft = 0
      · exact hl
      · exact absurd (flushIfL_fst_zero _ _ hl) hd
    rw [flushIfL_fst_same _ _ hl] at hd
    obtain ⟨b3, e3, r3, s3⟩ := flushPair_spec 0
      (flushIfL lup (flushIfL lleft ldiag acc).1 (flushIfL lleft ldiag acc).2.2).1 r2 (by omega)
    have hd' : (flushIfL lup (flushIfL lleft ldiag acc).1 (flushIfL lleft ldiag acc).2.2).1 ≠ 0 := by
      rw [flushIfL_fst_same _ _ hu, flushIfL_fst_same _ _ hl]; exact hd
    simp only [hd', ne_eq, not_false_eq_true, if_true]
    exact ⟨b3, q2 - 2, e3, r3, by omega, by omega, by omega, by omega⟩

theorem btLoop_succ (P : Nat → Nat → Int) (fuel i j : Nat) (ldiag lup lleft : Int) (acc : Path) :
    btLoop P (fuel + 1) i j ldiag lup lleft acc =
      if i = 0 ∧ j = 0 then some (finish ldiag lup lleft acc)
      else
        if P i j = 0 then
          if i = 0 ∨ j = 0 then none
          else
            btLoop P fuel (i - 1) (j - 1)
              ((flushIfL lup (flushIfL lleft ldiag acc).1 (flushIfL lleft ldiag acc).2.2).1 + 1)
              (flushIfL lup (flushIfL lleft ldiag acc).1 (flushIfL lleft ldiag acc).2.2).2.1
              (flushIfL lleft ldiag acc).2.1
              (flushIfL lup (flushIfL lleft ldiag acc).1 (flushIfL lleft ldiag acc).2.2).2.2
        else if P i j > 0 then
          if j < (P i j).toNat then none
          else
            btLoop P fuel i (j - (P i j).toNat) (flushIfL lup ldiag acc).1 (flushIfL lup ldiag acc).2.1
              (lleft + P i j) (flushIfL lup ldiag acc).2.2
        else
          if i < (-(P i j)).toNat then none
          else
            btLoop P fuel (i - (-(P i j)).toNat) j (flushIfL lleft ldiag acc).1 (lup + P i j)
              (flushIfL lleft ldiag acc).2.1 (flushIfL lleft ldiag acc).2.2 := by
  rw [btLoop]; rfl

/-- the loop, started anywhere with anything pending, on any matrix -/
theorem btLoopBuf_eq (P : Nat → Nat → Int) :
    ∀ (fuel i j : Nat) (ldiag lup lleft : Int) (acc : Path) (buf : Array Int) (p : Nat),
      Rep buf p acc → (lup = 0 ∨ lleft = 0) → 2 * (i + j) ≤ p →
      ((ldiag ≠ 0 ∨ lup ≠ 0 ∨ lleft ≠ 0) → 2 * (i + j) + 2 ≤ p) →
      (btLoopBuf P fuel i j ldiag lup lleft buf p).map (fun r => r.1.toList.drop r.2)
          = btLoop P fuel i j ldiag lup lleft acc ∧
        ∀ b q, btLoopBuf P fuel i j ldiag lup lleft buf p = some (b, q) →
          b.size = buf.size ∧ q ≤ p ∧ p ≤ q + 2 * (i + j) + 2 ∧
            ((ldiag = 0 ∧ lup = 0 ∧ lleft = 0) → p ≤ q + 2 * (i + j)) := by
  intro fuel
  induction fuel with
  | zero =>
    intro i j ldiag lup lleft acc buf p _ _ _ _
    refine ⟨rfl, ?_⟩
    intro b q h
    simp [btLoopBuf] at h
  | succ fuel ih =>
    intro i j ldiag lup lleft acc buf p hrep hb hr1 hr2
    rw [btLoop_succ, btLoopBuf]
    by_cases h0 : i = 0 ∧ j = 0
    · simp only [h0, and_self, if_true]
      obtain ⟨b, q, e, r, s, hq1, hq2, hq3⟩ := finishBuf_spec ldiag lup lleft hrep hb (by omega)
      rw [e]
      refine ⟨by simp only [Option.map_some, r.2], ?_⟩
      intro b' q' h
      simp only [Option.some.injEq, Prod.mk.injEq] at h
      obtain ⟨rfl, rfl⟩ := h
      exact ⟨s, hq1, by omega, by omega⟩
    · simp only [h0, if_false]
      generalize P i j = step
      by_cases hs0 : step = 0
      · simp only [hs0, if_true]
        by_cases hij : i = 0 ∨ j = 0
        · simp only [hij, if_true]
          exact ⟨rfl, fun b q h => by simp at h⟩
        · simp only [hij, if_false]
          obtain ⟨b1, q1, e1, r1, s1, z1, n1⟩ := flushIf_spec lleft ldiag hrep (by omega)
          obtain ⟨b2, q2, e2, r2, s2, z2, n2⟩ :=
            flushIf_spec lup (flushIfL lleft ldiag acc).1 r1 (by omega)
          simp only [e1, e2]
          have := ih (i - 1) (j - 1)
            ((flushIfL lup (flushIfL lleft ldiag acc).1 (flushIfL lleft ldiag acc).2.2).1 + 1)
            (flushIfL lup (flushIfL lleft ldiag acc).1 (flushIfL lleft ldiag acc).2.2).2.1
            (flushIfL lleft ldiag acc).2.1 _ b2 q2 r2 (Or.inl (flushIfL_snd _ _ _)) (by omega)
            (fun _ => by omega)
          refine ⟨this.1, ?_⟩
          intro b q h
          have := this.2 b q h
          omega
      · simp only [hs0, if_false]
        by_cases hsp : step > 0
        · simp only [hsp, if_true]
          by_cases hj : j < step.toNat
          · simp only [hj, if_true]
            exact ⟨rfl, fun b q h => by simp at h⟩
          · simp only [hj, if_false]
            obtain ⟨b1, q1, e1, r1, s1, z1, n1⟩ := flushIf_spec lup ldiag hrep (by omega)
            simp only [e1]
            have := ih i (j - step.toNat) (flushIfL lup ldiag acc).1 (flushIfL lup ldiag acc).2.1
              (lleft + step) _ b1 q1 r1 (Or.inl (flushIfL_snd _ _ _)) (by omega) (fun _ => by omega)
            refine ⟨this.1, ?_⟩
            intro b q h
            have := this.2 b q h
            omega
        · simp only [hsp, if_false]
          by_cases hi : i < (-step).toNat
          · simp only [hi, if_true]
            exact ⟨rfl, fun b q h => by simp at h⟩
          · simp only [hi, if_false]
            obtain ⟨b1, q1, e1, r1, s1, z1, n1⟩ := flushIf_spec lleft ldiag hrep (by omega)
            simp only [e1]
            have := ih (i - (-step).toNat) j (flushIfL lleft ldiag acc).1 (lup + step)
              (flushIfL lleft ldiag acc).2.1 _ b1 q1 r1 (Or.inr (flushIfL_snd _ _ _)) (by omega)
              (fun _ => by omega)
            refine ⟨this.1, ?_⟩
            intro b q h
            have := this.2 b q h
            omega

theorem growPath_size (buf0 : Array Int) (needed : Nat) : needed ≤ (growPath buf0 needed).size := by
  unfold growPath
  by_cases h : buf0.size < needed
  · simp [h]
  · simp only [h, if_false]; omega

/-- the buffer written from its end holds exactly the list built by prepending, for EVERY path matrix `P`
(also ones that make the loop fail: `none` on both sides) and EVERY previous content / capacity of the
buffer; in particular the index `p` never underflows: 2·(la+lb) cells are always enough -/
theorem backtrackBuf_eq (P : Nat → Nat → Int) (la lb : Nat) (buf0 : Array Int) :
    (backtrackBuf P la lb buf0).map (·.1) = backtrack P la lb := by
  have hg := growPath_size buf0 ((la + lb) * 2)
  have hrep : Rep (growPath buf0 ((la + lb) * 2)) (growPath buf0 ((la + lb) * 2)).size [] :=
    ⟨Nat.le_refl _, by simp⟩
  have h := (btLoopBuf_eq P (la + lb + 1) la lb 0 0 0 [] _ _ hrep (Or.inl rfl) (by omega)
    (fun h => by omega)).1
  unfold backtrack
  rw [← h]
  dsimp only [backtrackBuf]
  generalize btLoopBuf P (la + lb + 1) la lb 0 0 0 (growPath buf0 ((la + lb) * 2))
    (growPath buf0 ((la + lb) * 2)).size = o
  cases o <;> rfl

/-- the buffer keeps its capacity and the path fits in `2·(la+lb)` cells, whatever the capacity -/
theorem backtrackBuf_size (P : Nat → Nat → Int) (la lb : Nat) (buf0 : Array Int) (p : Path)
    (b : Array Int) (h : backtrackBuf P la lb buf0 = some (p, b)) :
    b.size = (growPath buf0 ((la + lb) * 2)).size ∧ p.length ≤ (la + lb) * 2 := by
  have hg := growPath_size buf0 ((la + lb) * 2)
  have hrep : Rep (growPath buf0 ((la + lb) * 2)) (growPath buf0 ((la + lb) * 2)).size [] :=
    ⟨Nat.le_refl _, by simp⟩
  have h2 := (btLoopBuf_eq P (la + lb + 1) la lb 0 0 0 [] _ _ hrep (Or.inl rfl) (by omega)
    (fun h => by omega)).2
  dsimp only [backtrackBuf] at h
  cases hc : btLoopBuf P (la + lb + 1) la lb 0 0 0 (growPath buf0 ((la + lb) * 2))
    (growPath buf0 ((la + lb) * 2)).size with
  | none => rw [hc] at h; simp at h
  | some r =>
    obtain ⟨b', q⟩ := r
    rw [hc] at h
    simp only [Option.some.injEq, Prod.mk.injEq] at h
    obtain ⟨rfl, rfl⟩ := h
    have := h2 b' q hc
    refine ⟨this.1, ?_⟩
    simp only [List.length_drop, Array.length_toList]
    omega

/-- a 2×2 matrix (diagonal, one base of B alone, one base of A alone) on a junk arena buffer that is too
small, and on one that is larger than needed -/
example :
    backtrackBuf (fun i j => if i = 2 then 0 else if j = 1 then 1 else -1) 2 2 #[7, 7, 7]
      = some ([-1, 0, 1, 1], #[0, 0, 0, 0, -1, 0, 1, 1]) := by decide

example :
    backtrackBuf (fun i j => if i = 2 then 0 else if j = 1 then 1 else -1) 2 2
        #[7, 7, 7, 7, 7, 7, 7, 7, 7, 7]
      = some ([-1, 0, 1, 1], #[7, 7, 7, 7, 7, 7, -1, 0, 1, 1]) := by decide

end ObiVerif.PEAlign
