import ObiVerif.Model.NgsFilter
/-! helper lemmas for C12: the `@param` lines of a sample sheet only touch parameters -/
namespace ObiVerif.NgsFilter

open ObiVerif.Demux (Sample checkTagLength primerUnicity)

/-- what no `@param` line may change: the primers and the tag pair → sample table -/
def key (m : LMarker) : String × String × List Sample := (m.fp, m.rp, m.samples)

theorem setSide_key (m m' : LMarker) (fld : Field) (fwd : Bool) (v : Val)
    (h : setSide m fld fwd v = some m') : key m' = key m := by
  unfold setSide at h
  split at h
  all_goals first
    | (injection h with h; subst h; cases fwd <;> rfl)
    | (split at h
       · injection h with h; subst h; cases fwd <;> rfl
       · exact absurd h (by simp))
    | (injection h with h; subst h; rfl)

theorem mapM_key (f : LMarker → Option LMarker)
    (hf : ∀ m m', f m = some m' → key m' = key m) (lib l : Lib)
    (h : lib.mapM f = some l) : l.map key = lib.map key := by
  induction lib generalizing l with
  | nil => simp at h; subst h; rfl
  | cons a t ih =>
    rw [List.mapM_cons] at h
    cases ha : f a with
    | none => simp [ha] at h
    | some b =>
      cases ht : t.mapM f with
      | none => simp [ha, ht] at h
      | some bs =>
        simp [ha, ht] at h
        subst h
        simp [hf a b ha, ih bs ht]

theorem setAll_key (lib l : Lib) (fld : Field) (fwd : Bool) (v : Val)
    (h : setAll lib fld fwd v = .ok l) : l.map key = lib.map key := by
  unfold setAll at h
  split at h
  · rename_i l' hm
    injection h with h; subst h
    exact mapM_key _ (fun m m' => setSide_key m m' fld fwd v) lib _ hm
  · exact absurd h (by simp)

theorem setFor_key (lib l : Lib) (fld : Field) (p : String) (v : Val)
    (h : setFor lib fld p v = .ok l) : l.map key = lib.map key := by
  unfold setFor at h
  simp only at h
  split at h
  · injection h with h; subst h; rfl
  · rename_i owner _
    split at h
    · rename_i l' hm
      injection h with h; subst h
      refine mapM_key _ ?_ lib _ hm
      intro m m' hmm
      split at hmm
      · exact setSide_key m m' fld _ v hmm
      · injection hmm with hmm; subst hmm; rfl
    · exact absurd h (by simp)

theorem applySpec_key (lib l : Lib) (sp : PSpec) (vals : List String)
    (h : applySpec lib sp vals = .ok l) : l.map key = lib.map key := by
  unfold applySpec at h
  split at h
  · -- both, one value
    cases hc : conv sp.fld ‹String› with
    | error e => simp [hc, bind, Except.bind] at h
    | ok x =>
      simp only [hc, bind, Except.bind] at h
      cases h1 : setAll lib sp.fld true x with
      | error e => simp [h1] at h
      | ok l1 =>
        simp only [h1] at h
        rw [setAll_key l1 l _ _ _ h, setAll_key lib l1 _ _ _ h1]
  · cases hc : conv sp.fld ‹String› with
    | error e => simp [hc, bind, Except.bind] at h
    | ok x =>
      simp only [hc, bind, Except.bind] at h
      exact setFor_key lib l _ _ _ h
  · split at h
    · exact absurd h (by simp)
    · injection h with h; subst h; rfl
  · cases hc : conv sp.fld ‹String› with
    | error e => simp [hc, bind, Except.bind] at h
    | ok x =>
      simp only [hc, bind, Except.bind] at h
      exact setAll_key lib l _ _ _ h
  · cases hc : conv sp.fld ‹String› with
    | error e => simp [hc, bind, Except.bind] at h
    | ok x =>
      simp only [hc, bind, Except.bind] at h
      exact setAll_key lib l _ _ _ h
  · exact absurd h (by simp)

theorem applyMatching_key (lib l : Lib) (vals : List String)
    (h : applyMatching lib vals = .ok l) : l.map key = lib.map key := by
  unfold applyMatching at h
  split at h
  · split at h
    · injection h with h; subst h
      simp [List.map_map, Function.comp_def, key]
    · split at h
      · injection h with h; subst h; rfl
      · exact absurd h (by simp)
  · exact absurd h (by simp)

theorem applyParam_key (lib l : Lib) (name : String) (vals : List String)
    (h : applyParam lib name vals = .ok l) : l.map key = lib.map key := by
  unfold applyParam at h
  split at h
  · exact applyMatching_key lib l vals h
  · split at h
    · exact applySpec_key lib l _ vals h
    · injection h with h; subst h; rfl

theorem applyParams_key (lib l : Lib) (ps : List (List String))
    (h : applyParams lib ps = .ok l) : l.map key = lib.map key := by
  induction ps generalizing lib with
  | nil => simp [applyParams] at h; subst h; rfl
  | cons r rest ih =>
    unfold applyParams at h
    split at h
    · rename_i name v vs
      cases h1 : applyParam lib name (v :: vs) with
      | error e => simp [h1, bind, Except.bind] at h
      | ok l1 =>
        simp only [h1, bind, Except.bind] at h
        rw [ih l1 h, applyParam_key lib l1 _ _ h1]
    · exact absurd h (by simp)
    · exact absurd h (by simp)

theorem unicity_of_key (lib l : Lib) (h : l.map key = lib.map key) : unicity l = unicity lib := by
  unfold unicity
  have : l.map (fun m => (m.fp, m.rp)) = lib.map (fun m => (m.fp, m.rp)) := by
    have := congrArg (List.map (fun (k : String × String × List Sample) => (k.1, k.2.1))) h
    simpa [List.map_map, Function.comp_def, key] using this
  rw [this]

theorem readCsv_unicity (recs : List (List String)) (lib : Lib) (h : readCsv recs = .ok lib) :
    unicity lib = true := by
  unfold readCsv at h
  simp only [bind, Except.bind] at h
  split at h
  · exact absurd h (by simp)
  · split at h
    · exact absurd h (by simp)
    · split at h
      · split at h
        · exact absurd h (by simp)
        · rename_i lib0 hfold
          split at h
          · exact absurd h (by simp)
          · rename_i hu
            rw [unicity_of_key lib0 lib (applyParams_key lib0 lib _ h)]
            simpa using hu
      · exact absurd h (by simp)

/-- a CSV sheet accepted by the reader: no primer is used twice, and in every marker all forward
tags have the same length and all reverse tags have the same length -/
theorem readSheetCsv_wf (recs : List (List String)) (lib : Lib) (h : readSheetCsv recs = .ok lib) :
    unicity lib = true ∧ tagLengthsOk lib = true := by
  unfold readSheetCsv at h
  simp only [bind, Except.bind, pure, Except.pure] at h
  split at h
  · exact absurd h (by simp)
  · cases hr : readCsv recs with
    | error e => simp [hr] at h
    | ok l =>
      simp only [hr] at h
      split at h
      · exact absurd h (by simp)
      · rename_i ht
        injection h with h; subst h
        exact ⟨readCsv_unicity recs l hr, by simpa using ht⟩

theorem readSheetOld_wf (lines : List String) (lib : Lib) (h : readSheetOld lines = .ok lib) :
    unicity lib = true ∧ tagLengthsOk lib = true := by
  unfold readSheetOld at h
  simp only [bind, Except.bind, pure, Except.pure] at h
  split at h
  · exact absurd h (by simp)
  · split at h
    · exact absurd h (by simp)
    · split at h
      · exact absurd h (by simp)
      · rename_i hu
        split at h
        · exact absurd h (by simp)
        · rename_i ht
          injection h with h; subst h
          exact ⟨by simpa using hu, by simpa using ht⟩

/-- the marker handed to the demultiplexer: the parameters as read, the tag lengths computed by
`CheckTagLength` -/
def toMarker (m : LMarker) : Option Demux.Marker :=
  (checkTagLength m.samples).map fun p =>
    ⟨m.fp, m.rp, p.1, p.2, m.fsp, m.rsp, m.fdl, m.rdl, m.fin, m.rin, m.fmode, m.rmode, m.samples⟩

end ObiVerif.NgsFilter
