import ObiVerif.Model.Uniq
/-!
# Lemmas on the classification part of the dereplication model (`group`, `subChunk`, `ff`, `terminals`)

`Spec fs b T` : the list of batches `T` is exactly the partition of batch `b` into the classes of
"same code under every classifier of `fs`": every batch of `T` is such a class (non-empty, members in
the order of `b`), every record of `b` has its class in `T`, two different batches of `T` never hold
records of the same class, and `T` flattened is a permutation of `b`.
-/
namespace ObiVerif.Uniq

/-- `r` has the same code as `x` under every classifier of `fs` -/
def same (fs : List (Rec → Code)) (x r : Rec) : Bool := decide (∀ g ∈ fs, g r = g x)

theorem same_iff {fs : List (Rec → Code)} {x r : Rec} : same fs x r = true ↔ ∀ g ∈ fs, g r = g x := by
  simp [same]

theorem same_false_iff {fs : List (Rec → Code)} {x r : Rec} :
    same fs x r = false ↔ ¬ ∀ g ∈ fs, g r = g x := by
  simp [same]

theorem same_refl (fs : List (Rec → Code)) (x : Rec) : same fs x x = true := by simp [same]

theorem same_cons (f : Rec → Code) (fs : List (Rec → Code)) (x r : Rec) :
    same (f :: fs) x r = (decide (f r = f x) && same fs x r) := by
  simp [same]

structure Spec (fs : List (Rec → Code)) (b : List Rec) (T : List (List Rec)) : Prop where
  cls : ∀ t ∈ T, ∃ x ∈ t, t = b.filter (same fs x)
  cover : ∀ x ∈ b, b.filter (same fs x) ∈ T
  sep : T.Pairwise (fun t t' => ∀ a ∈ t, ∀ a' ∈ t', same fs a a' = false)
  perm : T.flatten.Perm b

theorem Spec.ne_nil {fs b T} (h : Spec fs b T) : ∀ t ∈ T, t ≠ [] := by
  intro t ht e
  obtain ⟨x, hx, _⟩ := h.cls t ht
  simp [e] at hx

theorem Spec.sub {fs b T} (h : Spec fs b T) : ∀ t ∈ T, ∀ a ∈ t, a ∈ b := by
  intro t ht a ha
  obtain ⟨x, _, e⟩ := h.cls t ht
  rw [e] at ha
  exact (List.mem_filter.mp ha).1

/-! ## `group` -/

theorem filter_ne_filter_same (f : Rec → Code) (x y : Rec) (t : List Rec) (hy : ¬ f y = f x) :
    (t.filter (fun r => decide (¬ f r = f x))).filter (same [f] y) = t.filter (same [f] y) := by
  rw [List.filter_filter]
  apply List.filter_congr
  intro r _
  by_cases h : f r = f y
  · simp [same, h, hy]
  · simp [same, h]

theorem filter_cons_ne_same (f : Rec → Code) (x y : Rec) (t : List Rec) (hy : ¬ f y = f x) :
    (x :: t).filter (same [f] y) = t.filter (same [f] y) := by
  have : same [f] y x = false := by
    simp only [same_false_iff]; intro h; exact hy (h f (by simp)).symm
  simp [this]

theorem groupF_spec (f : Rec → Code) (n : Nat) (l : List Rec) (hn : l.length ≤ n) :
    Spec [f] l (groupF f n l) := by
  induction n generalizing l with
  | zero =>
    have : l = [] := List.eq_nil_of_length_eq_zero (by omega)
    subst this
    exact ⟨by simp [groupF], by simp, by simp [groupF], by simp [groupF]⟩
  | succ n ih =>
    cases l with
    | nil => exact ⟨by simp [groupF], by simp, by simp [groupF], by simp [groupF]⟩
    | cons x t =>
      have hlen : (t.filter (fun r => decide (¬ f r = f x))).length ≤ n := by
        have := List.length_filter_le (fun r => decide (¬ f r = f x)) t
        simp only [List.length_cons] at hn; omega
      have IH := ih _ hlen
      have g0 : (x :: t).filter (same [f] x) = x :: t.filter (fun r => decide (f r = f x)) := by
        rw [List.filter_cons, same_refl]
        simp only [if_true, List.cons.injEq, true_and]
        apply List.filter_congr; intro r _; simp [same]
      have hrest : ∀ g ∈ groupF f n (t.filter (fun r => decide (¬ f r = f x))),
          ∀ a ∈ g, a ∈ t ∧ ¬ f a = f x := by
        intro g hg a ha
        have := IH.sub g hg a ha
        simpa using this
      simp only [groupF]
      constructor
      · intro g hg
        rcases List.mem_cons.mp hg with e | hg
        · exact ⟨x, by simp [e], by rw [e, g0]⟩
        · obtain ⟨y, hy, e⟩ := IH.cls g hg
          have hyx := (hrest g hg y hy).2
          refine ⟨y, hy, ?_⟩
          rw [e, filter_ne_filter_same f x y t hyx, filter_cons_ne_same f x y t hyx]
      · intro z hz
        by_cases hzx : f z = f x
        · have : (x :: t).filter (same [f] z) = (x :: t).filter (same [f] x) := by
            apply List.filter_congr; intro r _; simp [same, hzx]
          rw [this, g0]; simp
        · have hzt : z ∈ t := by
            rcases List.mem_cons.mp hz with e | h
            · exact absurd (by rw [e]) hzx
            · exact h
          have hz' : z ∈ t.filter (fun r => decide (¬ f r = f x)) := by simp [hzt, hzx]
          have := IH.cover z hz'
          rw [filter_ne_filter_same f x z t hzx] at this
          rw [filter_cons_ne_same f x z t hzx]
          exact List.mem_cons_of_mem _ this
      · refine List.pairwise_cons.mpr ⟨?_, IH.sep⟩
        intro g hg a ha a' ha'
        have h1 : f a = f x := by
          rcases List.mem_cons.mp ha with e | h
          · rw [e]
          · simpa using (List.mem_filter.mp h).2
        have h2 := (hrest g hg a' ha').2
        simp only [same_false_iff]
        intro h; exact h2 ((h f (by simp)).trans h1)
      · simp only [List.flatten_cons, List.cons_append]
        refine List.Perm.cons x ?_
        have p1 := IH.perm
        have p2 := List.filter_append_perm (fun r => decide (f r = f x)) t
        have e : (fun r => !decide (f r = f x)) = (fun r => decide (¬ f r = f x)) := by
          funext r; simp
        rw [e] at p2
        exact (List.Perm.append_left _ p1).trans p2

theorem group_spec (f : Rec → Code) (l : List Rec) : Spec [f] l (group f l) :=
  groupF_spec f l.length l (Nat.le_refl _)

/-! ## composition -/

theorem perm_flatMap_flatten (G : List (List Rec)) (T : List Rec → List (List Rec))
    (h : ∀ g ∈ G, (T g).flatten.Perm g) : (G.flatMap T).flatten.Perm G.flatten := by
  induction G with
  | nil => simp
  | cons g G' ih =>
    simp only [List.flatMap_cons, List.flatten_append, List.flatten_cons]
    exact List.Perm.append (h g (by simp)) (ih fun g' hg' => h g' (List.mem_cons_of_mem _ hg'))

theorem filter_filter_same (f : Rec → Code) (fs : List (Rec → Code)) (b : List Rec) (x y : Rec)
    (hxy : f x = f y) :
    (b.filter (same [f] y)).filter (same fs x) = b.filter (same (f :: fs) x) := by
  rw [List.filter_filter]
  apply List.filter_congr
  intro r _
  have : same [f] y r = decide (f r = f x) := by simp [same, hxy]
  rw [this, same_cons f fs x r, Bool.and_comm]

theorem Spec.comp {f : Rec → Code} {fs : List (Rec → Code)} {b : List Rec} {G : List (List Rec)}
    {T : List Rec → List (List Rec)} (hG : Spec [f] b G) (hT : ∀ g ∈ G, Spec fs g (T g)) :
    Spec (f :: fs) b (G.flatMap T) := by
  constructor
  · intro t ht
    obtain ⟨g, hg, htg⟩ := List.mem_flatMap.mp ht
    obtain ⟨x, hx, e⟩ := (hT g hg).cls t htg
    obtain ⟨y, _, eg⟩ := hG.cls g hg
    have hxg : x ∈ g := (hT g hg).sub t htg x hx
    have hxy : f x = f y := by
      rw [eg] at hxg
      exact same_iff.mp (List.mem_filter.mp hxg).2 f (by simp)
    exact ⟨x, hx, by rw [e, eg, filter_filter_same f fs b x y hxy]⟩
  · intro x hx
    have hg := hG.cover x hx
    have hxg : x ∈ b.filter (same [f] x) := List.mem_filter.mpr ⟨hx, same_refl _ _⟩
    have := (hT _ hg).cover x hxg
    rw [filter_filter_same f fs b x x rfl] at this
    exact List.mem_flatMap.mpr ⟨_, hg, this⟩
  · rw [List.pairwise_flatMap]
    constructor
    · intro g hg
      refine List.Pairwise.imp ?_ (hT g hg).sep
      intro t t' h a ha a' ha'
      have := h a ha a' ha'
      rw [same_cons, this]; simp
    · refine List.Pairwise.imp_of_mem ?_ hG.sep
      intro g g' hg hg' h t ht t' ht' a ha a' ha'
      have := h a ((hT g hg).sub t ht a ha) a' ((hT g' hg').sub t' ht' a' ha')
      rw [same_cons]
      have : decide (f a' = f a) = false := by
        simp only [same_false_iff] at this
        simp only [decide_eq_false_iff_not]
        intro e; apply this; intro g hg; simp at hg; subst hg; exact e
      rw [this]; simp
  · exact (perm_flatMap_flatten G T fun g hg => (hT g hg).perm).trans hG.perm

theorem Spec.single (fs : List (Rec → Code)) (x : Rec) : Spec fs [x] [[x]] := by
  refine ⟨?_, ?_, by simp, by simp⟩
  · intro t ht
    simp only [List.mem_singleton] at ht
    subst ht
    exact ⟨x, by simp, by simp [same_refl]⟩
  · intro y hy
    simp only [List.mem_singleton] at hy
    subst hy
    simp [same_refl]

theorem Spec.nil_fs (b : List Rec) (hb : b ≠ []) : Spec [] b [b] := by
  have e : ∀ x, b.filter (same [] x) = b := by
    intro x; rw [List.filter_eq_self]; intro a _; simp [same]
  refine ⟨?_, ?_, by simp, by simp⟩
  · intro t ht
    simp only [List.mem_singleton] at ht
    subst ht
    cases t with
    | nil => exact absurd rfl hb
    | cons x t => exact ⟨x, by simp, (e x).symm⟩
  · intro x _
    simp [e x]

/-! ## `subChunk`, `ff`, `terminals` -/

theorem subChunk_spec (f : Rec → Code) (b : List Rec) (hb : b ≠ []) : Spec [f] b (subChunk f b) := by
  unfold subChunk
  split
  · exact group_spec f b
  · next h =>
    cases b with
    | nil => exact absurd rfl hb
    | cons x t =>
      have : t = [] := List.eq_nil_of_length_eq_zero (by simp only [List.length_cons] at h; omega)
      subst this
      exact Spec.single [f] x

theorem ff_spec (fs : List (Rec → Code)) : ∀ (f : Rec → Code) (b : List Rec), b ≠ [] →
    Spec (f :: fs) b (ff f fs b) := by
  induction fs with
  | nil => intro f b hb; exact subChunk_spec f b hb
  | cons f' fs' ih =>
    intro f b hb
    have h0 := subChunk_spec f b hb
    simp only [ff]
    refine Spec.comp h0 ?_
    intro sb hsb
    split
    · next h1 =>
      cases sb with
      | nil => simp at h1
      | cons x t =>
        have : t = [] := List.eq_nil_of_length_eq_zero (by simp only [List.length_cons] at h1; omega)
        subst this
        exact Spec.single _ x
    · exact ih f' sb (h0.ne_nil sb hsb)

theorem terminals_spec (h : Seq → Nat) (o : Opts) (input : List Rec) :
    Spec (hashC h :: seqC :: catCs o) input (terminals h o input) := by
  have h0 := group_spec (hashC h) input
  exact Spec.comp h0 fun g hg => ff_spec (catCs o) seqC g (h0.ne_nil g hg)

/-! ## the key -/

/-- the dereplication key of a record: nucleotide string and the values of the category
attributes, missing values replaced by the NA value -/
def key (o : Opts) (r : Rec) : Seq × List String := (r.seq, o.cats.map fun c => r.value c o.na)

theorem key_eq_iff (o : Opts) (r x : Rec) :
    key o r = key o x ↔ r.seq = x.seq ∧ ∀ c ∈ o.cats, r.value c o.na = x.value c o.na := by
  unfold key
  rw [Prod.mk.injEq, List.map_inj_left]

theorem same_key (h : Seq → Nat) (o : Opts) (x r : Rec) :
    same (hashC h :: seqC :: catCs o) x r = decide (key o r = key o x) := by
  have : (∀ g ∈ hashC h :: seqC :: catCs o, g r = g x) ↔ key o r = key o x := by
    rw [key_eq_iff]
    constructor
    · intro hh
      refine ⟨?_, ?_⟩
      · have := hh seqC (List.mem_cons_of_mem _ List.mem_cons_self)
        simpa [seqC] using this
      · intro c hc
        have hm : catC o.na c ∈ hashC h :: seqC :: catCs o := by
          refine List.mem_cons_of_mem _ (List.mem_cons_of_mem _ ?_)
          exact List.mem_map.mpr ⟨c, List.mem_reverse.mpr hc, rfl⟩
        have := hh (catC o.na c) hm
        simpa [catC] using this
    · rintro ⟨h1, h2⟩ g hg
      rcases List.mem_cons.mp hg with e | hg
      · subst e; simp [hashC, h1]
      · rcases List.mem_cons.mp hg with e | hg
        · subst e; simp [seqC, h1]
        · obtain ⟨c, hc, e⟩ := List.mem_map.mp hg
          subst e
          simp [catC, h2 c (List.mem_reverse.mp hc)]
  unfold same
  exact decide_eq_decide.mpr this

/-- the batches that reach the merge stage are exactly the classes of the key -/
theorem terminals_classes (h : Seq → Nat) (o : Opts) (input : List Rec) :
    let T := terminals h o input
    (∀ t ∈ T, ∃ x ∈ t, t = input.filter (fun r => decide (key o r = key o x))) ∧
    (∀ x ∈ input, input.filter (fun r => decide (key o r = key o x)) ∈ T) ∧
    T.Pairwise (fun t t' => ∀ a ∈ t, ∀ a' ∈ t', key o a ≠ key o a') ∧
    T.flatten.Perm input := by
  have S := terminals_spec h o input
  have e : ∀ x, input.filter (same (hashC h :: seqC :: catCs o) x) =
      input.filter (fun r => decide (key o r = key o x)) := by
    intro x; apply List.filter_congr; intro r _; exact same_key h o x r
  refine ⟨?_, ?_, ?_, S.perm⟩
  · intro t ht
    obtain ⟨x, hx, et⟩ := S.cls t ht
    exact ⟨x, hx, et.trans (e x)⟩
  · intro x hx
    rw [← e x]; exact S.cover x hx
  · refine List.Pairwise.imp ?_ S.sep
    intro t t' hh a ha a' ha' ek
    have := hh a ha a' ha'
    rw [same_key, ek.symm] at this
    simp at this

end ObiVerif.Uniq
