import ObiVerif.Props.C10
/-!
# The matcher on a circular sequence (C10 / C11)

`new_apatseq` copies the first `MAX_PAT_LEN` symbols of a circular sequence behind its end and the automaton scans
that buffer: a hit at `i` (which may be `≥ len`: the same site is then reported a second time) says that the pattern
matches the word read on the circle from position `i mod len`.  `findAllIndex_exact_circular` is the circular
counterpart of `findAllIndex_exact`; the word read on the circle is `(d ++ d).drop (i mod len)`, `d` the encoded
sequence (`hamCost` reads only the first `patlen` symbols of it).

Domain: the pattern is not longer than the sequence (`hL`).  On a circular sequence of fewer than `MAX_PAT_LEN`
symbols the C encoder reads `MAX_PAT_LEN` symbols whatever the length; the model copies what exists
(`d.take 64 = d`), which is what the C code sees as long as no pattern is longer than the sequence.
-/
namespace ObiVerif.Apat

/-- the buffer of a circular sequence, seen from a position `< len`, reads like the doubled sequence -/
theorem hamCost_circ_lo (codes d : List Nat) (n i : Nat) (hi : i ≤ d.length)
    (h : i + codes.length ≤ d.length + min n d.length) :
    hamCost codes ((d ++ d.take n).drop i) = hamCost codes ((d ++ d).drop i) := by
  have hsplit : d ++ d = (d ++ d.take n) ++ d.drop n := by
    rw [List.append_assoc, List.take_append_drop]
  have hdrop : (d ++ d.take n ++ d.drop n).drop i = (d ++ d.take n).drop i ++ d.drop n :=
    List.drop_append_of_le_length (by simp only [List.length_append]; omega)
  rw [hsplit, hdrop,
    hamCost_append_right _ _ _ (by simp only [List.length_drop, List.length_append, List.length_take]; omega)]

/-- … and from a position `≥ len` like the doubled sequence one turn earlier -/
theorem hamCost_circ_hi (codes d : List Nat) (n i : Nat) (hi : d.length ≤ i)
    (h : i + codes.length ≤ d.length + min n d.length) :
    hamCost codes ((d ++ d.take n).drop i) = hamCost codes ((d ++ d).drop (i - d.length)) := by
  have h1 : (d ++ d.take n).drop i = (d.take n).drop (i - d.length) := by
    rw [List.drop_append, List.drop_of_length_le hi, List.nil_append]
  have h2 : (d ++ d).drop (i - d.length) = (d.take n).drop (i - d.length) ++ (d.drop n ++ d) := by
    rw [← List.append_assoc, ← List.drop_append_of_le_length (by simp only [List.length_take]; omega),
      List.take_append_drop, List.drop_append_of_le_length (by omega)]
  rw [h1, h2, hamCost_append_right _ _ _ (by simp only [List.length_drop, List.length_take]; omega)]

/-- the word read in the buffer at any reported position is the word read on the circle from `i mod len` -/
theorem hamCost_circ (codes d : List Nat) (n i : Nat) (h : i + codes.length ≤ d.length + min n d.length)
    (hc : 1 ≤ codes.length) :
    hamCost codes ((d ++ d.take n).drop i) = hamCost codes ((d ++ d).drop (i % d.length)) := by
  by_cases hi : i < d.length
  · rw [Nat.mod_eq_of_lt hi]
    exact hamCost_circ_lo codes d n i (by omega) h
  · have hlt : i - d.length < d.length := by omega
    rw [Nat.mod_eq_sub_mod (by omega), Nat.mod_eq_of_lt hlt]
    exact hamCost_circ_hi codes d n i (by omega) h

theorem seqData_circular_length (seq : Bytes) :
    (seqData seq true).length = seq.length + min Gen.apatMaxPatLen seq.length := by
  simp [seqData]

/-- **`ApatPattern.FindAllIndex` on a circular sequence, mismatch-only** (`findAllIndex_exact_circular`): the `[3]int`
triples are exactly `(i, i+m, k)` for the positions `i ≥ max(begin, 0)` of the extended buffer
(`i + m ≤ min(begin + length + MAX_PAT_LEN, len + min(MAX_PAT_LEN, len))`, `length < 0` meaning the sequence length)
where the pattern is at Hamming distance `k ≤ maxerr` from the word read ON THE CIRCLE from position `i mod len`. -/
theorem findAllIndex_exact_circular (P : Pattern) (seq : Bytes) (begin length : Int)
    (hmode : P.hasIndel = false ∨ P.maxerr = 0) (hm1 : 1 ≤ P.patlen) (hm : P.patlen ≤ 63)
    (s e k : Int) :
    (s, e, k) ∈ findAllIndex P seq true begin length ↔
      ∃ i' k' : Nat, s = (i' : Int) ∧ e = (i' : Int) + P.patlen ∧ k = (k' : Int) ∧
        (if begin < 0 then 0 else begin).toNat ≤ i' ∧
        i' + P.patlen ≤ min ((if begin < 0 then 0 else begin).toNat +
            ((if length < 0 then (seq.length : Int) else length).toNat + Gen.apatMaxPatLen))
            (seq.length + min Gen.apatMaxPatLen seq.length) ∧
        hamCost P.codes ((seq.map encodeByte ++ seq.map encodeByte).drop (i' % seq.length)) = some k' ∧
        k' ≤ P.maxerr := by
  have hd : ∀ c ∈ seqData seq true, c < 26 := by
    intro c hc
    simp only [seqData, if_true, List.mem_append] at hc
    rcases hc with hc | hc
    · exact Props.C10.encode_lt seq c hc
    · exact Props.C10.encode_lt seq c (List.mem_of_mem_take hc)
  have hword : ∀ i' : Nat, i' + P.patlen ≤ seq.length + min Gen.apatMaxPatLen seq.length →
      hamCost P.codes ((seqData seq true).drop i') =
        hamCost P.codes ((seq.map encodeByte ++ seq.map encodeByte).drop (i' % seq.length)) := by
    intro i' h
    have := hamCost_circ P.codes (seq.map encodeByte) Gen.apatMaxPatLen i'
      (by simpa [Pattern.patlen] using h) hm1
    simpa [seqData] using this
  have hlen := seqData_circular_length seq
  unfold findAllIndex
  simp only [List.mem_map, Prod.mk.injEq, Prod.exists]
  constructor
  · rintro ⟨a, b, hmem, h1, h2, h3⟩
    obtain ⟨i', hi, hb, he, hc, hk⟩ := (Props.C10.manberAll_exact P _ _ _ hmode hm1 hm hd a b).1 hmem
    rw [hlen] at he
    refine ⟨i', b, by omega, by omega, by omega, hb, he, ?_, hk⟩
    rw [← hword i' (by omega)]
    exact hc
  · rintro ⟨i', k', h1, h2, h3, hb, he, hc, hk⟩
    refine ⟨(i' : Int), k', ?_, by omega, by omega, by omega⟩
    refine (Props.C10.manberAll_exact P _ _ _ hmode hm1 hm hd _ _).2 ⟨i', rfl, hb, by rw [hlen]; exact he, ?_, hk⟩
    rw [hword i' (by omega)]
    exact hc

/-- the search over the whole circle (`begin = 0`, `length < 0` or `≥ len`) for a pattern not longer than the
sequence: the hits that START inside the sequence (`i < len`, what `_Pcr` keeps) are exactly the sites of the circle -/
theorem findAllIndex_circular_all (P : Pattern) (seq : Bytes) (begin length : Int)
    (hmode : P.hasIndel = false ∨ P.maxerr = 0) (hm1 : 1 ≤ P.patlen) (hm : P.patlen ≤ 63)
    (hL : P.patlen ≤ seq.length) (hb : begin ≤ 0) (hl : length < 0 ∨ (seq.length : Int) ≤ length)
    (s e k : Int) :
    ((s, e, k) ∈ findAllIndex P seq true begin length ∧ s < seq.length) ↔
      ∃ i' k' : Nat, s = (i' : Int) ∧ e = (i' : Int) + P.patlen ∧ k = (k' : Int) ∧ i' < seq.length ∧
        hamCost P.codes ((seq.map encodeByte ++ seq.map encodeByte).drop i') = some k' ∧ k' ≤ P.maxerr := by
  rw [findAllIndex_exact_circular P seq begin length hmode hm1 hm]
  have h64 : Gen.apatMaxPatLen = 64 := by decide
  have hb0 : (if begin < 0 then 0 else begin).toNat = 0 := by split <;> omega
  have hl0 : seq.length ≤ (if length < 0 then (seq.length : Int) else length).toNat := by split <;> omega
  constructor
  · rintro ⟨⟨i', k', h1, h2, h3, _, _, hc, hk⟩, hlt⟩
    have hi : i' < seq.length := by omega
    rw [Nat.mod_eq_of_lt hi] at hc
    exact ⟨i', k', h1, h2, h3, hi, hc, hk⟩
  · rintro ⟨i', k', h1, h2, h3, hi, hc, hk⟩
    refine ⟨⟨i', k', h1, h2, h3, by omega, ?_, ?_, hk⟩, by omega⟩
    · rw [hb0, h64]; omega
    · rw [Nat.mod_eq_of_lt hi]; exact hc

end ObiVerif.Apat
