import ObiVerif.Model.FlatFile
import ObiVerif.Lemmas.Genbank
import ObiVerif.Lemmas.FastaGrammar
import ObiVerif.Lemmas.ScanMax
/-!
# Flat files as rendered lines (property C01, record content of GenBank / EMBL)

A well-formed flat file is a list of lines, each followed by its own line end (`\n` or `\r\n`), the last
line end being optional (`renderLines`, `renderOpen`).  On such a text both line readers
(`bufio.Reader.ReadLine`, `bufio.Scanner`/`ScanLines`) hand over exactly the lines (`linesG_render`,
`linesG_renderOpen`); the text has regular line ends and lines as short as its lines
(`regularEol_render`, `shortLines_render`).  Small facts about `hasPrefix`, `splitN`, `atoi` on
well-formed values used by the two content proofs.
-/
namespace ObiVerif.Parse
open ObiVerif.Chunk

/-- the line end of a line: `\r\n` (true) or `\n` -/
def eolOf (crlf : Bool) : Seq := if crlf then [13, 10] else [10]

/-- lines, each followed by its line end -/
def renderLines : List (Seq × Bool) → Seq
  | [] => []
  | (l, f) :: t => l ++ eolOf f ++ renderLines t

/-- the same, the last line without its line end -/
def renderOpen : List (Seq × Bool) → Seq
  | [] => []
  | [(l, _)] => l
  | (l, f) :: t => l ++ eolOf f ++ renderOpen t

instance decNoEol (e : Seq) : Decidable (NoEol e) := by unfold NoEol; infer_instance

theorem noEol_ne10 {l : Seq} (h : NoEol l) : ∀ c ∈ l, c ≠ 10 := fun c hc => (not_eol_ne (h c hc)).1

theorem splitNl_line : ∀ (l cur : Seq), (∀ c ∈ l, c ≠ 10) → splitNl (l ++ [10]) cur = ([cur.reverse ++ l], []) := by
  intro l
  induction l with
  | nil => intro cur _; simp [splitNl]
  | cons c t ih =>
    intro cur h
    have hc : (c == 10) = false := by simpa using h c (by simp)
    simp only [List.cons_append, splitNl, hc]
    rw [ih (c :: cur) (fun x hx => h x (by simp [hx]))]
    simp

theorem dropCR_noEol {l : Seq} (h : NoEol l) : dropCR l = l := by
  rcases List.eq_nil_or_concat l with rfl | ⟨t, c, rfl⟩
  · rfl
  · have := (not_eol_ne (h c (by simp))).2
    simpa using dropCR_snoc_ne t c this

theorem linesG_one (g : Seq → Seq) {l : Seq} (h : NoEol l) (f : Bool) : linesG g (l ++ eolOf f ++ []) = [l] := by
  cases f with
  | false =>
    have e : l ++ eolOf false ++ [] = l ++ [10] := by simp [eolOf]
    rw [e]
    unfold linesG
    rw [splitNl_line l [] (noEol_ne10 h)]
    simp [dropCR_noEol h]
  | true =>
    have e : l ++ eolOf true ++ [] = (l ++ [13]) ++ [10] := by simp [eolOf]
    rw [e]
    unfold linesG
    rw [splitNl_line (l ++ [13]) [] (by
      intro c hc
      simp only [List.mem_append, List.mem_cons, List.not_mem_nil, or_false] at hc
      rcases hc with hc | rfl
      · exact noEol_ne10 h c hc
      · decide)]
    simp [dropCR_snoc_cr]

/-- a terminated line in front of any text is handed over as it is -/
theorem linesG_line (g : Seq → Seq) {l : Seq} (h : NoEol l) (f : Bool) (y : Seq) :
    linesG g (l ++ eolOf f ++ y) = l :: linesG g y := by
  have h1 := linesG_one g h f
  cases f with
  | false =>
    have e : l ++ eolOf false ++ y = l ++ 10 :: y := by simp [eolOf]
    rw [e, linesG_append]
    have : l ++ [10] = l ++ eolOf false ++ [] := by simp [eolOf]
    rw [this, h1]; rfl
  | true =>
    have e : l ++ eolOf true ++ y = (l ++ [13]) ++ 10 :: y := by simp [eolOf]
    rw [e, linesG_append]
    have : (l ++ [13]) ++ [10] = l ++ eolOf true ++ [] := by simp [eolOf]
    rw [this, h1]; rfl

theorem linesG_nil (g : Seq → Seq) : linesG g [] = [] := by simp [linesG, splitNl]

/-- **both line readers hand over exactly the lines of a rendered text** -/
theorem linesG_render (g : Seq → Seq) : ∀ (ls : List (Seq × Bool)), (∀ p ∈ ls, NoEol p.1) →
    linesG g (renderLines ls) = ls.map (·.1)
  | [], _ => linesG_nil g
  | (l, f) :: t, h => by
    simp only [renderLines, List.map_cons]
    rw [linesG_line g (h (l, f) (by simp)) f, linesG_render g t (fun p hp => h p (by simp [hp]))]

/-- an unterminated, non-empty last line is handed over as it is -/
theorem linesG_last (g : Seq → Seq) (hg : ∀ l, NoEol l → g l = l) {l : Seq} (h : NoEol l) (hne : l ≠ []) :
    linesG g l = [l] := by
  unfold linesG
  rw [splitNl_noNl l [] (noEol_ne10 h)]
  cases l with
  | nil => exact absurd rfl hne
  | cons a t => simp [hg _ h]

theorem linesG_renderOpen (g : Seq → Seq) (hg : ∀ l, NoEol l → g l = l) :
    ∀ (ls : List (Seq × Bool)), (∀ p ∈ ls, NoEol p.1) → (∀ p, ls.getLast? = some p → p.1 ≠ []) →
    linesG g (renderOpen ls) = ls.map (·.1)
  | [], _, _ => linesG_nil g
  | [(l, f)], h, hl => by
    simp only [renderOpen, List.map_cons, List.map_nil]
    exact linesG_last g hg (h (l, f) (by simp)) (hl (l, f) rfl)
  | (l, f) :: q :: t, h, hl => by
    simp only [renderOpen, List.map_cons]
    rw [linesG_line g (h (l, f) (by simp)) f,
      linesG_renderOpen g hg (q :: t) (fun p hp => h p (by simp [hp])) (fun p hp => hl p (by simpa using hp))]
    rfl

theorem id_noEol : ∀ l : Seq, NoEol l → id l = l := fun _ _ => rfl
theorem dropCR_noEol' : ∀ l : Seq, NoEol l → dropCR l = l := fun _ h => dropCR_noEol h

/-! ## regular line ends, short lines -/

theorem regularEol_noEol_append : ∀ (l y : Seq), NoEol l → regularEol (l ++ y) = regularEol y
  | [], _, _ => rfl
  | c :: t, y, h => by
    have hc := (not_eol_ne (h c (by simp))).2
    have : (c != 13) = true := by simpa using hc
    simp only [List.cons_append, regularEol, this, Bool.true_or, Bool.true_and]
    exact regularEol_noEol_append t y (fun x hx => h x (by simp [hx]))

theorem regularEol_eol (f : Bool) (y : Seq) : regularEol (eolOf f ++ y) = regularEol y := by
  cases f <;> simp [eolOf, regularEol]

theorem regularEol_render : ∀ (ls : List (Seq × Bool)), (∀ p ∈ ls, NoEol p.1) → regularEol (renderLines ls) = true
  | [], _ => rfl
  | (l, f) :: t, h => by
    simp only [renderLines, List.append_assoc]
    rw [regularEol_noEol_append l _ (h (l, f) (by simp)), regularEol_eol,
      regularEol_render t (fun p hp => h p (by simp [hp]))]

theorem regularEol_renderOpen : ∀ (ls : List (Seq × Bool)), (∀ p ∈ ls, NoEol p.1) → regularEol (renderOpen ls) = true
  | [], _ => rfl
  | [(l, f)], h => by
    simp only [renderOpen]
    have := regularEol_noEol_append l [] (h (l, f) (by simp))
    simpa [regularEol] using this
  | (l, f) :: q :: t, h => by
    simp only [renderOpen, List.append_assoc]
    rw [regularEol_noEol_append l _ (h (l, f) (by simp)), regularEol_eol,
      regularEol_renderOpen (q :: t) (fun p hp => h p (by simp [hp]))]

theorem shortRun_noNl (max : Nat) : ∀ (l y : Seq) (n : Nat), (∀ c ∈ l, c ≠ 10) →
    shortRun max (l ++ y) n = shortRun max y (n + l.length)
  | [], _, _, _ => rfl
  | c :: t, y, n, h => by
    have hc : (c == 10) = false := by simpa using h c (by simp)
    simp only [List.cons_append, shortRun, hc, List.length_cons]
    rw [shortRun_noNl max t y (n + 1) (fun x hx => h x (by simp [hx]))]
    have : n + 1 + t.length = n + (t.length + 1) := by omega
    rw [this]
    simp

theorem shortRun_line (max : Nat) {l : Seq} (h : NoEol l) (hlen : l.length + 1 < max) (f : Bool) (y : Seq) :
    shortRun max (l ++ eolOf f ++ y) 0 = shortRun max y 0 := by
  rw [List.append_assoc, shortRun_noNl max l _ 0 (noEol_ne10 h)]
  cases f with
  | false =>
    have : l.length < max := by omega
    simp [eolOf, shortRun, this]
  | true =>
    have : l.length + 1 < max := hlen
    simp [eolOf, shortRun, this]

theorem shortLines_render (max : Nat) (hmax : 0 < max) : ∀ (ls : List (Seq × Bool)), (∀ p ∈ ls, NoEol p.1) →
    (∀ p ∈ ls, p.1.length + 1 < max) → shortLines max (renderLines ls) = true
  | [], _, _ => by simp [shortLines, renderLines, shortRun, hmax]
  | (l, f) :: t, h, hl => by
    unfold shortLines
    simp only [renderLines]
    rw [shortRun_line max (h (l, f) (by simp)) (hl (l, f) (by simp)) f]
    exact shortLines_render max hmax t (fun p hp => h p (by simp [hp])) (fun p hp => hl p (by simp [hp]))

theorem shortLines_renderOpen (max : Nat) (hmax : 0 < max) : ∀ (ls : List (Seq × Bool)), (∀ p ∈ ls, NoEol p.1) →
    (∀ p ∈ ls, p.1.length + 1 < max) → shortLines max (renderOpen ls) = true
  | [], _, _ => by simp [shortLines, renderOpen, shortRun, hmax]
  | [(l, f)], h, hl => by
    unfold shortLines
    simp only [renderOpen]
    have := shortRun_noNl max l [] 0 (noEol_ne10 (h (l, f) (by simp)))
    rw [List.append_nil] at this
    rw [this]
    have hl' : l.length + 1 < max := hl (l, f) (by simp)
    simp only [shortRun, Nat.zero_add, decide_eq_true_eq]
    omega
  | (l, f) :: q :: t, h, hl => by
    unfold shortLines
    simp only [renderOpen]
    rw [shortRun_line max (h (l, f) (by simp)) (hl (l, f) (by simp)) f]
    exact shortLines_renderOpen max hmax (q :: t) (fun p hp => h p (by simp [hp])) (fun p hp => hl p (by simp [hp]))

/-! ## `hasPrefix` on a line that starts with a known key -/

theorem hasPrefix_key (p q v : Seq) (h : p.length = q.length) : hasPrefix p (q ++ v) = (q == p) := by
  unfold hasPrefix
  rw [h, List.take_left']
  rfl

theorem hasPrefix_ne (p q v : Seq) (h : p.length = q.length) (hne : (q == p) = false) :
    hasPrefix p (q ++ v) = false := by
  rw [hasPrefix_key p q v h, hne]

theorem hasPrefix_self (p v : Seq) : hasPrefix p (p ++ v) = true := by
  rw [hasPrefix_key p p v rfl]; simp

/-! ## `strings.SplitN(s, " ", n)` on blank-separated groups -/

def NoBlank (g : Seq) : Prop := ∀ c ∈ g, c ≠ 32
instance decNoBlank (g : Seq) : Decidable (NoBlank g) := by unfold NoBlank; infer_instance

theorem span_loop (p : UInt8 → Bool) : ∀ (l acc : Seq),
    List.span.loop p l acc = (acc.reverse ++ l.takeWhile p, l.dropWhile p)
  | [], acc => by simp [List.span.loop]
  | a :: t, acc => by
    cases h : p a <;> simp [List.span.loop, h, span_loop p t, List.takeWhile, List.dropWhile]

theorem span_eq (p : UInt8 → Bool) (l : Seq) : l.span p = (l.takeWhile p, l.dropWhile p) := by
  simp [List.span, span_loop]

theorem splitN_succ2 (n : Nat) (s : Seq) : splitN 32 (n + 2) s =
    match (s.takeWhile (· != 32), s.dropWhile (· != 32)) with
    | (a, []) => [a]
    | (a, _ :: rest) => a :: splitN 32 (n + 1) rest := by
  rw [splitN, span_eq]
  · rfl
  · intro h; omega

theorem noBlank_pos {g : Seq} (h : NoBlank g) : ∀ c ∈ g, (c != 32) = true := by
  intro c hc; simpa using h c hc

theorem splitN_group (n : Nat) (g rest : Seq) (h : NoBlank g) :
    splitN 32 (n + 2) (g ++ 32 :: rest) = g :: splitN 32 (n + 1) rest := by
  rw [splitN_succ2, List.takeWhile_append_of_pos (noBlank_pos h), List.dropWhile_append_of_pos (noBlank_pos h)]
  simp

theorem splitN_last (n : Nat) (g : Seq) (h : NoBlank g) : splitN 32 (n + 1) g = [g] := by
  cases n with
  | zero => rfl
  | succ n =>
    have e : g = g ++ [] := by simp
    rw [splitN_succ2]
    rw [show List.takeWhile (· != 32) g = g by
      conv => lhs; rw [e]
      rw [List.takeWhile_append_of_pos (noBlank_pos h)]; simp]
    rw [show List.dropWhile (· != 32) g = [] by
      conv => lhs; rw [e]
      rw [List.dropWhile_append_of_pos (noBlank_pos h)]; simp]

/-- the groups, each followed by one blank -/
def groupsText (gs : List Seq) : Seq := gs.flatMap (· ++ [32])

/-- all the parts: GenBank sequence line, `n` large enough for the groups and the last one -/
theorem splitN_groups : ∀ (gs : List Seq) (n : Nat) (last : Seq), (∀ g ∈ gs, NoBlank g) → NoBlank last →
    gs.length < n → (splitN 32 n (groupsText gs ++ last)).flatten = gs.flatten ++ last
  | [], n, last, _, hl, hn => by
    obtain ⟨m, rfl⟩ : ∃ m, n = m + 1 := ⟨n - 1, by simp at hn; omega⟩
    simp [groupsText, splitN_last m last hl]
  | g :: t, n, last, hg, hl, hn => by
    obtain ⟨m, rfl⟩ : ∃ m, n = m + 2 := ⟨n - 2, by simp at hn; omega⟩
    have e : groupsText (g :: t) ++ last = g ++ 32 :: (groupsText t ++ last) := by simp [groupsText]
    rw [e, splitN_group m g _ (hg g (by simp))]
    simp only [List.flatten_cons, List.append_assoc]
    rw [splitN_groups t (m + 1) last (fun x hx => hg x (by simp [hx])) hl (by simp at hn ⊢; omega)]

theorem splitN_ne_nil (n : Nat) (s : Seq) : splitN 32 n s ≠ [] := by
  match n with
  | 0 => simp [splitN]
  | 1 => simp [splitN]
  | k + 2 =>
    rw [splitN_succ2]
    split <;> simp

/-- all the parts but the last one (EMBL sequence line): blanks then a blank-free coordinate contribute nothing -/
theorem splitN_pad : ∀ (pad n : Nat) (coord : Seq), NoBlank coord → 0 < n →
    ((splitN 32 n (List.replicate pad 32 ++ coord)).dropLast).flatten = []
  | 0, n, coord, h, hn => by
    obtain ⟨m, rfl⟩ : ∃ m, n = m + 1 := ⟨n - 1, by omega⟩
    simp [splitN_last m coord h]
  | pad + 1, n, coord, h, hn => by
    obtain ⟨m, rfl⟩ : ∃ m, n = m + 1 := ⟨n - 1, by omega⟩
    cases m with
    | zero => simp [splitN]
    | succ m =>
      have e : List.replicate (pad + 1) 32 ++ coord = ([] : Seq) ++ 32 :: (List.replicate pad 32 ++ coord) := by
        simp [List.replicate_succ]
      rw [e, splitN_group m [] _ (by intro c hc; cases hc)]
      have ih := splitN_pad pad (m + 1) coord h (by omega)
      have hne : splitN 32 (m + 1) (List.replicate pad 32 ++ coord) ≠ [] := splitN_ne_nil _ _
      rw [List.dropLast_cons_of_ne_nil hne]
      simp [ih]

theorem splitN_groups_dropLast : ∀ (gs : List Seq) (n pad : Nat) (coord : Seq), (∀ g ∈ gs, NoBlank g) →
    NoBlank coord → gs.length < n →
    ((splitN 32 n (groupsText gs ++ (List.replicate pad 32 ++ coord))).dropLast).flatten = gs.flatten
  | [], n, pad, coord, _, hc, hn => by
    simp only [groupsText, List.flatMap_nil, List.nil_append, List.flatten_nil]
    exact splitN_pad pad n coord hc (by simpa using hn)
  | g :: t, n, pad, coord, hg, hc, hn => by
    obtain ⟨m, rfl⟩ : ∃ m, n = m + 2 := ⟨n - 2, by simp at hn; omega⟩
    have e : groupsText (g :: t) ++ (List.replicate pad 32 ++ coord) =
        g ++ 32 :: (groupsText t ++ (List.replicate pad 32 ++ coord)) := by simp [groupsText]
    rw [e, splitN_group m g _ (hg g (by simp)), List.dropLast_cons_of_ne_nil (splitN_ne_nil _ _)]
    simp only [List.flatten_cons]
    rw [splitN_groups_dropLast t (m + 1) pad coord (fun x hx => hg x (by simp [hx])) hc (by simp at hn ⊢; omega)]

theorem take_length_sub_one {α : Type} (l : List α) : l.take (l.length - 1) = l.dropLast := by
  rw [List.dropLast_eq_take]

/-! ## the taxon cross-reference: `strconv.Atoi` on decimal digits -/

def IsDigits (ds : Seq) : Prop := ds ≠ [] ∧ ∀ c ∈ ds, 48 ≤ c ∧ c ≤ 57

/-- value of a decimal numeral -/
def decVal (ds : Seq) : Nat := ds.foldl (fun v c => v * 10 + (c.toNat - 48)) 0

theorem digitsVal_foldl : ∀ (ds : Seq) (v : Nat), (∀ c ∈ ds, 48 ≤ c ∧ c ≤ 57) →
    ds.foldl (fun (acc : Option Nat) (c : UInt8) => match acc with
      | none => none
      | some v => if 48 ≤ c && c ≤ 57 then some (v * 10 + (c.toNat - 48)) else none) (some v) =
    some (ds.foldl (fun v c => v * 10 + (c.toNat - 48)) v)
  | [], _, _ => rfl
  | c :: t, v, h => by
    have hc := h c (by simp)
    have : (48 ≤ c && c ≤ 57) = true := by simp [hc.1, hc.2]
    simp only [List.foldl_cons, this, if_true]
    exact digitsVal_foldl t _ (fun x hx => h x (by simp [hx]))

theorem digitsVal_digits {ds : Seq} (h : IsDigits ds) : digitsVal ds = some (decVal ds) := by
  obtain ⟨hne, hd⟩ := h
  cases ds with
  | nil => exact absurd rfl hne
  | cons c t =>
    unfold digitsVal decVal
    exact digitsVal_foldl (c :: t) 0 hd

/-- **the taxid of a `/db_xref="taxon:N"` line is N**: `key` is the 37-byte key of the format, `N` a decimal
numeral below 2^63, then the closing quote and anything -/
theorem taxonOf_digits (key ds rest : Seq) (hk : key.length = 37) (h : IsDigits ds) (hv : decVal ds < 2 ^ 63) :
    taxonOf (key ++ ds ++ 34 :: rest) = (decVal ds : Int) := by
  unfold taxonOf
  have e : (key ++ ds ++ 34 :: rest).drop 37 = ds ++ 34 :: rest := by
    rw [List.append_assoc, ← hk, List.drop_left']
    rfl
  rw [e]
  have hq : ∀ c ∈ ds, (c != 34) = true := by
    intro c hc
    have := h.2 c hc
    have : c ≠ 34 := by
      intro h34; subst h34
      exact absurd this.1 (by decide)
    simpa using this
  have htw : (ds ++ 34 :: rest).takeWhile (· != 34) = ds := by
    rw [List.takeWhile_append_of_pos hq]
    simp
  rw [htw]
  obtain ⟨hne, hd⟩ := h
  cases ds with
  | nil => exact absurd rfl hne
  | cons c t =>
    have hc := hd c (by simp)
    have h45 : (c == 45) = false := by
      have : c ≠ 45 := by intro h; subst h; exact absurd hc.1 (by decide)
      simpa using this
    have h43 : (c == 43) = false := by
      have : c ≠ 43 := by intro h; subst h; exact absurd hc.1 (by decide)
      simpa using this
    have : ¬ (decVal (c :: t) ≥ 2 ^ 63) := by omega
    simp [atoi, h45, h43, digitsVal_digits ⟨hne, hd⟩, this]

end ObiVerif.Parse
