import ObiVerif.Model.UniqChunk
import ObiVerif.Lemmas.UniqLoopChain
set_option Elab.async false
/-!
# The chunk stage of obiuniq (`Distribute`, `ISequenceChunk`, `ISequenceChunkOnDisk`) delivers the partition of
the input by hash code — for every batch size, every partition of the input into batches, every order in which
the chunks are pushed (`ChunksOK` is *proved*, no longer assumed)
-/
namespace ObiVerif.Uniq

/-- every record the class has received so far -/
def DEnt.all (e : DEnt) : List Rec := e.pushed.flatten ++ e.slice

theorem distAppend_key (size : Nat) (e : DEnt) (r : Rec) : (distAppend size e r).key = e.key := by
  unfold distAppend; dsimp only; split <;> rfl

theorem distAppend_all (size : Nat) (e : DEnt) (r : Rec) : (distAppend size e r).all = e.all ++ [r] := by
  unfold distAppend DEnt.all; dsimp only
  split <;> simp [List.flatten_append]

theorem distAppend_pushed (size : Nat) (e : DEnt) (r : Rec) (h : ∀ b ∈ e.pushed, b ≠ []) :
    ∀ b ∈ (distAppend size e r).pushed, b ≠ [] := by
  unfold distAppend; dsimp only
  split
  · intro b hb
    simp only [List.mem_append, List.mem_singleton] at hb
    rcases hb with hb | rfl
    · exact h b hb
    · simp
  · exact h

theorem distAdd_keys (size k : Nat) (r : Rec) : ∀ st : List DEnt,
    (distAdd size k r st).map (·.key) =
      if k ∈ st.map (·.key) then st.map (·.key) else st.map (·.key) ++ [k]
  | [] => by simp [distAdd, distAppend_key]
  | e :: t => by
    unfold distAdd
    by_cases h : e.key = k
    · simp [h, distAppend_key]
    · have ih := distAdd_keys size k r t
      have h' : ¬ k = e.key := fun x => h x.symm
      simp only [if_neg h, List.map_cons, ih, List.mem_cons, h', false_or]
      split <;> simp

theorem distAdd_mem (size k : Nat) (r : Rec) : ∀ st : List DEnt, (st.map (·.key)).Nodup →
    ∀ e' ∈ distAdd size k r st,
      (e' ∈ st ∧ e'.key ≠ k) ∨ (∃ e ∈ st, e.key = k ∧ e' = distAppend size e r) ∨
      (k ∉ st.map (·.key) ∧ e' = distAppend size ⟨k, [], []⟩ r)
  | [], _, e', he' => by
    simp only [distAdd, List.mem_singleton] at he'
    exact Or.inr (Or.inr ⟨by simp, he'⟩)
  | e :: t, hnd, e', he' => by
    have hnd' := List.nodup_cons.mp hnd
    unfold distAdd at he'
    by_cases h : e.key = k
    · rw [if_pos h] at he'
      rcases List.mem_cons.mp he' with rfl | hin
      · exact Or.inr (Or.inl ⟨e, by simp, h, rfl⟩)
      · refine Or.inl ⟨List.mem_cons_of_mem _ hin, ?_⟩
        intro hk
        exact hnd'.1 (List.mem_map.mpr ⟨e', hin, by show e'.key = e.key; rw [hk, h]⟩)
    · rw [if_neg h] at he'
      rcases List.mem_cons.mp he' with rfl | hin
      · exact Or.inl ⟨by simp, h⟩
      · rcases distAdd_mem size k r t hnd'.2 e' hin with ⟨h1, h2⟩ | ⟨e0, h1, h2, h3⟩ | ⟨h1, h2⟩
        · exact Or.inl ⟨List.mem_cons_of_mem _ h1, h2⟩
        · exact Or.inr (Or.inl ⟨e0, List.mem_cons_of_mem _ h1, h2, h3⟩)
        · refine Or.inr (Or.inr ⟨?_, h2⟩)
          simp only [List.map_cons, List.mem_cons, not_or]
          exact ⟨fun x => h x.symm, h1⟩

/-- invariant of the loop of `Distribute` after the records `l`: one entry per code seen, holding exactly the
records of that code, in input order; no empty batch was pushed -/
structure DistInv (code : Rec → Nat) (l : List Rec) (st : List DEnt) : Prop where
  nodup : (st.map (·.key)).Nodup
  content : ∀ e ∈ st, e.all = l.filter (fun r => decide (code r = e.key)) ∧ e.all ≠ []
  cover : ∀ r ∈ l, code r ∈ st.map (·.key)
  pushed : ∀ e ∈ st, ∀ b ∈ e.pushed, b ≠ []

theorem DistInv.step {code : Rec → Nat} {l : List Rec} {st : List DEnt} (size : Nat) (hi : DistInv code l st)
    (r : Rec) : DistInv code (l ++ [r]) (distAdd size (code r) r st) := by
  have hk := distAdd_keys size (code r) r st
  refine ⟨?_, ?_, ?_, ?_⟩
  · rw [hk]
    split
    · exact hi.nodup
    · next hn =>
      rw [List.nodup_append]
      exact ⟨hi.nodup, by simp, by
        intro a ha b hb
        simp only [List.mem_singleton] at hb
        subst hb
        exact fun e => hn (e ▸ ha)⟩
  · intro e' he'
    rcases distAdd_mem size (code r) r st hi.nodup e' he' with ⟨h1, h2⟩ | ⟨e, h1, h2, rfl⟩ | ⟨h1, rfl⟩
    · obtain ⟨c1, c2⟩ := hi.content e' h1
      have : ¬ code r = e'.key := fun x => h2 x.symm
      exact ⟨by simp [List.filter_append, this, c1], c2⟩
    · obtain ⟨c1, _⟩ := hi.content e h1
      rw [distAppend_all, distAppend_key]
      exact ⟨by simp [List.filter_append, h2, c1], by simp⟩
    · rw [distAppend_all, distAppend_key]
      have hnil : l.filter (fun x => decide (code x = code r)) = [] := by
        rw [List.filter_eq_nil_iff]
        intro x hx hc
        have := hi.cover x hx
        rw [of_decide_eq_true hc] at this
        exact h1 this
      exact ⟨by simp [List.filter_append, hnil, DEnt.all], by simp⟩
  · intro x hx
    rw [hk]
    rcases List.mem_append.mp hx with hx | hx
    · have := hi.cover x hx
      split
      · exact this
      · exact List.mem_append_left _ this
    · simp only [List.mem_singleton] at hx
      subst hx
      split
      · next h => exact h
      · simp
  · intro e' he' b hb
    rcases distAdd_mem size (code r) r st hi.nodup e' he' with ⟨h1, _⟩ | ⟨e, h1, _, rfl⟩ | ⟨_, rfl⟩
    · exact hi.pushed e' h1 b hb
    · exact distAppend_pushed size e r (hi.pushed e h1) b hb
    · exact distAppend_pushed size _ r (by simp) b hb

theorem distFold_inv (code : Rec → Nat) (size : Nat) : ∀ (l2 l1 : List Rec) (st : List DEnt),
    DistInv code l1 st → DistInv code (l1 ++ l2) (l2.foldl (fun st r => distAdd size (code r) r st) st)
  | [], l1, st, hi => by simpa using hi
  | r :: t, l1, st, hi => by
    have := distFold_inv code size t (l1 ++ [r]) _ (hi.step size r)
    simpa using this

theorem distLoop_inv (code : Rec → Nat) (size : Nat) (l : List Rec) : DistInv code l (distLoop code size l) := by
  have := distFold_inv code size l [] [] ⟨by simp, by simp, by simp, by simp⟩
  simpa [distLoop] using this

theorem distFlush_flatten (e : DEnt) : (distFlush e).2.flatten = e.all := by
  unfold distFlush DEnt.all
  dsimp only
  split
  · simp [List.flatten_append]
  · next h =>
    have : e.slice = [] := by
      cases hs : e.slice with
      | nil => rfl
      | cons a t => simp [hs] at h
    simp [this]

theorem distFlush_key (e : DEnt) : (distFlush e).1 = e.key := rfl

theorem distFlush_batches (e : DEnt) (h : ∀ b ∈ e.pushed, b ≠ []) : ∀ b ∈ (distFlush e).2, b ≠ [] := by
  unfold distFlush
  dsimp only
  split
  · next hl =>
    intro b hb
    simp only [List.mem_append, List.mem_singleton] at hb
    rcases hb with hb | rfl
    · exact h b hb
    · intro e0; simp [e0] at hl
  · exact h

/-! ## what `Distribute` delivers -/

/-- **`Distribute`, for every batch size and every partition of the input into batches**: the announced codes
are distinct, they are exactly the codes of the input records, the output of a code delivers exactly the
records of that code in input order, and no output delivers an empty batch -/
theorem distribute_spec (code : Rec → Nat) (size : Nat) (batches : List (List Rec)) :
    ((distribute code size batches).map (·.1)).Nodup ∧
    (∀ e ∈ distribute code size batches,
      e.2.flatten = batches.flatten.filter (fun r => decide (code r = e.1)) ∧ e.2.flatten ≠ [] ∧
      ∀ b ∈ e.2, b ≠ []) ∧
    (∀ r ∈ batches.flatten, code r ∈ (distribute code size batches).map (·.1)) := by
  have hi := distLoop_inv code size batches.flatten
  have hkeys : (distribute code size batches).map (·.1) = (distLoop code size batches.flatten).map (·.key) := by
    simp [distribute, List.map_map, Function.comp_def, distFlush_key]
  refine ⟨hkeys ▸ hi.nodup, ?_, fun r hr => hkeys ▸ hi.cover r hr⟩
  intro e he
  obtain ⟨d, hd, rfl⟩ := List.mem_map.mp he
  obtain ⟨c1, c2⟩ := hi.content d hd
  rw [distFlush_flatten, distFlush_key]
  exact ⟨c1, c2, distFlush_batches d (hi.pushed d hd)⟩

/-- the chunks of the memory mode: nothing is filtered out (no chunk is empty) -/
theorem chunkMem_eq (code : Rec → Nat) (size : Nat) (batches : List (List Rec)) :
    chunkMem code size batches = (distribute code size batches).map fun e => (e.1, e.2.flatten) := by
  unfold chunkMem
  rw [List.filter_eq_self]
  intro e he
  obtain ⟨d, hd, rfl⟩ := List.mem_map.mp he
  have := ((distribute_spec code size batches).2.1 d hd).2.1
  cases hf : d.2.flatten with
  | nil => exact absurd hf this
  | cons a t => simp

/-! ## a partition by distinct covering codes is `SpecP` -/

theorem filter_codes_perm (f : Rec → Nat) : ∀ (ks : List Nat) (l : List Rec), ks.Nodup →
    (∀ r ∈ l, f r ∈ ks) → (ks.map fun k => l.filter (fun r => decide (f r = k))).flatten.Perm l
  | [], l, _, hc => by
    cases l with
    | nil => simp
    | cons a t => exact absurd (hc a (by simp)) (by simp)
  | k :: ks, l, hnd, hc => by
    have hnd' := List.nodup_cons.mp hnd
    have ih := filter_codes_perm f ks (l.filter (fun r => !decide (f r = k))) hnd'.2 (by
      intro r hr
      obtain ⟨h1, h2⟩ := List.mem_filter.mp hr
      have := hc r h1
      simp only [List.mem_cons] at this
      rcases this with h | h
      · simp [h] at h2
      · exact h)
    have hrest : (ks.map fun k' => (l.filter (fun r => !decide (f r = k))).filter (fun r => decide (f r = k'))) =
        ks.map fun k' => l.filter (fun r => decide (f r = k')) := by
      apply List.map_congr_left
      intro k' hk'
      rw [List.filter_filter]
      apply List.filter_congr
      intro r _
      by_cases h : f r = k'
      · have : ¬ k' = k := fun e => hnd'.1 (e ▸ hk')
        simp [h, this]
      · simp [h]
    rw [hrest] at ih
    simp only [List.map_cons, List.flatten_cons]
    exact (List.Perm.append_left _ ih).trans (List.filter_append_perm _ l)

theorem SpecP.of_perm {fs : List (Rec → Code)} {b : List Rec} {T T' : List (List Rec)} (S : SpecP fs b T)
    (hp : T'.Perm T) : SpecP fs b T' :=
  ⟨fun t ht => S.cls t (hp.mem_iff.mp ht), (hp.pairwise_iff (fun hh => sepSymm hh)).mpr S.sep,
    hp.flatten.trans S.perm⟩

/-- the partition of `input` by the codes `ks` (distinct, covering, each with a record) is the partition into
the classes of the hash classifier -/
theorem specP_of_codes (h : Seq → Nat) (input : List Rec) (ks : List Nat) (hnd : ks.Nodup)
    (hcov : ∀ r ∈ input, h r.seq ∈ ks)
    (hne : ∀ k ∈ ks, input.filter (fun r => decide (h r.seq = k)) ≠ []) :
    SpecP [hashC h] input (ks.map fun k => input.filter (fun r => decide (h r.seq = k))) := by
  have hsame : ∀ x r : Rec, same [hashC h] x r = decide (h r.seq = h x.seq) := by
    intro x r; simp [same, hashC]
  refine ⟨?_, ?_, filter_codes_perm (fun r => h r.seq) ks input hnd hcov⟩
  · intro t ht
    obtain ⟨k, hk, rfl⟩ := List.mem_map.mp ht
    obtain ⟨x, hx⟩ := List.exists_mem_of_ne_nil _ (hne k hk)
    refine ⟨x, hx, ?_⟩
    have hxk : h x.seq = k := of_decide_eq_true (List.mem_filter.mp hx).2
    have : (fun r => decide (h r.seq = k)) = same [hashC h] x := by
      funext r; rw [hsame, hxk]
    rw [this]
  · rw [List.pairwise_map]
    refine List.Pairwise.imp ?_ hnd
    intro k k' hkk a ha a' ha'
    have h1 : h a.seq = k := of_decide_eq_true (List.mem_filter.mp ha).2
    have h2 : h a'.seq = k' := of_decide_eq_true (List.mem_filter.mp ha').2
    rw [hsame, h1, h2]
    simp [Ne.symm hkk]

/-! ## `ISequenceChunk` (memory) -/

/-- the chunks `ISequenceChunk` builds are the partition of the input by hash code (`Spec`-level: the members
of a chunk are in input order) -/
theorem chunkMem_specP (h : Seq → Nat) (size : Nat) (batches : List (List Rec)) :
    SpecP [hashC h] batches.flatten ((chunkMem (fun r => h r.seq) size batches).map (·.2)) := by
  obtain ⟨hnd, hcont, hcov⟩ := distribute_spec (fun r => h r.seq) size batches
  have e : (chunkMem (fun r => h r.seq) size batches).map (·.2) =
      ((distribute (fun r => h r.seq) size batches).map (·.1)).map
        fun k => batches.flatten.filter (fun r => decide (h r.seq = k)) := by
    rw [chunkMem_eq, List.map_map, List.map_map]
    apply List.map_congr_left
    intro d hd
    exact (hcont d hd).1
  rw [e]
  refine specP_of_codes h _ _ hnd hcov ?_
  intro k hk
  obtain ⟨d, hd, rfl⟩ := List.mem_map.mp hk
  rw [← (hcont d hd).1]
  exact (hcont d hd).2.1

/-- **`ChunksOK` for the memory mode**: whatever the batch size of `Distribute`, the partition of the input into
batches, the order in which the map range of `ISequenceChunk` pushes the chunks and the way the workers share
them (`ws`: any splitting of any permutation of the chunks) -/
theorem chunkMem_chunksOK (h : Seq → Nat) (size : Nat) (batches : List (List Rec))
    (ws : List (List (List Rec)))
    (hp : ws.flatten.Perm ((chunkMem (fun r => h r.seq) size batches).map (·.2))) :
    ChunksOK h batches.flatten ws :=
  (chunkMem_specP h size batches).of_perm hp

/-! ## `ISequenceChunkOnDisk` -/

theorem readFiles_ok {β : Type} (fl : FileLayer β) (ld : List Rec → List Rec) (g : Nat × List β → List Rec) :
    ∀ files : List (Nat × List β), (∀ f ∈ files, fl.read f.2 = some (g f)) →
      readFiles fl ld files = .ok (files.map fun f => (f.1, ld (g f)))
  | [], _ => rfl
  | f :: t, hh => by
    have h1 := hh f (by simp)
    have ih := readFiles_ok fl ld g t (fun f' hf' => hh f' (List.mem_cons_of_mem _ hf'))
    simp [readFiles, h1, ih]

/-- `RoundTrip fl ok`: a file made of the formatted batches `bs` (at least one record in all) whose records
satisfy `ok` is read back as these records, in order -/
def RoundTrip {β : Type} (fl : FileLayer β) (ok : Rec → Prop) : Prop :=
  ∀ bs : List (List Rec), bs.flatten ≠ [] → (∀ r ∈ bs.flatten, ok r) →
    fl.read (bs.map fl.write).flatten = some bs.flatten

/-- what `Load()` does with the records of a file: some permutation (arrival order of the reader's batches) -/
def LoadOK (ld : List Rec → List Rec) : Prop := ∀ l, (ld l).Perm l

theorem flatten_map_perm (ld : List Rec → List Rec) (hl : LoadOK ld) : ∀ T : List (List Rec),
    (T.map ld).flatten.Perm T.flatten
  | [] => by simp
  | t :: T => by
    simp only [List.map_cons, List.flatten_cons]
    exact (hl t).append (flatten_map_perm ld hl T)

/-- permuting the members inside every class keeps `SpecP` -/
theorem SpecP.map_perm {fs : List (Rec → Code)} {b : List Rec} {T : List (List Rec)} (S : SpecP fs b T)
    (ld : List Rec → List Rec) (hl : LoadOK ld) : SpecP fs b (T.map ld) := by
  refine ⟨?_, ?_, (flatten_map_perm ld hl T).trans S.perm⟩
  · intro t' ht'
    obtain ⟨t, ht, rfl⟩ := List.mem_map.mp ht'
    obtain ⟨x, hx, hp⟩ := S.cls t ht
    exact ⟨x, (hl t).mem_iff.mpr hx, (hl t).trans hp⟩
  · rw [List.pairwise_map]
    refine List.Pairwise.imp ?_ S.sep
    intro t t' hh a ha a' ha'
    exact hh a ((hl t).mem_iff.mp ha) a' ((hl t').mem_iff.mp ha')

/-- **on-disk mode**: when the temporary directory can be made and the file layer round-trips the records of the
input, `ISequenceChunkOnDisk` pushes exactly the chunks of the memory mode (in the lexical order of the file
names, the members of a chunk in the order `Load` leaves them), every record once, none lost in a file -/
theorem chunkDisk_ok {β : Type} (fl : FileLayer β) (ok : Rec → Prop) (hrt : RoundTrip fl ok)
    (ld : List Rec → List Rec) (code : Rec → Nat) (size : Nat) (batches : List (List Rec))
    (hok : ∀ r ∈ batches.flatten, ok r) :
    ∃ cs, chunkDisk fl ld true code size batches = .ok cs ∧
      (cs.map (·.2)).Perm (((chunkMem code size batches).map (·.2)).map ld) ∧
      (cs.map (·.1)).Perm ((chunkMem code size batches).map (·.1)) := by
  obtain ⟨_, hcont, _⟩ := distribute_spec code size batches
  let files := (distribute code size batches).map fun e => (e.1, (e.2.map fl.write).flatten)
  let g : Nat × List β → List Rec := fun f => batches.flatten.filter (fun r => decide (code r = f.1))
  have hperm : (lexFiles files).Perm files := List.mergeSort_perm files _
  have hread : ∀ f ∈ lexFiles files, fl.read f.2 = some (g f) := by
    intro f hf
    obtain ⟨d, hd, rfl⟩ := List.mem_map.mp (hperm.mem_iff.mp hf)
    obtain ⟨c1, c2, _⟩ := hcont d hd
    show fl.read (d.2.map fl.write).flatten = some _
    rw [hrt d.2 c2 (by
      intro r hr
      rw [c1] at hr
      exact hok r (List.mem_filter.mp hr).1)]
    exact congrArg some c1
  refine ⟨_, by
    show (if true = true then readFiles fl ld (lexFiles files) else _) = _
    rw [if_pos rfl]
    exact readFiles_ok fl ld g _ hread, ?_, ?_⟩
  · rw [chunkMem_eq, List.map_map, List.map_map, List.map_map]
    refine (hperm.map _).trans ?_
    rw [List.map_map]
    apply List.Perm.of_eq
    apply List.map_congr_left
    intro d hd
    simp only [Function.comp, g]
    rw [(hcont d hd).1]
  · rw [chunkMem_eq, List.map_map, List.map_map]
    refine (hperm.map _).trans ?_
    rw [List.map_map]
    exact List.Perm.of_eq (List.map_congr_left fun d _ => rfl)

/-- **`ChunksOK` for the on-disk mode** (one worker: `nworkers = 1`, or any sharing), whatever order `Load`
leaves the records of a chunk in -/
theorem chunkDisk_chunksOK {β : Type} (fl : FileLayer β) (ok : Rec → Prop) (hrt : RoundTrip fl ok)
    (ld : List Rec → List Rec) (hl : LoadOK ld)
    (h : Seq → Nat) (size : Nat) (batches : List (List Rec)) (hok : ∀ r ∈ batches.flatten, ok r) :
    ∃ cs, chunkDisk fl ld true (fun r => h r.seq) size batches = .ok cs ∧
      ∀ ws : List (List (List Rec)), ws.flatten.Perm (cs.map (·.2)) → ChunksOK h batches.flatten ws := by
  obtain ⟨cs, h1, h2, _⟩ := chunkDisk_ok fl ok hrt ld (fun r => h r.seq) size batches hok
  exact ⟨cs, h1, fun ws hp => ((chunkMem_specP h size batches).map_perm ld hl).of_perm (hp.trans h2)⟩

/-- the temporary directory cannot be made: the error is returned, no record is delivered -/
theorem chunkDisk_mkdir_fails {β : Type} (fl : FileLayer β) (ld : List Rec → List Rec) (code : Rec → Nat)
    (size : Nat) (batches : List (List Rec)) : chunkDisk fl ld false code size batches = .error "err" := rfl

/-- the driver's file layer round-trips everything -/
theorem idLayer_roundTrip : RoundTrip idLayer (fun _ => True) := by
  intro bs _ _
  simp [idLayer]

end ObiVerif.Uniq
