import ObiVerif.Model.DeBruijnCov
import ObiVerif.Lemmas.DeBruijnGraph
/-!
# Lemmas on `MaxWeight`, `FilterMinWeight`, the float threshold and the trimming of `LongestConsensus` (C19)
-/
namespace ObiVerif.DeBruijn
open ObiVerif.Kmer

/-! ## float threshold -/

theorem bitLen_le_iff (n k : Nat) : bitLen n ≤ k ↔ n < 2 ^ k := by
  unfold bitLen
  by_cases h : n = 0
  · subst h; simp [Nat.two_pow_pos]
  · simp only [h, if_false]
    rw [Nat.add_one_le_iff, Nat.log2_lt h]

theorem rnd_small (n : Nat) (e : Int) (h : n < 2 ^ 53) : rnd n e = (n, e) := by
  unfold rnd
  rw [if_pos ((bitLen_le_iff n 53).2 h)]

/-- `s = 0`: `min_cov` is the integer `a` -/
theorem covThreshold_int (mode a : Nat) (ha : 1 ≤ a) (h : 2 * mode * a + 1 < 2 ^ 53) :
    covThreshold mode a 0 = mode * a := by
  have hma : mode * a < 2 ^ 53 := by
    have : mode * a ≤ 2 * mode * a := by rw [Nat.mul_assoc]; omega
    omega
  have hm : mode < 2 ^ 53 := Nat.lt_of_le_of_lt (Nat.le_mul_of_pos_right mode ha) hma
  unfold covThreshold
  rw [rnd_small mode 0 hm]
  simp only [Int.zero_add]
  rw [rnd_small (mode * a) 0 hma]
  have e1 : min (0 : Int) (-1) = -1 := by omega
  simp only [e1]
  have e2 : ((0 : Int) - -1).toNat = 1 := by decide
  have e3 : ((-1 : Int) - -1).toNat = 0 := by decide
  rw [e2, e3]
  have hn : mode * a * 2 ^ 1 + 2 ^ 0 < 2 ^ 53 := by
    have : mode * a * 2 ^ 1 = 2 * mode * a := by rw [Nat.mul_assoc 2, Nat.mul_comm 2]
    omega
  rw [rnd_small _ (-1) hn]
  have e4 : ¬ ((-1 : Int) ≥ 0) := by decide
  simp only [e4, if_false]
  have e5 : (-(-1 : Int)).toNat = 1 := by decide
  rw [e5]
  omega

/-- `s ≥ 1`: `min_cov = a / 2^s` -/
theorem covThreshold_dyadic (mode a s : Nat) (ha : 1 ≤ a) (hs : 1 ≤ s) (h : mode * a + 2 ^ (s - 1) < 2 ^ 53) :
    covThreshold mode a (-(s : Int)) = (mode * a + 2 ^ (s - 1)) / 2 ^ s := by
  have hma : mode * a < 2 ^ 53 := by
    have := Nat.two_pow_pos (s - 1); omega
  have hm : mode < 2 ^ 53 := Nat.lt_of_le_of_lt (Nat.le_mul_of_pos_right mode ha) hma
  unfold covThreshold
  rw [rnd_small mode 0 hm]
  simp only [Int.zero_add]
  rw [rnd_small (mode * a) _ hma]
  have e1 : min (-(s : Int)) (-1) = -(s : Int) := by omega
  simp only [e1]
  have e2 : (-(s : Int) - -(s : Int)).toNat = 0 := by omega
  have e3 : ((-1 : Int) - -(s : Int)).toNat = s - 1 := by omega
  rw [e2, e3, Nat.pow_zero, Nat.mul_one]
  rw [rnd_small _ _ h]
  have e4 : ¬ (-(s : Int) ≥ 0) := by omega
  simp only [e4, if_false]
  have e5 : (-(-(s : Int))).toNat = s := by omega
  rw [e5]

/-- when nothing is rounded the threshold is at most the mode for `min_cov ≤ 1` -/
theorem dyadic_le_mode (mode a s : Nat) (hs : 1 ≤ s) (hle : a ≤ 2 ^ s) : (mode * a + 2 ^ (s - 1)) / 2 ^ s ≤ mode := by
  have hP : 0 < 2 ^ (s - 1) := Nat.two_pow_pos _
  have e : 2 ^ s = 2 * 2 ^ (s - 1) := by
    have : s = (s - 1) + 1 := by omega
    rw [this, Nat.pow_succ, Nat.mul_comm]; simp
  have h1 : mode * a ≤ mode * 2 ^ s := Nat.mul_le_mul_left mode hle
  apply Nat.le_of_lt_succ
  rw [Nat.div_lt_iff_lt_mul (Nat.two_pow_pos s)]
  rw [Nat.succ_mul]
  generalize mode * a = X at *
  generalize mode * 2 ^ s = Y at *
  omega

/-! ## `obistats.Mode` -/

theorem mem_modeCands (wp : List Nat) (v : Nat) :
    v ∈ modeCands wp ↔ (wp = [] ∧ v = 0) ∨ (v ∈ wp ∧ ∀ u ∈ wp, wp.count u ≤ wp.count v) := by
  unfold modeCands
  cases wp with
  | nil => simp
  | cons a t =>
    simp only [List.isEmpty_cons, Bool.false_eq_true, if_false, mem_sortDedup, List.mem_filter, List.all_eq_true,
      decide_eq_true_eq]
    constructor
    · intro h; exact Or.inr h
    · intro h
      rcases h with ⟨h, _⟩ | h
      · cases h
      · exact h

theorem modeCands_ne_nil (wp : List Nat) : modeCands wp ≠ [] := by
  intro h
  by_cases he : wp = []
  · have : (0 : Nat) ∈ modeCands wp := (mem_modeCands wp 0).2 (Or.inl ⟨he, rfl⟩)
    rw [h] at this; cases this
  · -- a value with the largest count exists
    have key : ∀ (l : List Nat), l ≠ [] → ∃ v ∈ l, ∀ u ∈ l, wp.count u ≤ wp.count v := by
      intro l
      induction l with
      | nil => intro h; exact absurd rfl h
      | cons a t ih =>
        intro _
        by_cases ht : t = []
        · subst ht; exact ⟨a, by simp, by intro u hu; simp at hu; subst hu; exact Nat.le_refl _⟩
        · obtain ⟨v, hv, hmax⟩ := ih ht
          by_cases hc : wp.count v ≤ wp.count a
          · refine ⟨a, by simp, ?_⟩
            intro u hu
            rcases List.mem_cons.mp hu with rfl | hu
            · exact Nat.le_refl _
            · exact Nat.le_trans (hmax u hu) hc
          · refine ⟨v, by simp [hv], ?_⟩
            intro u hu
            rcases List.mem_cons.mp hu with rfl | hu
            · omega
            · exact hmax u hu
    obtain ⟨v, hv, hmax⟩ := key wp he
    have : v ∈ modeCands wp := (mem_modeCands wp v).2 (Or.inr ⟨hv, hmax⟩)
    rw [h] at this; cases this

/-! ## trimming -/

theorem lowPrefix_all (w : Nat → Nat) (mp : Nat) (l : List Nat) (h : ∀ x ∈ l, w x < mp) :
    lowPrefix w mp l = l.length := by
  induction l with
  | nil => rfl
  | cons a t ih =>
    have ha : w a < mp := h a (by simp)
    simp [lowPrefix, ha, ih (fun x hx => h x (by simp [hx]))]

theorem lowPrefix_append (w : Nat → Nat) (mp : Nat) (a : List Nat) (y : Nat) (c : List Nat)
    (h : ∀ x ∈ a, w x < mp) (hy : ¬ w y < mp) : lowPrefix w mp (a ++ y :: c) = a.length := by
  induction a with
  | nil => simp [lowPrefix, hy]
  | cons b t ih =>
    have hb : w b < mp := h b (by simp)
    simp [lowPrefix, hb, ih (fun x hx => h x (by simp [hx]))]

/-- a list is all low, or splits at its first element that is not -/
theorem low_split (w : Nat → Nat) (mp : Nat) (l : List Nat) :
    (∀ x ∈ l, w x < mp) ∨ ∃ a y c, l = a ++ y :: c ∧ (∀ x ∈ a, w x < mp) ∧ ¬ w y < mp := by
  induction l with
  | nil => left; simp
  | cons b t ih =>
    by_cases hb : w b < mp
    · rcases ih with h | ⟨a, y, c, e, ha, hy⟩
      · left; intro x hx; rcases List.mem_cons.mp hx with rfl | hx
        · exact hb
        · exact h x hx
      · right; refine ⟨b :: a, y, c, by simp [e], ?_, hy⟩
        intro x hx; rcases List.mem_cons.mp hx with rfl | hx
        · exact hb
        · exact ha x hx
    · right; exact ⟨[], b, t, rfl, by simp, hb⟩

/-- **The trimming**, complete characterisation.  Either every node of the path is below the threshold (then the
slice expression panics, unless the path is empty), or the path is `a ++ sp ++ b` where `a` and `b` are the
longest prefix and suffix made of nodes below the threshold, `sp` starts and ends with a node that is not, and
`sp` is what is kept. -/
theorem trimPath_cases (w : Nat → Nat) (mp : Nat) (path : List Nat) :
    ((∀ x ∈ path, w x < mp) ∧ trimPath w mp path = if path = [] then .path [] else .panic) ∨
    (∃ a sp b, path = a ++ sp ++ b ∧ (∀ x ∈ a, w x < mp) ∧ (∀ x ∈ b, w x < mp) ∧
      (∃ y t, sp = y :: t ∧ mp ≤ w y) ∧ (∃ t z, sp = t ++ [z] ∧ mp ≤ w z) ∧ trimPath w mp path = .path sp) := by
  rcases low_split w mp path with hall | ⟨a, y, c, e, ha, hy⟩
  · left
    refine ⟨hall, ?_⟩
    have hr : ∀ x ∈ path.reverse, w x < mp := fun x hx => hall x (List.mem_reverse.mp hx)
    unfold trimPath
    rw [lowPrefix_all w mp path hall, lowPrefix_all w mp _ hr, List.length_reverse]
    cases path with
    | nil => simp
    | cons p t => simp
  · right
    -- split the reversed tail at its first node that is not low
    rcases low_split w mp (y :: c).reverse with hall | ⟨b', z, d, e', hb', hz⟩
    · exact absurd (hall y (by simp)) hy
    · have e2 : y :: c = d.reverse ++ z :: b'.reverse := by
        have := congrArg List.reverse e'
        simpa using this
      have epath : path = a ++ (d.reverse ++ [z]) ++ b'.reverse := by
        rw [e, e2]; simp
      have hfrom : lowPrefix w mp path = a.length := by rw [e]; exact lowPrefix_append w mp a y c ha hy
      have hrev : path.reverse = b' ++ z :: (d ++ a.reverse) := by rw [epath]; simp
      have hto : lowPrefix w mp path.reverse = b'.length := by rw [hrev]; exact lowPrefix_append w mp b' z _ hb' hz
      have hlen : path.length = a.length + (d.length + 1) + b'.length := by rw [epath]; simp; omega
      refine ⟨a, d.reverse ++ [z], b'.reverse, epath, ha, ?_, ?_, ⟨d.reverse, z, rfl, by omega⟩, ?_⟩
      · intro x hx; exact hb' x (List.mem_reverse.mp hx)
      · -- the head is y
        cases hd : d.reverse with
        | nil =>
          rw [hd] at e2
          simp only [List.nil_append, List.cons.injEq] at e2
          exact ⟨z, [], by simp, by rw [← e2.1]; omega⟩
        | cons p q =>
          rw [hd] at e2
          simp only [List.cons_append, List.cons.injEq] at e2
          exact ⟨p, q ++ [z], by simp, by rw [← e2.1]; omega⟩
      · unfold trimPath
        rw [hfrom, hto, hlen]
        have h1 : ¬ (a.length > a.length + (d.length + 1) + b'.length - b'.length) := by omega
        simp only [h1, if_false]
        congr 1
        rw [epath]
        have h2 : a.length + (d.length + 1) + b'.length - b'.length - a.length = (d.reverse ++ [z]).length := by
          simp
        rw [h2, List.append_assoc, List.drop_left, List.take_left]

/-- no panic as soon as one node of the path reaches the threshold -/
theorem trimPath_no_panic (w : Nat → Nat) (mp : Nat) (path : List Nat) (h : ∃ x ∈ path, mp ≤ w x) :
    trimPath w mp path ≠ .panic := by
  obtain ⟨x, hx, hw⟩ := h
  rcases trimPath_cases w mp path with ⟨hall, _⟩ | ⟨_, sp, _, _, _, _, _, _, e⟩
  · have := hall x hx; omega
  · rw [e]; intro h; cases h

/-! ## `MaxWeight`, `FilterMinWeight` -/

theorem foldl_max_ge (l : List (Nat × Nat)) (m : Nat) :
    m ≤ l.foldl (fun m p => if p.2 > m then p.2 else m) m ∧
    ∀ p ∈ l, p.2 ≤ l.foldl (fun m p => if p.2 > m then p.2 else m) m := by
  induction l generalizing m with
  | nil => simp
  | cons a t ih =>
    simp only [List.foldl_cons]
    obtain ⟨h1, h2⟩ := ih (if a.2 > m then a.2 else m)
    have h3 : m ≤ (if a.2 > m then a.2 else m) ∧ a.2 ≤ (if a.2 > m then a.2 else m) := by
      split <;> omega
    refine ⟨Nat.le_trans h3.1 h1, ?_⟩
    intro p hp
    rcases List.mem_cons.mp hp with rfl | hp
    · exact Nat.le_trans h3.2 h1
    · exact h2 p hp

theorem foldl_max_mem (l : List (Nat × Nat)) (m : Nat) :
    l.foldl (fun m p => if p.2 > m then p.2 else m) m = m ∨
    ∃ p ∈ l, p.2 = l.foldl (fun m p => if p.2 > m then p.2 else m) m := by
  induction l generalizing m with
  | nil => simp
  | cons a t ih =>
    simp only [List.foldl_cons]
    rcases ih (if a.2 > m then a.2 else m) with h | ⟨p, hp, e⟩
    · by_cases ha : a.2 > m
      · right; exact ⟨a, by simp, by rw [h]; simp [ha]⟩
      · left; rw [h]; simp [ha]
    · right; exact ⟨p, by simp [hp], e⟩

theorem weightOf_le_of_mem (nodes : List (Nat × Nat)) (x : Nat) : weightOf nodes x = 0 ∨ ∃ p ∈ nodes, p.1 = x ∧ p.2 = weightOf nodes x := by
  unfold weightOf
  induction nodes with
  | nil => simp
  | cons a t ih =>
    obtain ⟨y, v⟩ := a
    simp only [List.lookup]
    by_cases h : x = y
    · subst h; right; exact ⟨(x, v), by simp, rfl, by simp⟩
    · have : (x == y) = false := by simp [h]
      rw [this]
      rcases ih with h0 | ⟨p, hp, e1, e2⟩
      · left; exact h0
      · right; exact ⟨p, by simp [hp], e1, e2⟩

/-- lookup in a list without duplicate key -/
theorem lookup_of_mem_nodup (nodes : List (Nat × Nat)) (hn : (nodes.map Prod.fst).Nodup) (p : Nat × Nat) (hp : p ∈ nodes) :
    nodes.lookup p.1 = some p.2 := by
  induction nodes with
  | nil => cases hp
  | cons a t ih =>
    obtain ⟨y, v⟩ := a
    simp only [List.map_cons, List.nodup_cons] at hn
    simp only [List.lookup]
    rcases List.mem_cons.mp hp with rfl | hp
    · simp
    · have : p.1 ≠ y := by
        intro h; apply hn.1; rw [← h]; exact List.mem_map.mpr ⟨p, hp, rfl⟩
      have hb : (p.1 == y) = false := by simp [this]
      rw [hb]
      exact ih hn.2 hp

theorem lookup_filter_nodup (nodes : List (Nat × Nat)) (hn : (nodes.map Prod.fst).Nodup) (f : Nat × Nat → Bool) (x : Nat) :
    (nodes.filter f).lookup x = match nodes.lookup x with
      | some v => if f (x, v) then some v else none
      | none => none := by
  induction nodes with
  | nil => simp
  | cons a t ih =>
    obtain ⟨y, v⟩ := a
    simp only [List.map_cons, List.nodup_cons] at hn
    by_cases h : x = y
    · subst h
      have hnone : t.lookup x = none := by
        rw [List.lookup_eq_none_iff]
        intro p hp
        rw [bne_iff_ne]
        intro e; apply hn.1; rw [e]; exact List.mem_map.mpr ⟨p, hp, rfl⟩
      have hnone' : (t.filter f).lookup x = none := by
        rw [List.lookup_eq_none_iff]
        intro p hp
        rw [bne_iff_ne]
        intro e; apply hn.1; rw [e]; exact List.mem_map.mpr ⟨p, (List.mem_filter.mp hp).1, rfl⟩
      simp only [List.lookup, beq_self_eq_true]
      by_cases hf : f (x, v) = true
      · simp [List.filter, hf]
      · have hf' : f (x, v) = false := by simpa using hf
        simp [List.filter, hf', hnone']
    · have hb : (x == y) = false := by simp [h]
      simp only [List.lookup, hb]
      rw [← ih hn.2]
      by_cases hf : f (y, v) = true
      · simp [List.filter, hf, List.lookup, hb]
      · have hf' : f (y, v) = false := by simpa using hf
        simp [List.filter, hf']

theorem addWeight_keys_nodup (n : List (Nat × Nat)) (x w : Nat) (h : (n.map Prod.fst).Nodup) :
    ((addWeight n x w).map Prod.fst).Nodup := by
  induction n with
  | nil => simp [addWeight]
  | cons a t ih =>
    obtain ⟨y, v⟩ := a
    simp only [List.map_cons, List.nodup_cons] at h
    unfold addWeight
    by_cases e : y = x
    · simp only [e, if_true, List.map_cons, List.nodup_cons]; rw [← e]; exact h
    · simp only [e, if_false, List.map_cons, List.nodup_cons]
      refine ⟨?_, ih h.2⟩
      intro hm
      rcases keys_addWeight t x w y hm with h1 | h1
      · exact e h1
      · exact h.1 h1

theorem foldl_addWeight_nodup (w : Nat) (kmers : List Nat) : ∀ (n : List (Nat × Nat)), (n.map Prod.fst).Nodup →
    ((kmers.foldl (fun n key => addWeight n key w) n).map Prod.fst).Nodup := by
  induction kmers with
  | nil => intro n h; exact h
  | cons a t ih => intro n h; exact ih _ (addWeight_keys_nodup n a w h)

theorem pushLoop_nodup (k mask w : Nat) (bs : Bytes) : ∀ (i : Nat) (kmers : List Nat) (n : List (Nat × Nat)),
    (n.map Prod.fst).Nodup → ((pushLoop k mask w i kmers n bs).map Prod.fst).Nodup := by
  induction bs with
  | nil => intro i kmers n h; exact h
  | cons b t ih =>
    intro i kmers n h
    simp only [pushLoop]
    apply ih
    split
    · exact foldl_addWeight_nodup w _ n h
    · exact h

theorem push_nodup (g : Graph) (s : Bytes) (w : Nat) (h : g.keys.Nodup) : (g.push s w).keys.Nodup := by
  unfold Graph.push
  split
  · exact h
  · exact pushLoop_nodup g.k g.mask w s 0 [0] g.nodes h

/-- the keys of a graph built by `MakeDeBruijnGraph` and `Push` are distinct (a Go map has one entry per key) -/
theorem pushes_nodup (k : Nat) (reads : List (Bytes × Nat)) :
    (reads.foldl (fun g r => g.push r.1 r.2) (makeGraph k)).keys.Nodup := by
  have gen : ∀ (reads : List (Bytes × Nat)) (g : Graph), g.keys.Nodup →
      (reads.foldl (fun g r => g.push r.1 r.2) g).keys.Nodup := by
    intro reads
    induction reads with
    | nil => intro g h; exact h
    | cons r rs ih => intro g h; exact ih _ (push_nodup g r.1 r.2 h)
  exact gen reads (makeGraph k) (by simp [Graph.keys, makeGraph])

/-! ## graph level -/

theorem maxWeight_ge (g : Graph) (x : Nat) : g.weight x ≤ g.maxWeight := by
  rcases weightOf_le_of_mem g.nodes x with h | ⟨p, hp, _, e⟩
  · unfold Graph.weight; rw [h]; exact Nat.zero_le _
  · unfold Graph.weight Graph.maxWeight; rw [← e]; exact (foldl_max_ge g.nodes 0).2 p hp

theorem weight_of_mem_nodup (g : Graph) (hn : g.keys.Nodup) (p : Nat × Nat) (hp : p ∈ g.nodes) : g.weight p.1 = p.2 := by
  unfold Graph.weight weightOf
  rw [lookup_of_mem_nodup g.nodes hn p hp]; rfl

theorem maxWeight_attained (g : Graph) (hn : g.keys.Nodup) (hne : g.nodes ≠ []) :
    ∃ x ∈ g.keys, g.weight x = g.maxWeight := by
  rcases foldl_max_mem g.nodes 0 with h | ⟨p, hp, e⟩
  · cases hnodes : g.nodes with
    | nil => exact absurd hnodes hne
    | cons a t =>
      have ha : a ∈ g.nodes := by rw [hnodes]; simp
      refine ⟨a.1, List.mem_map.mpr ⟨a, ha, rfl⟩, ?_⟩
      have h1 := maxWeight_ge g a.1
      unfold Graph.maxWeight at h1 ⊢
      rw [h] at h1 ⊢
      omega
  · exact ⟨p.1, List.mem_map.mpr ⟨p, hp, rfl⟩, by rw [weight_of_mem_nodup g hn p hp, e]; rfl⟩

theorem filterMinWeight_lookup (g : Graph) (hn : g.keys.Nodup) (min : Int) (x : Nat) :
    (g.filterMinWeight min).nodes.lookup x =
      match g.nodes.lookup x with
      | some v => if 0 ≤ min ∧ min.toNat ≤ v then some v else none
      | none => none := by
  unfold Graph.filterMinWeight
  by_cases hm : min < 0
  · simp only [hm, if_true, List.lookup]
    have : ¬ (0 ≤ min) := by omega
    cases g.nodes.lookup x <;> simp [this]
  · simp only [hm, if_false]
    rw [lookup_filter_nodup g.nodes hn]
    have h0 : 0 ≤ min := by omega
    cases g.nodes.lookup x with
    | none => rfl
    | some v =>
      simp only [h0, true_and]
      by_cases hv : v < min.toNat
      · have : ¬ (min.toNat ≤ v) := by omega
        simp [hv, this]
      · have : min.toNat ≤ v := by omega
        simp [hv, this]

theorem filterMinWeight_weight (g : Graph) (hn : g.keys.Nodup) (min : Int) (x : Nat) :
    (g.filterMinWeight min).weight x = if 0 ≤ min ∧ min.toNat ≤ g.weight x then g.weight x else 0 := by
  unfold Graph.weight weightOf
  rw [filterMinWeight_lookup g hn]
  cases g.nodes.lookup x with
  | none => simp
  | some v =>
    simp only [Option.getD_some]
    split <;> rfl

theorem filterMinWeight_keys (g : Graph) (hn : g.keys.Nodup) (min : Int) (x : Nat) :
    x ∈ (g.filterMinWeight min).keys ↔ x ∈ g.keys ∧ 0 ≤ min ∧ min.toNat ≤ g.weight x := by
  rw [← Graph.has_iff, ← Graph.has_iff]
  unfold has Graph.weight weightOf
  rw [filterMinWeight_lookup g hn]
  cases g.nodes.lookup x with
  | none => simp
  | some v =>
    simp only [Option.getD_some, Option.isSome_some, true_and]
    split <;> simp_all

theorem filterMinWeight_sublist (g : Graph) (min : Int) : (g.filterMinWeight min).keys.Sublist g.keys := by
  unfold Graph.filterMinWeight Graph.keys
  split
  · simp
  · exact (List.filter_sublist).map _

theorem filterMinWeight_nodup (g : Graph) (hn : g.keys.Nodup) (min : Int) : (g.filterMinWeight min).keys.Nodup :=
  (filterMinWeight_sublist g min).nodup hn

theorem filterMinWeight_wf (g : Graph) (h : g.WF) (min : Int) : (g.filterMinWeight min).WF :=
  { kpos := h.kpos, k32 := h.k32, mask := h.mask, prevc := h.prevc, prevg := h.prevg, prevt := h.prevt,
    bound := fun x hx => h.bound x ((filterMinWeight_sublist g min).subset hx) }

theorem filterMinWeight_pos (g : Graph) (hn : g.keys.Nodup) (min : Int) (hpos : ∀ x ∈ g.keys, 0 < g.weight x) :
    ∀ x ∈ (g.filterMinWeight min).keys, 0 < (g.filterMinWeight min).weight x := by
  intro x hx
  obtain ⟨h1, h2, h3⟩ := (filterMinWeight_keys g hn min x).1 hx
  rw [filterMinWeight_weight g hn, if_pos ⟨h2, h3⟩]
  exact hpos x h1

/-- an infix of a walk is a walk -/
theorem Graph.Walk.infix {g : Graph} (a sp b : List Nat) (h : g.Walk (a ++ sp ++ b)) : g.Walk sp :=
  ((Graph.Walk.append a sp ((Graph.Walk.append (a ++ sp) b h).1)).2)

theorem longestConsensusCov_of_path (g : Graph) (fuel m : Nat) (e : Int) (pick : List Nat → Nat) (p : List Nat)
    (hne : g.nodes ≠ []) (h : g.heaviestPathH fuel = .path p) :
    g.longestConsensusCov fuel m e pick =
      match trimPath g.weight (covThreshold (pick (p.map g.weight)) m e) p with
      | .panic => .panic
      | .path sp => if (g.decodePath sp).isEmpty then .err else .seq (g.decodePath sp) := by
  unfold Graph.longestConsensusCov
  have : g.nodes.isEmpty = false := by cases hn : g.nodes with
    | nil => exact absurd hn hne
    | cons _ _ => rfl
  rw [this, h]
  simp only [Bool.false_eq_true, if_false]
  cases trimPath g.weight (covThreshold (pick (p.map g.weight)) m e) p <;> rfl

end ObiVerif.DeBruijn
