import ObiVerif.Lemmas.PESingleDiag
import ObiVerif.Lemmas.PEUnique
/-!
# C08: transposition of a fill, the "B first" single-diagonal theorem, and which scheme wins

`sx_tr` exchanges the two reads: a fill of `(s, cA, cB, la, lb)` transposes into a fill of
`(sx_tr s, cB, cA, lb, la)`, and strictness along a walk is preserved when the steps `A` and `B` are exchanged.
With it `strictAlong_single_diagonal` (read A starts first) gives its "read B starts first" counterpart, and the
diagonal bound of `PESingleDiag` tells which of the two end-gap-free schemes scores more on a table with a
single positively scoring diagonal.  All auxiliary names are prefixed `sx_`.
-/
set_option Elab.async false

namespace ObiVerif.PEAlign
open ObiVerif.Align

/-! ## (T1) transposition -/

def sx_tr (M : Nat → Nat → Int) : Nat → Nat → Int := fun i j => M j i

def sx_trStep : Step → Step
  | .A => .B
  | .B => .A
  | .D => .D

/-- a path matrix that goes with the score matrix `M` for the recurrence `(s, cA, cB)` -/
def sx_pathOf (s : Nat → Nat → Int) (cA cB : Nat → Int) (M : Nat → Nat → Int) : Nat → Nat → Int
  | 0, 0 => 0
  | _ + 1, 0 => -1
  | 0, _ + 1 => 1
  | i + 1, j + 1 => (best (M i j + s i j) (M (i + 1) j + cB (i + 1)) (M i (j + 1) + cA (j + 1))).2

theorem sx_best_fst_comm (d l t : Int) : (best d l t).1 = (best d t l).1 := by
  rcases best_cases d l t with h1 | h1 | h1 <;> rcases best_cases d t l with h2 | h2 | h2 <;>
    (rw [h1.1, h2.1] <;> simp only <;> omega)

theorem sx_isFill_tr {s : Nat → Nat → Int} {cA cB : Nat → Int} {la lb : Nat} {M P : Nat → Nat → Int}
    (hf : IsFill s cA cB la lb M P) :
    IsFill (sx_tr s) cB cA lb la (sx_tr M) (sx_pathOf (sx_tr s) cB cA (sx_tr M)) where
  m00 := hf.m00
  col0 := fun i h => ⟨(hf.row0 i h).1, rfl⟩
  row0 := fun j h => ⟨(hf.col0 j h).1, rfl⟩
  inner := by
    intro i j hi hj
    have h := congrArg Prod.fst (hf.inner j i hj hi)
    simp only at h
    rw [sx_best_fst_comm] at h
    apply Prod.ext
    · exact h
    · rfl

theorem isFill_transpose {s : Nat → Nat → Int} {cA cB : Nat → Int} {la lb : Nat} {M P : Nat → Nat → Int}
    (hf : IsFill s cA cB la lb M P) : ∃ P', IsFill (sx_tr s) cB cA lb la (sx_tr M) P' :=
  ⟨_, sx_isFill_tr hf⟩

theorem sx_trStep_di (t : Step) : (sx_trStep t).di = t.dj := by cases t <;> rfl
theorem sx_trStep_dj (t : Step) : (sx_trStep t).dj = t.di := by cases t <;> rfl
theorem sx_trStep_invol (t : Step) : sx_trStep (sx_trStep t) = t := by cases t <;> rfl

theorem cand_transpose (M s : Nat → Nat → Int) (cA cB : Nat → Int) (i j : Nat) (t : Step) :
    cand (sx_tr M) (sx_tr s) cB cA j i (sx_trStep t) = cand M s cA cB i j t := by
  cases t <;> simp [cand, sx_tr, sx_trStep, and_comm]

theorem strictAt_transpose (M s : Nat → Nat → Int) (cA cB : Nat → Int) (i j : Nat) (t : Step) :
    strictAt (sx_tr M) (sx_tr s) cB cA j i (sx_trStep t) = strictAt M s cA cB i j t := by
  have hA := cand_transpose M s cA cB i j Step.A
  have hB := cand_transpose M s cA cB i j Step.B
  have hD := cand_transpose M s cA cB i j Step.D
  simp only [sx_trStep] at hA hB hD
  unfold strictAt
  rw [cand_transpose]
  cases hc : cand M s cA cB i j t with
  | none => rfl
  | some v =>
    simp only [List.all_cons, List.all_nil, Bool.and_true, hA, hB, hD]
    cases t <;> simp [sx_trStep, Bool.and_comm]

theorem strictAlong_transpose (M s : Nat → Nat → Int) (cA cB : Nat → Int) :
    ∀ (ts : List Step) (i j : Nat),
      strictAlong (sx_tr M) (sx_tr s) cB cA j i (ts.map sx_trStep) = strictAlong M s cA cB i j ts
  | [], _, _ => rfl
  | t :: ts, i, j => by
    simp only [List.map_cons, strictAlong, sx_trStep_di, sx_trStep_dj]
    rw [strictAt_transpose, strictAlong_transpose M s cA cB ts]

/-! ## (T2) read B starts first -/

theorem sx_stepsOf_right (d ov e : Nat) :
    (stepsOf [(d : Int), (ov : Int), -(e : Int), 0]).map sx_trStep =
      stepsOf [-(d : Int), (ov : Int), (e : Int), 0] := by
  have h2 : (-(d : Int)).toNat = 0 := by omega
  have h3 : (-(e : Int)).toNat = 0 := by omega
  simp [stepsOf, h2, h3, sx_trStep]

theorem strictAlong_single_diagonal_right {s : Nat → Nat → Int} {cA cB : Nat → Int} {M P : Nat → Nat → Int}
    (d ov e : Nat) (hov : 0 < ov)
    (hf : IsFill s cA cB (ov + e) (d + ov) M P)
    (hcA : ∀ j, cA j ≤ 0) (hcB : ∀ i, cB i ≤ 0)
    (hcB0 : cB 0 = 0) (hcAl : cA (d + ov) = 0)
    (hpos : ∀ k, k < ov → 0 < s k (d + k))
    (hneg : ∀ i j, i < ov + e → j < d + ov → j ≠ d + i → s i j < 0) :
    strictAlong M s cA cB 0 0 (stepsOf [(d : Int), (ov : Int), -(e : Int), 0]) = true := by
  rw [← strictAlong_transpose, sx_stepsOf_right]
  exact strictAlong_single_diagonal d ov e hov (sx_isFill_tr hf) hcB hcA hcB0 hcAl
    (fun k hk => hpos k hk) (fun i j hi hj hij => hneg j i hj hi hij)

/-! ## (T3) which scheme wins -/

section SX
variable {s : Nat → Nat → Int} {cA cB : Nat → Int} {M P : Nat → Nat → Int} {d ov e : Nat}

theorem sx_col0_le {la lb : Nat} (hf : IsFill s cA cB la lb M P) (h0 : cA 0 ≤ 0) : ∀ i, i ≤ la → M i 0 ≤ 0
  | 0, _ => by rw [hf.m00]; exact Int.le_refl _
  | i + 1, h => by
    have h1 := (hf.col0 i (by omega)).1
    have h2 := sx_col0_le hf h0 i (by omega)
    omega

theorem sx_row0_le {la lb : Nat} (hf : IsFill s cA cB la lb M P) (h0 : cB 0 ≤ 0) : ∀ j, j ≤ lb → M 0 j ≤ 0
  | 0, _ => by rw [hf.m00]; exact Int.le_refl _
  | j + 1, h => by
    have h1 := (hf.row0 j (by omega)).1
    have h2 := sx_row0_le hf h0 j (by omega)
    omega

/-- with a costly column 0 the cell (i, 0) is at most `-i` -/
theorem sx_col0_neg {la lb : Nat} (hf : IsFill s cA cB la lb M P) (h0 : cA 0 ≤ -1) :
    ∀ i, i ≤ la → M i 0 ≤ -(i : Int)
  | 0, _ => by rw [hf.m00]; exact Int.le_refl _
  | i + 1, h => by
    have h1 := (hf.col0 i (by omega)).1
    have h2 := sx_col0_neg hf h0 i (by omega)
    omega

theorem sx_T_nonneg (hpos : ∀ k, k < ov → 0 < s (d + k) k) (i j : Nat) (h : min j (i - d) ≤ ov) :
    0 ≤ sd_T s d i j := by
  have h1 : sd_R s d 0 ≤ sd_T s d i j := sd_R_mono hpos (min j (i - d)) 0 (by omega) h
  rw [sd_R_zero] at h1
  exact h1

theorem sx_R_pos (hpos : ∀ k, k < ov → 0 < s (d + k) k) (k : Nat) (h0 : 0 < k) (hk : k ≤ ov) :
    1 ≤ sd_R s d k := by
  have h01 : sd_R s d 0 < sd_R s d 1 := sd_R_lt hpos 0 (by omega)
  have h1 := sd_R_mono hpos k 1 (by omega) hk
  rw [sd_R_zero] at h01
  omega

/-- (a) **weak bound, any scheme with non-positive costs**: generalisation of `sd_inv` (no `cA 0 = 0`) -/
theorem sx_inv_any (hf : IsFill s cA cB (d + ov) (ov + e) M P)
    (hcA : ∀ j, cA j ≤ 0) (hcB : ∀ i, cB i ≤ 0)
    (hpos : ∀ k, k < ov → 0 < s (d + k) k)
    (hneg : ∀ i j, i < d + ov → j < ov + e → i ≠ d + j → s i j < 0) :
    ∀ (j i : Nat), i ≤ d + ov → j ≤ ov + e → M i j ≤ sd_T s d i j
  | 0, i, hi, _ => by
    rw [sd_T_eq i 0 0 (by omega), sd_R_zero]
    exact sx_col0_le hf (hcA 0) i hi
  | j + 1, 0, _, hj => by
    rw [sd_T_eq 0 (j + 1) 0 (by omega), sd_R_zero]
    exact sx_row0_le hf (hcB 0) (j + 1) hj
  | j + 1, i + 1, hi, hj =>
    sd_inv_step hf hcA hcB hpos hneg i j (by omega) (by omega)
      (sx_inv_any hf hcA hcB hpos hneg j i (by omega) (by omega))
      (sx_inv_any hf hcA hcB hpos hneg j (i + 1) hi (by omega))
      (sx_inv_any hf hcA hcB hpos hneg (j + 1) i (by omega) hj)

theorem sx_corner_le (hf : IsFill s cA cB (d + ov) (ov + e) M P)
    (hcA : ∀ j, cA j ≤ 0) (hcB : ∀ i, cB i ≤ 0)
    (hpos : ∀ k, k < ov → 0 < s (d + k) k)
    (hneg : ∀ i j, i < d + ov → j < ov + e → i ≠ d + j → s i j < 0) :
    M (d + ov) (ov + e) ≤ sd_R s d ov := by
  have h := sx_inv_any hf hcA hcB hpos hneg (ov + e) (d + ov) (Nat.le_refl _) (Nat.le_refl _)
  rw [sd_T_eq (d + ov) (ov + e) ov (by omega)] at h
  exact h

/-! ### (b) right scheme, read A starts strictly first -/

theorem sx_invR_step (hf : IsFill s cA cB (d + ov) (ov + e) M P)
    (hcA : ∀ j, cA j ≤ 0) (hcBm : ∀ i, 0 < i → cB i ≤ -1)
    (hM0 : M d 0 ≤ -1)
    (hpos : ∀ k, k < ov → 0 < s (d + k) k)
    (hneg : ∀ i j, i < d + ov → j < ov + e → i ≠ d + j → s i j < 0)
    (i j : Nat) (hi : i < d + ov) (hj : j < ov + e)
    (hD : M i j ≤ max 0 (sd_T s d i j - 1)) (hB : M (i + 1) j ≤ max 0 (sd_T s d (i + 1) j - 1))
    (hA : M i (j + 1) ≤ max 0 (sd_T s d i (j + 1) - 1)) :
    M (i + 1) (j + 1) ≤ max 0 (sd_T s d (i + 1) (j + 1) - 1) := by
  have hDle : M i j + s i j ≤ max 0 (sd_T s d (i + 1) (j + 1) - 1) := by
    by_cases hij : i = d + j
    · subst hij
      have e1 : sd_T s d (d + j) j = sd_R s d j := sd_T_eq _ _ _ (by omega)
      have e2 : sd_T s d (d + j + 1) (j + 1) = sd_R s d (j + 1) := sd_T_eq _ _ _ (by omega)
      rw [e2, sd_R_succ]; rw [e1] at hD
      by_cases hj0 : j = 0
      · subst hj0
        rw [Nat.add_zero] at *
        rw [sd_R_zero]
        omega
      · have := sx_R_pos hpos j (by omega) (by omega)
        omega
    · have h1 := hneg i j hi hj hij
      have h2 := sd_T_mono hpos i j (i + 1) (j + 1) (by omega) (by omega)
      omega
  have hBle : M (i + 1) j + cB (i + 1) ≤ max 0 (sd_T s d (i + 1) (j + 1) - 1) := by
    have h1 := hcBm (i + 1) (by omega)
    have h2 := sd_T_mono hpos (i + 1) j (i + 1) (j + 1) (by omega) (by omega)
    omega
  have hAle : M i (j + 1) + cA (j + 1) ≤ max 0 (sd_T s d (i + 1) (j + 1) - 1) := by
    have h1 := hcA (j + 1)
    have h2 := sd_T_mono hpos i (j + 1) (i + 1) (j + 1) (by omega) (by omega)
    omega
  have h := congrArg Prod.fst (hf.inner i j hi hj)
  rcases best_cases (M i j + s i j) (M (i + 1) j + cB (i + 1)) (M i (j + 1) + cA (j + 1)) with hb | hb | hb <;>
    (rw [hb.1] at h; simp only at h; omega)

theorem sx_invR (hf : IsFill s cA cB (d + ov) (ov + e) M P)
    (hcA : ∀ j, cA j ≤ 0) (hcB0 : cB 0 ≤ 0) (hcBm : ∀ i, 0 < i → cB i ≤ -1)
    (hM0 : M d 0 ≤ -1)
    (hpos : ∀ k, k < ov → 0 < s (d + k) k)
    (hneg : ∀ i j, i < d + ov → j < ov + e → i ≠ d + j → s i j < 0) :
    ∀ (j i : Nat), i ≤ d + ov → j ≤ ov + e → M i j ≤ max 0 (sd_T s d i j - 1)
  | 0, i, hi, _ => by
    have := sx_col0_le hf (hcA 0) i hi
    omega
  | j + 1, 0, _, hj => by
    have := sx_row0_le hf hcB0 (j + 1) hj
    omega
  | j + 1, i + 1, hi, hj =>
    sx_invR_step hf hcA hcBm hM0 hpos hneg i j (by omega) (by omega)
      (sx_invR hf hcA hcB0 hcBm hM0 hpos hneg j i (by omega) (by omega))
      (sx_invR hf hcA hcB0 hcBm hM0 hpos hneg j (i + 1) hi (by omega))
      (sx_invR hf hcA hcB0 hcBm hM0 hpos hneg (j + 1) i (by omega) hj)

/-- (b) **strict bound, right scheme, `d ≥ 1`**: the corner misses the true diagonal by at least 1 -/
theorem sx_right_corner_d (hf : IsFill s cA cB (d + ov) (ov + e) M P)
    (hcA : ∀ j, cA j ≤ 0) (hcAm : ∀ j, j < ov + e → cA j ≤ -1)
    (hcB : ∀ i, cB i ≤ 0) (hcBm : ∀ i, 0 < i → cB i ≤ -1)
    (hd : 0 < d) (hov : 0 < ov)
    (hpos : ∀ k, k < ov → 0 < s (d + k) k)
    (hneg : ∀ i j, i < d + ov → j < ov + e → i ≠ d + j → s i j < 0) :
    M (d + ov) (ov + e) ≤ sd_R s d ov - 1 := by
  have hM0 : M d 0 ≤ -1 := by
    have := sx_col0_neg hf (hcAm 0 (by omega)) d (by omega)
    omega
  have h := sx_invR hf hcA (hcB 0) hcBm hM0 hpos hneg (ov + e) (d + ov) (Nat.le_refl _) (Nat.le_refl _)
  rw [sd_T_eq (d + ov) (ov + e) ov (by omega)] at h
  have := sx_R_pos hpos ov hov (Nat.le_refl _)
  omega

/-! ### (c) right scheme, both reads start together, B is longer -/

theorem sx_invE_step (hf : IsFill s cA cB (0 + ov) (ov + e) M P)
    (hcA : ∀ j, cA j ≤ 0) (hcBm : ∀ i, 0 < i → cB i ≤ -1)
    (hpos : ∀ k, k < ov → 0 < s (0 + k) k)
    (hneg : ∀ i j, i < 0 + ov → j < ov + e → i ≠ 0 + j → s i j < 0)
    (i j : Nat) (hi : i < 0 + ov) (hj : j < ov + e)
    (hD : M i j ≤ max 0 (sd_T s 0 i j - (if i < j then 1 else 0)))
    (hB : M (i + 1) j ≤ max 0 (sd_T s 0 (i + 1) j - (if i + 1 < j then 1 else 0)))
    (hA : M i (j + 1) ≤ max 0 (sd_T s 0 i (j + 1) - (if i < j + 1 then 1 else 0))) :
    M (i + 1) (j + 1) ≤ max 0 (sd_T s 0 (i + 1) (j + 1) - (if i + 1 < j + 1 then 1 else 0)) := by
  have hDle : M i j + s i j ≤ max 0 (sd_T s 0 (i + 1) (j + 1) - (if i + 1 < j + 1 then 1 else 0)) := by
    by_cases hij : i = 0 + j
    · subst hij
      have e1 : sd_T s 0 (0 + j) j = sd_R s 0 j := sd_T_eq _ _ _ (by omega)
      have e2 : sd_T s 0 (0 + j + 1) (j + 1) = sd_R s 0 (j + 1) := sd_T_eq _ _ _ (by omega)
      rw [e2, sd_R_succ]; rw [e1] at hD
      have h0 : sd_R s 0 0 ≤ sd_R s 0 j := sd_R_mono hpos j 0 (by omega) (by omega)
      rw [sd_R_zero] at h0
      omega
    · have h1 := hneg i j hi hj hij
      have h2 := sd_T_mono hpos i j (i + 1) (j + 1) (by omega) (by omega)
      omega
  have hBle : M (i + 1) j + cB (i + 1) ≤ max 0 (sd_T s 0 (i + 1) (j + 1) - (if i + 1 < j + 1 then 1 else 0)) := by
    have h1 := hcBm (i + 1) (by omega)
    have h2 := sd_T_mono hpos (i + 1) j (i + 1) (j + 1) (by omega) (by omega)
    omega
  have hAle : M i (j + 1) + cA (j + 1) ≤ max 0 (sd_T s 0 (i + 1) (j + 1) - (if i + 1 < j + 1 then 1 else 0)) := by
    have h1 := hcA (j + 1)
    have h2 := sd_T_mono hpos i (j + 1) (i + 1) (j + 1) (by omega) (by omega)
    omega
  have h := congrArg Prod.fst (hf.inner i j hi hj)
  rcases best_cases (M i j + s i j) (M (i + 1) j + cB (i + 1)) (M i (j + 1) + cA (j + 1)) with hb | hb | hb <;>
    (rw [hb.1] at h; simp only at h; omega)

theorem sx_invE (hf : IsFill s cA cB (0 + ov) (ov + e) M P)
    (hcA : ∀ j, cA j ≤ 0) (hcB0 : cB 0 ≤ 0) (hcBm : ∀ i, 0 < i → cB i ≤ -1)
    (hpos : ∀ k, k < ov → 0 < s (0 + k) k)
    (hneg : ∀ i j, i < 0 + ov → j < ov + e → i ≠ 0 + j → s i j < 0) :
    ∀ (j i : Nat), i ≤ 0 + ov → j ≤ ov + e → M i j ≤ max 0 (sd_T s 0 i j - (if i < j then 1 else 0))
  | 0, i, hi, _ => by
    have := sx_col0_le hf (hcA 0) i hi
    omega
  | j + 1, 0, _, hj => by
    have := sx_row0_le hf hcB0 (j + 1) hj
    omega
  | j + 1, i + 1, hi, hj =>
    sx_invE_step hf hcA hcBm hpos hneg i j (by omega) (by omega)
      (sx_invE hf hcA hcB0 hcBm hpos hneg j i (by omega) (by omega))
      (sx_invE hf hcA hcB0 hcBm hpos hneg j (i + 1) hi (by omega))
      (sx_invE hf hcA hcB0 hcBm hpos hneg (j + 1) i (by omega) hj)

/-- (c) **strict bound, right scheme, `d = 0`, `e ≥ 1`** -/
theorem sx_right_corner_e (hf : IsFill s cA cB (0 + ov) (ov + e) M P)
    (hcA : ∀ j, cA j ≤ 0) (hcB : ∀ i, cB i ≤ 0) (hcBm : ∀ i, 0 < i → cB i ≤ -1)
    (he : 0 < e) (hov : 0 < ov)
    (hpos : ∀ k, k < ov → 0 < s (0 + k) k)
    (hneg : ∀ i j, i < 0 + ov → j < ov + e → i ≠ 0 + j → s i j < 0) :
    M (0 + ov) (ov + e) ≤ sd_R s 0 ov - 1 := by
  have h := sx_invE hf hcA (hcB 0) hcBm hpos hneg (ov + e) (0 + ov) (Nat.le_refl _) (Nat.le_refl _)
  rw [sd_T_eq (0 + ov) (ov + e) ov (by omega)] at h
  have := sx_R_pos hpos ov hov (Nat.le_refl _)
  omega

end SX

/-! ### the costs of the two schemes -/

theorem sx_cALeft_le {g : Int} (hg : g ≤ 0) (j : Nat) : cALeft g j ≤ 0 := by
  unfold cALeft; split <;> omega

theorem sx_cBLeft_le {g : Int} (hg : g ≤ 0) (la i : Nat) : cBLeft g la i ≤ 0 := by
  unfold cBLeft; split <;> omega

theorem sx_cARight_le {g : Int} (hg : g ≤ 0) (lb j : Nat) : cARight g lb j ≤ 0 := by
  unfold cARight; split <;> omega

theorem sx_cBRight_le {g : Int} (hg : g ≤ 0) (i : Nat) : cBRight g i ≤ 0 := by
  unfold cBRight; split <;> omega

theorem sx_cARight_lt {g : Int} (hg : g < 0) (lb j : Nat) (h : j < lb) : cARight g lb j ≤ -1 := by
  unfold cARight; split <;> omega

theorem sx_cBRight_lt {g : Int} (hg : g < 0) (i : Nat) (h : 0 < i) : cBRight g i ≤ -1 := by
  unfold cBRight; split <;> omega

theorem sx_cBLeft_last (g : Int) (la : Nat) : cBLeft g la la = 0 := by simp [cBLeft]
theorem sx_cARight_last (g : Int) (lb : Nat) : cARight g lb lb = 0 := by simp [cARight]

/-- (d) read A starts first (or B ends last): the right scheme scores strictly less than the left one -/
theorem right_lt_left_single_diagonal (s : Nat → Nat → Int) (g : Int) (d ov e : Nat) (hov : 0 < ov) (hg : g < 0)
    (hde : 0 < d ∨ 0 < e)
    (hpos : ∀ k, k < ov → 0 < s (d + k) k)
    (hneg : ∀ i j, i < d + ov → j < ov + e → i ≠ d + j → s i j < 0) :
    Mf s (cARight g (ov + e)) (cBRight g) (d + ov) (d + ov) (ov + e)
      < Mf s (cALeft g) (cBLeft g (d + ov)) (d + ov) (d + ov) (ov + e) := by
  have hg' : g ≤ 0 := by omega
  have hL : Mf s (cALeft g) (cBLeft g (d + ov)) (d + ov) (d + ov) (ov + e) = sd_R s d ov := by
    have h := sd_tail_val (isFill_cells s (cALeft g) (cBLeft g (d + ov)) (d + ov) (ov + e))
      (sx_cALeft_le hg') (sx_cBLeft_le hg' (d + ov)) rfl (sx_cBLeft_last g (d + ov)) hpos hneg e (Nat.le_refl _)
    exact h
  have hR : Mf s (cARight g (ov + e)) (cBRight g) (d + ov) (d + ov) (ov + e) ≤ sd_R s d ov - 1 := by
    by_cases hd : 0 < d
    · exact sx_right_corner_d (isFill_cells s (cARight g (ov + e)) (cBRight g) (d + ov) (ov + e))
        (sx_cARight_le hg' (ov + e)) (sx_cARight_lt hg (ov + e)) (sx_cBRight_le hg') (sx_cBRight_lt hg)
        hd hov hpos hneg
    · have hd0 : d = 0 := by omega
      subst hd0
      exact sx_right_corner_e (isFill_cells s (cARight g (ov + e)) (cBRight g) (0 + ov) (ov + e))
        (sx_cARight_le hg' (ov + e)) (sx_cBRight_le hg') (sx_cBRight_lt hg) (by omega) hov hpos hneg
  omega

set_option linter.unusedVariables false in
/-- (e) read B starts first: the left scheme never scores more than the right one -/
theorem left_le_right_single_diagonal (s : Nat → Nat → Int) (g : Int) (d ov e : Nat) (hov : 0 < ov) (hg : g ≤ 0)
    (hpos : ∀ k, k < ov → 0 < s k (d + k))
    (hneg : ∀ i j, i < ov + e → j < d + ov → j ≠ d + i → s i j < 0) :
    Mf s (cALeft g) (cBLeft g (ov + e)) (ov + e) (ov + e) (d + ov)
      ≤ Mf s (cARight g (d + ov)) (cBRight g) (ov + e) (ov + e) (d + ov) := by
  have hpos' : ∀ k, k < ov → 0 < sx_tr s (d + k) k := fun k hk => hpos k hk
  have hneg' : ∀ i j, i < d + ov → j < ov + e → i ≠ d + j → sx_tr s i j < 0 :=
    fun i j hi hj hij => hneg j i hj hi hij
  have hL := sx_corner_le (sx_isFill_tr (isFill_cells s (cALeft g) (cBLeft g (ov + e)) (ov + e) (d + ov)))
    (sx_cBLeft_le hg (ov + e)) (sx_cALeft_le hg) hpos' hneg'
  have hR := sd_tail_val (sx_isFill_tr (isFill_cells s (cARight g (d + ov)) (cBRight g) (ov + e) (d + ov)))
    (sx_cBRight_le hg) (sx_cARight_le hg (d + ov)) rfl (sx_cARight_last g (d + ov)) hpos' hneg' e (Nat.le_refl _)
  simp only [sx_tr] at hL hR
  omega

/-! ## non-vacuity -/

/-- a 3 × 3 instance (one base of A alone, two diagonal columns, one base of B alone), executed fills -/
example :
    Mf (fun i j => if i = j + 1 then 2 else -1) (cARight (-3) (2 + 1)) (cBRight (-3)) (1 + 2) (1 + 2) (2 + 1)
      < Mf (fun i j => if i = j + 1 then 2 else -1) (cALeft (-3)) (cBLeft (-3) (1 + 2)) (1 + 2) (1 + 2) (2 + 1) := by
  apply right_lt_left_single_diagonal (fun i j => if i = j + 1 then 2 else -1) (-3) 1 2 1 (by omega) (by omega)
    (Or.inl (by omega))
  · intro k _
    have : 1 + k = k + 1 := by omega
    simp [this]
  · intro i j _ _ h
    have : ¬ i = j + 1 := by omega
    simp [this]

/-- the mirrored instance for `strictAlong_single_diagonal_right` (read B starts first), right scheme -/
example :
    strictAlong (Mf (fun i j => if j = i + 1 then 2 else -1) (cARight (-3) 3) (cBRight (-3)) 3)
      (fun i j => if j = i + 1 then 2 else -1) (cARight (-3) 3) (cBRight (-3)) 0 0
      (stepsOf [((1 : Nat) : Int), ((2 : Nat) : Int), -((1 : Nat) : Int), 0]) = true := by
  apply strictAlong_single_diagonal_right 1 2 1 (by omega)
    (isFill_cells (fun i j => if j = i + 1 then 2 else -1) (cARight (-3) 3) (cBRight (-3)) (2 + 1) (1 + 2))
  · intro j; unfold cARight; split <;> omega
  · intro i; unfold cBRight; split <;> omega
  · rfl
  · rfl
  · intro k _
    have : 1 + k = k + 1 := by omega
    simp [this]
  · intro i j _ _ h
    have : ¬ j = i + 1 := by omega
    simp [this]

end ObiVerif.PEAlign
