import ObiVerif.Props.C20Gen
set_option Elab.async false
namespace ObiVerif.Props.C20Gen
open ObiVerif

theorem lz_le {x : Nat} (h : x ≠ 0) : Fp.bitsLeadingZeros64 x ≤ 63 := by
  unfold Fp.bitsLeadingZeros64; simp only [h, if_false]; omega

theorem bitsDiv64_q_lt {hi lo y q r : Nat} (hlo : lo < Fp.W) (h : Fp.bitsDiv64 hi lo y = .ok (q, r)) : q < Fp.W := by
  unfold Fp.bitsDiv64 at h
  split at h
  · cases h
  · rename_i hc
    have hy : hi < y := by omega
    injection h with h; injection h with h1 h2
    subst h1
    apply Nat.div_lt_of_lt_mul
    calc hi * Fp.W + lo < hi * Fp.W + Fp.W := by omega
      _ = (hi + 1) * Fp.W := by rw [Nat.add_mul, Nat.one_mul]
      _ ≤ y * Fp.W := Nat.mul_le_mul_right _ hy

theorem gen_U128_quoRem : ∀ u v, u.WF → Gen.Fp.U128.quoRem u v = Fp.U128.quoRem u v := by
  intro u v hu
  unfold Gen.Fp.U128.quoRem Fp.U128.quoRem
  simp only [gen_U128_quoRem64, gen_U128_leftShift, gen_U128_rightShift, gen_U128_mul64, gen_U128_sub, gen_U128_cmp, gen_U128_add64]
  by_cases hv : v.w1 = 0
  · simp only [hv, beq_self_eq_true, if_true]
    cases Fp.U128.quoRem64 u v.w0 with
    | error e => rfl
    | ok a => cases a; rfl
  · have hb : (v.w1 == 0) = false := by simp [hv]
    simp only [hb, hv, if_false, Bool.false_eq_true]
    have hn := subw_of_le (lz_le hv) (by decide : 63 < Fp.W)
    simp only [hn]
    have hwf := (Fp.U128.rightShift_spec u 1 hu).1
    cases hd : Fp.bitsDiv64 (u.rightShift 1).w1 (u.rightShift 1).w0 (v.leftShift (Fp.bitsLeadingZeros64 v.w1)).w1 with
    | error e => rfl
    | ok a =>
      obtain ⟨tq, r0⟩ := a
      have hq : tq < Fp.W := bitsDiv64_q_lt hwf.2 hd
      simp only [bind, Except.bind]
      have hle : Fp.shr64 tq (63 - Fp.bitsLeadingZeros64 v.w1) ≤ tq := Nat.div_le_self _ _
      generalize Fp.shr64 tq (63 - Fp.bitsLeadingZeros64 v.w1) = t at hle ⊢
      by_cases ht : t = 0
      · subst ht
        simp only [bne_self_eq_false, Bool.false_eq_true, if_false]
        simp only [decide_eq_true_eq]
        generalize Fp.U128.mul64 v _ = m
        cases m with
        | error e => rfl
        | ok m =>
          simp only []
          generalize Fp.U128.sub u m = r
          cases r with
          | error e => rfl
          | ok r =>
            simp only []
            by_cases hc : r.cmp v ≥ 0
            · simp only [hc, if_true]
              generalize Fp.U128.add64 _ 1 = q
              cases q with
              | error e => rfl
              | ok q =>
                simp only []
                generalize Fp.U128.sub r v = r'
                cases r' with
                | error e => rfl
                | ok r' => rfl
            · simp only [hc, if_false]; rfl
      · have hne : (t != 0) = true := by simp [ht]
        have hs : Gen.Fp.subw t 1 = t - 1 := subw_of_le (by omega) (by omega)
        simp only [hne, if_true, hs]
        simp only [decide_eq_true_eq]
        generalize Fp.U128.mul64 v _ = m
        cases m with
        | error e => rfl
        | ok m =>
          simp only []
          generalize Fp.U128.sub u m = r
          cases r with
          | error e => rfl
          | ok r =>
            simp only []
            by_cases hc : r.cmp v ≥ 0
            · simp only [hc, if_true]
              generalize Fp.U128.add64 _ 1 = q
              cases q with
              | error e => rfl
              | ok q =>
                simp only []
                generalize Fp.U128.sub r v = r'
                cases r' with
                | error e => rfl
                | ok r' => rfl
            · simp only [hc, if_false]; rfl
end ObiVerif.Props.C20Gen
