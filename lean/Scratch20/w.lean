import ObiVerif.Lemmas.FpShift
open ObiVerif.Fp
theorem t1 (u : U128) (hu : u.WF) :
    (U128.toU64Warns u = 0 ↔ u.toNat < W) ∧ (U128.toU64Warns u = 1 ↔ W ≤ u.toNat) := by
  obtain ⟨h1, h0⟩ := hu
  unfold U128.toU64Warns U128.toNat
  by_cases h : u.w1 = 0
  · simp only [h, bne_self_eq_false, Bool.false_eq_true, if_false, W] at *
    trace_state
    omega
  · have hb : (u.w1 != 0) = true := by simp [h]
    simp only [hb, if_true, W] at *
    trace_state
    omega
