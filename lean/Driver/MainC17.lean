import ObiVerif.Driver.C17
import ObiVerif.Driver.Loop

def main : IO UInt32 := ObiVerif.Driver.mainLoop ObiVerif.Driver.C17.run
