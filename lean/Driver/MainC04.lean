import ObiVerif.Driver.C04
import ObiVerif.Driver.Loop

def main : IO UInt32 := ObiVerif.Driver.mainLoop ObiVerif.Driver.C04.run
