import ObiVerif.Driver.C09
import ObiVerif.Driver.Loop

def main : IO UInt32 := ObiVerif.Driver.mainLoop ObiVerif.Driver.C09.run
