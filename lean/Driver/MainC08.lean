import ObiVerif.Driver.C08
import ObiVerif.Driver.Loop

def main : IO UInt32 := ObiVerif.Driver.mainLoop ObiVerif.Driver.C08.run
