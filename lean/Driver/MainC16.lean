import ObiVerif.Driver.C16
import ObiVerif.Driver.Loop

def main : IO UInt32 := ObiVerif.Driver.mainLoop ObiVerif.Driver.C16.run
