import ObiVerif.Driver.C15
import ObiVerif.Driver.Loop

def main : IO UInt32 := ObiVerif.Driver.mainLoop ObiVerif.Driver.C15.run
