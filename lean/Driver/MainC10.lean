import ObiVerif.Driver.C10
import ObiVerif.Driver.Loop

def main : IO UInt32 := ObiVerif.Driver.mainLoop ObiVerif.Driver.C10.run
