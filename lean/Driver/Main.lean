import ObiVerif.Driver.C20
import ObiVerif.Driver.C04
import ObiVerif.Driver.C03
import ObiVerif.Driver.C07

partial def loop (h : IO.FS.Stream) (out : IO.FS.Stream) (f : String → String) : IO Unit := do
  let line ← h.getLine
  if line.isEmpty then return ()
  let l := if line.endsWith "\n" then (line.dropEnd 1).toString else line
  out.putStrLn (f l)
  loop h out f

def dispatch : String → Option (String → String)
  | "C20" => some ObiVerif.Driver.C20.run
  | "C04" => some ObiVerif.Driver.C04.run
  | "C03" => some ObiVerif.Driver.C03.run
  | "C07" => some ObiVerif.Driver.C07.run
  | _ => none

def main (args : List String) : IO UInt32 := do
  match args with
  | [p] =>
    match dispatch p with
    | some f =>
      let out ← IO.getStdout
      loop (← IO.getStdin) out f
      out.flush
      return 0
    | none => IO.eprintln s!"unknown property {p}"; return 2
  | _ => IO.eprintln "usage: vmodel <property-id> < cases"; return 2
