import ObiVerif.Driver.C02
import ObiVerif.Driver.Loop

def main : IO UInt32 := ObiVerif.Driver.mainLoop ObiVerif.Driver.C02.run
