import ObiVerif.Driver.C05
import ObiVerif.Driver.Loop

def main : IO UInt32 := ObiVerif.Driver.mainLoop ObiVerif.Driver.C05.run
