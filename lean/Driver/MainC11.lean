import ObiVerif.Driver.C11
import ObiVerif.Driver.Loop

def main : IO UInt32 := ObiVerif.Driver.mainLoop ObiVerif.Driver.C11.run
