import ObiVerif.Driver.C19
import ObiVerif.Driver.Loop

def main : IO UInt32 := ObiVerif.Driver.mainLoop ObiVerif.Driver.C19.run
