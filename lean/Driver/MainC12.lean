import ObiVerif.Driver.C12
import ObiVerif.Driver.Loop

def main : IO UInt32 := ObiVerif.Driver.mainLoop ObiVerif.Driver.C12.run
