import ObiVerif.Driver.C07
import ObiVerif.Driver.Loop

def main : IO UInt32 := ObiVerif.Driver.mainLoop ObiVerif.Driver.C07.run
