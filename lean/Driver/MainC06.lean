import ObiVerif.Driver.C06
import ObiVerif.Driver.Loop

def main : IO UInt32 := ObiVerif.Driver.mainLoop ObiVerif.Driver.C06.run
