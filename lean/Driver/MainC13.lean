import ObiVerif.Driver.C13
import ObiVerif.Driver.Loop

def main : IO UInt32 := ObiVerif.Driver.mainLoop ObiVerif.Driver.C13.run
