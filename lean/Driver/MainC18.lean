import ObiVerif.Driver.C18
import ObiVerif.Driver.Loop

def main : IO UInt32 := ObiVerif.Driver.mainLoop ObiVerif.Driver.C18.run
