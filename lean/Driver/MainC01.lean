import ObiVerif.Driver.C01
import ObiVerif.Driver.Loop

def main : IO UInt32 := ObiVerif.Driver.mainLoop ObiVerif.Driver.C01.run
