import ObiVerif.Driver.C20
import ObiVerif.Driver.Loop

def main : IO UInt32 := ObiVerif.Driver.mainLoop ObiVerif.Driver.C20.run
