import ObiVerif.Driver.C03
import ObiVerif.Driver.Loop

def main : IO UInt32 := ObiVerif.Driver.mainLoop ObiVerif.Driver.C03.run
