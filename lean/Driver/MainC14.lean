import ObiVerif.Driver.C14
import ObiVerif.Driver.Loop

def main : IO UInt32 := ObiVerif.Driver.mainLoop ObiVerif.Driver.C14.run
