"""shared pieces of the per-property configurations"""

LEAN_TB = ["Lean 4.33.0 kernel (lake build; leanchecker re-check in the thorough tier)",
           "axioms allowed: propext, Classical.choice, Quot.sound (audited by #print axioms on every property theorem)",
           "hand-written Lean model of the anchored Go/C code, tied to /repo by the differential correspondence check (Go harness, build tag verif, vs compiled Lean model)",
           "Go compiler/runtime, cgo, the harness generators and canonicalisation"]
