"""per-property configuration of ./check: one file lib/cfg/<id>.py defining CFG"""
import os, glob, importlib.util, sys
_here = os.path.dirname(os.path.abspath(__file__))
sys.path.insert(0, _here)
PROPS = {}
for _f in sorted(glob.glob(os.path.join(_here, "cfg", "C*.py"))):
    _pid = os.path.basename(_f)[:-3]
    _spec = importlib.util.spec_from_file_location("cfg_" + _pid, _f)
    _m = importlib.util.module_from_spec(_spec)
    _spec.loader.exec_module(_m)
    PROPS[_pid] = _m.CFG

# properties not claimed, with the reason (kept current by hand)
NOT_CLAIMED = {}
