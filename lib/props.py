"""per-property configuration of ./check"""

LEAN_TB = ["Lean 4.33.0 kernel (lake build; leanchecker re-check in the thorough tier)",
           "axioms allowed: propext, Classical.choice, Quot.sound (audited by #print axioms on every property theorem)",
           "hand-written Lean model of the anchored Go/C code, tied to /repo by the differential correspondence check (Go harness, build tag verif, vs compiled Lean model `vmodel`)",
           "Go compiler/runtime, cgo, the harness generators and canonicalisation"]

PROPS = {
    "C20": {
        "lean_modules": ["ObiVerif.Props.C20"],
        "gen": False,
        "thorough_seeds": 8,
        "rule": "cases = (width, operation, operands) drawn from word-boundary limb values (0,1,2^k-1,2^k,2^k+1,all-ones,...) and random limbs, "
                "plus every shift amount 0..width+64 on three fixed values per width; a case is non-trivial when it is distinct and is a well-formed operation (not bad-op)",
        "trusted_base": LEAN_TB + ["math/bits Add64/Sub64/Mul64/Div64/LeadingZeros64 modelled by their documented arithmetic meaning",
                                   "math/big as the independent oracle of the failing-input search"],
        "technique": "Lean 4 theorems on a limb-level model of obifp + differential correspondence with the real methods + math/big oracle search",
        "level_text": "Exactness (value when it fits, overflow signalled exactly when it does not) of the three widths is proved in Lean for all operands on a limb-by-limb transcription of uint64.go/uint128.go/uint256.go; the transcription is tied to /repo by running model and real methods on the same operand lines every run. Uint128.Mul is proved only for operands with one zero high limb (known finding D27b, pinned by the repository's own test).",
        "level_note": "Trusted: Lean kernel; math/bits primitives modelled by their documented meaning; the hand transcription (validated differentially, ~16k operand lines per quick run); Uint128.QuoRem trial-quotient branch is tied by correspondence and oracle only unless listed among the theorems in the evidence file.",
        "modelled": "pkg/obifp uint64.go, uint128.go, uint256.go: every method, limb by limb (Model/Fp.lean)",
        "assumptions": ["log.Warnf has no effect on results", "log.Panicf is the only overflow signal"],
    },
}

PROPS["C04"] = {
    "lean_modules": ["ObiVerif.Props.C04"],
    "gen": False,
    "thorough_seeds": 4,
    "rule": "cases = (writer, formatting workers, arrival history of (order, record count) chunks): corpus of drain-after-turn / empty-batch histories, random permutations of up to 7 batches with random empty subsets, "
            "every permutation of n<=5 batches in the thorough tier; with one formatting worker the harness forces the arrival order at the writer goroutine; non-trivial = distinct history with at least two chunks",
    "technique": "Lean 4 theorem on the re-sequencing writer machine for every arrival permutation and every set of empty batches + differential correspondence with the real writers driven in forced arrival orders + decode-back oracle",
    "level_text": "For every n, every arrival permutation of chunks 0..n-1 and every subset of empty chunks, the model of the four writers emits the chunks once, in order (FASTA/FASTQ/CSV: concatenation; JSON: '[\\n' + non-empty chunks joined by ',\\n' + '\\n]\\n', which is the array of the records when each chunk is the join of its records) — proved in Lean by the invariant of the re-sequencing buffer. The model is tied to the real WriteFasta/WriteFastq/WriteJSON/WriteCSV by running them on forced arrival histories and comparing bytes; encoding/json and encoding/csv decode the real output back into the records (failing-input search).",
    "level_note": "Trusted: Lean kernel; the transcription of the writer loop (Model/Reseq.lean, Model/Writer.lean); per-batch formatters are data for the model (their output is fed to it) and are checked by the decode-back oracle only; goroutine liveness (Close protocol) is exercised under a watchdog, not proved.",
    "trusted_base": LEAN_TB + ["per-batch formatter output (FormatFastaBatch, FormatFastqBatch, FormatJSONBatch, FormatCVSBatch) taken as data",
                               "encoding/json and encoding/csv as decode-back oracle"],
    "modelled": "WriteSeqFileChunk (seqfile_chunk_write.go), writer goroutines of WriteJSON (json_writer.go) and WriteCSV (csv_writer.go): next/received/drain loop and framing",
    "assumptions": ["each batch number is delivered once to the writer (Contract of C03)", "channel blocking and goroutine termination are runtime behaviour (watchdog only)"],
}

PROPS["C03"] = {
    "lean_modules": ["ObiVerif.Props.C03"],
    "gen": False,
    "thorough_seeds": 8,
    "rule": "cases = (combinator, parameters, input streams as arrival-ordered lists of numbered batches): random partitions of 0..40 records into 0..6 batches (sizes >= 0) in a random arrival order, 1..4 workers, empty first/middle streams for concat, "
            "a few histories with a gap (outside the contract), every arrival permutation of n<=5 batches in the thorough tier; non-trivial = distinct well-formed case (not bad-op)",
    "technique": "Lean 4 theorems on functional models of the obiiter combinators for every batch partition and arrival permutation + differential correspondence with the real combinators driven in forced arrival orders + exactly-once/in-order oracle",
    "level_text": "Each combinator (SortBatches, Rebatch, FilterEmpty, Concat, DivideOn, FilterOn, MakeISliceWorker, Distribute, PairTo, Pool, IBatchOver) is transcribed as a function on arrival-ordered batch lists; the theorems listed in the evidence state, for every partition into batches (empty ones included) and every arrival permutation, that the output is numbered 0,1,2,... and carries exactly the records it must, in input order. The transcription is tied to the real goroutine-based code by pushing the same arrival histories through real iterators and comparing the delivered (number, ids) lists; an oracle checks exactly-once/in-order/numbering directly on the real output.",
    "level_note": "Trusted: Lean kernel; the transcription (Model/Iter.lean). Partial: 'always terminates' — the functional model cannot deadlock; channel blocking, WaitAndClose and the shared finished flag of Split clones are exercised under a 5 s watchdog only. IFragments and IMergeSequenceBatch are not modelled here (fragmenting is covered by C11's oracle, merging by C06).",
    "trusted_base": LEAN_TB + ["Go channels/WaitGroup semantics (runtime)", "obiseq.BioSequence identity carried by the id string"],
    "modelled": "pkg/obiiter batchiterator.go (SortBatches, Concat, Pool, Rebatch, FilterEmpty, DivideOn, FilterOn, IBatchOver), workers.go (MakeISliceWorker), distribute.go (Distribute), paired.go (PairTo)",
    "assumptions": ["each upstream batch number is pushed once (Contract)", "PairTo is used on streams with the same number of records"],
}

PROPS["C07"] = {
    "lean_modules": ["ObiVerif.Props.C07"],
    "gen": True,
    "thorough_seeds": 8,
    "rule": "cases = all 256 bytes through nucComplement; every string of length <=2 (quick) / <=3 (thorough) over the 19-symbol alphabet; every (from,to) window incl. out-of-range, linear and circular, of four sequences; "
            "random sequences to 500 bases with qualities; position-bearing annotations under rc / subsequence; random histories of new/copy/rc/rc-in-place/sub/set/recycle on up to 6 objects; non-trivial = distinct well-formed case whose input byte survives lower-casing",
    "technique": "Lean 4 theorems (table lemmas by decide over tables regenerated from the source; algebraic laws by induction) + differential correspondence of the model with the real obiseq methods, including object histories + naive-implementation oracle",
    "level_text": "Complement involution and agreement of the three complement tables are decided over tables regenerated from /repo on every run; rc∘rc = id, the in-place two-index loop = reverse∘map complement, rc of a subsequence = mirrored subsequence of rc, circular subsequence = window of s++s, the coordinate transforms of position-bearing annotations and the frame property of object histories (an operation changes only its target) are proved for all sequences, lengths and windows on the Lean model (see evidence for the list actually proved). The model is tied to ReverseComplement / Subsequence / Copy / Recycle by running both on the same lines, object histories included.",
    "level_note": "Trusted: Lean kernel; transcription Model/SeqOps.lean; extractor (literals only). The sync.Pool of byte slices is not modelled as a heap: absence of aliasing in the real code is observed through object histories (every operation's effect on every other live object is compared) — partial for real concurrent reuse.",
    "trusted_base": LEAN_TB + ["extract/ (go/ast literal extraction of _revcmpDNA, revcompnuc, LX_BIO_CDNA_ALPHA)", "naive reverse complement / window oracles in the harness"],
    "modelled": "pkg/obiseq revcomp.go (nucComplement, ReverseComplement loop, _revcmpMutation), subseq.go (Subsequence, _subseqMutation), value semantics of Copy/Recycle",
    "assumptions": ["circular windows are given with to <= len (the code reduces larger values modulo len)"],
}

NOT_CLAIMED = {}
