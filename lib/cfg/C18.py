from common import LEAN_TB

CFG = {
 'lean_modules': ['ObiVerif.Props.C18', 'ObiVerif.Props.C18Z', 'ObiVerif.Props.C18Proc'],
 'gen': False,
 'thorough_seeds': 6,
 'timeout': 1500,
 'rule': 'cases = (writer, compressed or not, owned or not, sink capacity k = byte offset of the injected write fault, Close failing or not, arrival history of chunks): corpus with results below and above the 4 KiB '
         'buffer (faults surfacing only at the final flush / at Close), k = 0, 1, 4095, 4096, 4097, result size -1 / +0 / +1, faults in the gzip header / blocks / last block / trailer, drained chunks, random (k, history) pairs; '
         'scripted io.Writers (short writes with nil error, temporary errors, partial writes); several writers in one process (independent writers, the real WriterDispatcher over injected sinks) one of which fails; '
         'the real commands (obiconvert, obigrep, obiannotate, obiuniq, obicomplement, obipairing, obicsv, obidistribute) as subprocesses on /dev/full (-o and stdout), a closed pipe, a FIFO whose reader leaves after k bytes, '
         'a missing directory, paired outputs and obidistribute files one of which is /dev/full (append and -Z included), plus no-fault controls; non-trivial = distinct well-formed case',
 'technique': 'Lean 4 theorems (ok outcome / exit status 0 implies every byte reached every output) on a model of the writers over bufio.Writer over a failing sink, over an abstract pgzip writer and over an arbitrary io.Writer, '
              'for every fault offset, arrival order, compressor, error-visibility schedule and goroutine interleaving + differential correspondence with the real writers on fault-injecting io.WriteClosers (each case in a process of '
              'its own ending like main(): WaitForLastPipe) + exit status and stderr of the real commands',
 'level_text': 'Three layers, all with theorems over unbounded inputs. (1) Wfile, uncompressed: bufio.Writer (sticky error, 4096-byte buffer, direct large writes) over a sink failing after k bytes or at Close, owned or not '
               '(OptionDontCloseFile): the sink ends with exactly the first k bytes of the complete result and the outcome is fatal iff the result does not fit or the owned Close fails (raw_exact/json_exact, rawO_exact/jsonO_exact and '
               'corollaries *_ok_all_bytes, *_fatal_iff, *_prefix_safe), for every k, buffer size, arrival permutation, chunk content. (2) Wfile, compressed: the same bufio transcription, generic in the underlying writer (GW; proved equal to '
               'the first one on the sink: bufio_write_refines), over an abstract pgzip writer = any compressor whose output only grows with its input (header + complete blocks while writing, last block + trailer at Close), a listener that '
               'stops writing after the first failure, and an arbitrary schedule of the moments at which the pushed error becomes visible to Write: gz_raw_exact/gz_json_exact give the same exact characterisation on the compressed stream '
               '(fault in header, blocks, last block or trailer; Close itself). Over ANY io.Writer (short writes with nil error, temporary errors): dev_*_safe (ok implies all bytes; always a prefix) and dev_*_good_ok (no false alarm). '
               '(3) Process: writers registered in the pipe registry, main blocked in WaitForLastPipe, log.Fatalf as two steps (report, then os.Exit(1)) before UnregisterPipe: for EVERY interleaving the exit status is 1 iff some output failed '
               '(exit_sound, exit_nonzero_of_failure, exit_not_one_of_no_failure), no deadlock (no_deadlock), and composed with (1): exit status 0 implies every output of the command holds every byte (exit0_all_complete), for any number of '
               'outputs (paired files, obidistribute). early_release_races shows that the order of the seeded regression C18-m2 does admit an interleaving with status 0. The model is tied to WriteFasta/WriteFastq/WriteJSON/WriteCSV over '
               'obiutils.Wfile (and to WriterDispatcher) by injecting the same fault into the real code and comparing the outcome and the exact number of bytes the sink holds (compressed output included).',
 'level_note': 'Trusted: Lean kernel; the transcription of bufio.Writer, of Wfile.Close, of the writers and of the order report-before-unregister (Model/WriteErr.lean, WriteDev.lean, WriteProc.lean). pgzip is abstract: its structure (error pushed by '
               'the listener, checked at the entry and exit of Write, always seen by Close; nothing written after the first failure; output a monotone function of the accepted input) is read from pgzip v1.2.6, not transcribed line by line; the '
               'executable model uses a compressor of the stream length measured on a non-failing run of the real pgzip (gz_len_only: outcome and byte count depend on nothing else); the oracle gunzips what the sink holds. '
               'exit0_all_complete composes the process theorem with the uncompressed Wfile theorems only (the compressed ones compose the same way through exit0_all_ok; not stated as a separate theorem). '
               'Process model: every writer is registered before main reaches WaitForLastPipe (true of the code: RegisterAPipe is called synchronously by Write*, and WriterDispatcher blocks main until every file iterator is consumed) - this is '
               'an assumption of the model, not a theorem about the Go code; dynamic registration is not modelled. JSON/CSV over WriterDispatcher are not exercised in-process (FASTA/FASTQ only, as obidistribute offers). '
               'Append mode (OpenWritingFile / --append) is exercised by subprocess scenarios only; the model sees the bytes appended by the run. A device returning (0, nil) for ever makes bufio.Writer loop for '
               'ever (no exit at all): the fuel of the generic Write is adequate under progress only; the safety theorems do not need it. The exit status of the real commands is observed on the listed subprocess scenarios; obimultiplex '
               '(--unidentified) is not run as a subprocess (needs a tag file) - its two outputs are the multi-writer cases. obicount / obisummary print with fmt.Print (not one of the four writers) and do exit 0 on /dev/full: outside the '
               'anchors, reported to the lead. log.Fatal is taken as "reports the failure and exits non-zero" (checked on stderr in the subprocess scenarios).',
 'trusted_base': LEAN_TB + ['Go bufio.Writer semantics as transcribed (validated: exact byte counts at failure time agree with the real Wfile on every case, scripted short-write / temporary-error sinks included)',
                            'pgzip v1.2.6 (external) error propagation as abstracted (validated: outcome and byte count on every compressed case, faults in header, blocks and trailer)',
                            'sync.WaitGroup / goroutine semantics as abstracted by the process model', 'the operating system for /dev/full, FIFOs and closed pipes'],
 'modelled': 'seqfile_chunk_write.go WriteSeqFileChunk, json_writer.go / csv_writer.go writer goroutines, obiutils/gzipfile.go Wfile.Write/Close (uncompressed and compressed, owned or not), bufio.Writer.Write/Flush over any io.Writer, '
             'pgzip Writer (abstract), the pipe registry protocol (RegisterAPipe / log.Fatalf / UnregisterPipe / WaitForLastPipe) for any number of writers (dispatcher.go WriterDispatcher, paired outputs of sequence_writer.go)',
 'assumptions': ['one formatting worker when the arrival order is forced', 'a sink fails permanently once it has failed (limit sinks; scripted devices are unrestricted)',
                 'every writer is registered before main() waits on the registry', 'the compressor output is a monotone function of the bytes it accepted (block boundaries do not depend on the slicing of Write calls)'],
}
