from common import LEAN_TB

CFG = {
 'lean_modules': ['ObiVerif.Props.C18'],
 'gen': False,
 'thorough_seeds': 6,
 'timeout': 1500,
 'rule': 'cases = (writer, compressed or not, sink capacity k = byte offset of the injected write fault, Close failing or not, arrival history of chunks): corpus with results below and above the 4 KiB '
         'buffer (faults surfacing only at the final flush / at Close), drained chunks, and random (k, history) pairs; plus the real obiconvert run as a subprocess on /dev/full and on a closed pipe; '
         'non-trivial = distinct well-formed case',
 'technique': 'Lean 4 theorem (ok outcome implies every byte reached the sink) on a model of the writers over bufio.Writer and a failing sink, for every fault offset and arrival order + differential correspondence with the real writers on a fault-injecting io.WriteCloser + subprocess exit status',
 'level_text': 'The four writers are modelled over a transcription of bufio.Writer (sticky error, 4096-byte buffer, direct large writes) and a sink that fails after k bytes or at Close. The theorems in the evidence state, for every k, '
               'every buffer size, every arrival permutation and every chunk content: outcome ok implies the sink holds exactly the complete result (and conversely a result that fits is written with outcome ok). The model is tied to '
               'WriteFasta/WriteFastq/WriteJSON/WriteCSV over obiutils.Wfile by injecting the same fault into the real code and comparing the outcome and the exact number of bytes the sink holds when log.Fatal fires.',
 'level_note': 'Trusted: Lean kernel; the transcription of bufio.Writer and of the writers (Model/WriteErr.lean). Compressed output: the pgzip codec is not modelled (the model only says: ok iff the capacity is at least the compressed size measured on a non-failing run); '
               'the oracle gunzips what the sink holds. Exit status of the real commands is observed on two subprocess scenarios only (/dev/full, closed pipe). log.Fatal is taken as "reports the failure and exits non-zero".',
 'trusted_base': LEAN_TB + ['Go bufio.Writer semantics as transcribed (validated: exact byte counts at failure time agree with the real Wfile on every case)',
                            'pgzip (external) for compressed output', 'the operating system for /dev/full and closed pipes'],
 'modelled': 'seqfile_chunk_write.go WriteSeqFileChunk, json_writer.go / csv_writer.go writer goroutines, obiutils/gzipfile.go Wfile.Write/Close (uncompressed path), bufio.Writer.Write/Flush',
 'assumptions': ['one formatting worker when the arrival order is forced', 'a sink fails permanently once it has failed'],
}
