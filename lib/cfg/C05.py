from common import LEAN_TB

CFG = {
 'lean_modules': ['ObiVerif.Props.C05'],
 'gen': False,
 'thorough_seeds': 2,
 'timeout': 2400,
 'rule': 'cases = (scenario = command + functional options, generated input of 24 (quick) / 60 (thorough) records or pairs, parallelism configuration (--max-cpu 1..32, --batch-size 1..1000, GOMAXPROCS 1..16), repetition); '
         '18 scenarios over obiconvert, obigrep, obiannotate, obicomplement, obipairing, obimultiplex, obipcr, obicount, obisummary, obicsv, all built with -tags verif (recycled buffers poisoned with 0xDB); '
         'for each (scenario, input) every record is also run ALONE and those per-record outputs are the data of the model; non-trivial = distinct case with a non-empty input',
 'technique': 'Lean 4 theorem (output bytes independent of batch partition, worker delivery order and writer arrival order, composed from the C03 and C04 theorems) + differential correspondence: real command output vs model output assembled from per-record runs of the same command + equality of bytes across parallelism configurations',
 'level_text': 'command_deterministic / command_config_independent: for a command whose work is a per-record function, the bytes written are the per-record results in input order for every partition of the input into batches, every order in which N workers deliver batches and every arrival order at the writer (count_perm for the commutative counters of obicount). '
               'The per-record hypothesis itself is tied to the real commands: the output of the whole input must equal the model output computed from the outputs of every record run alone, for every parallelism configuration.',
 'level_note': 'PARTIAL by nature: real goroutine interleavings, the memory pool under contention and data races are runtime behaviour; the theorem proves schedule-independence of the logic, the harness samples the runtime (7 configurations x repetitions, poisoned recycled buffers). '
               'obisummary is only compared across configurations (no per-record model). JSON output and obidistribute are not in the scenario list.',
 'trusted_base': LEAN_TB + ['theorems of C03 (pipeline_ok, keyed_of_perm) and C04 (raw_writer_perm)', 'the operating system process model; command binaries built from /repo with -tags verif'],
 'modelled': 'the reader -> workers -> formatter -> writer pipeline shape shared by the record-wise commands (Model/Command.lean over Model/Iter.lean and Model/Writer.lean)',
 'assumptions': ['a per-record command treats a record the same whether it is alone or in a file (this is what the correspondence checks)'],
}
