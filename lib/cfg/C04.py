from common import LEAN_TB

CFG = {'lean_modules': ['ObiVerif.Props.C04'],
 'gen': False,
 'thorough_seeds': 4,
 'rule': 'cases = (writer, formatting workers, arrival history of (order, record count) chunks): corpus of drain-after-turn / empty-batch histories, random '
         'permutations of up to 7 batches with random empty subsets, every permutation of n<=5 batches in the thorough tier; with one formatting worker the '
         'harness forces the arrival order at the writer goroutine; non-trivial = distinct history with at least two chunks',
 'technique': 'Lean 4 theorem on the re-sequencing writer machine for every arrival permutation and every set of empty batches + differential correspondence '
              'with the real writers driven in forced arrival orders + decode-back oracle',
 'level_text': 'For every n, every arrival permutation of chunks 0..n-1 and every subset of empty chunks, the model of the four writers emits the chunks once, '
               "in order (FASTA/FASTQ/CSV: concatenation; JSON: '[\\n' + non-empty chunks joined by ',\\n' + '\\n]\\n', which is the array of the records when "
               'each chunk is the join of its records) — proved in Lean by the invariant of the re-sequencing buffer. The model is tied to the real '
               'WriteFasta/WriteFastq/WriteJSON/WriteCSV by running them on forced arrival histories and comparing bytes; encoding/json and encoding/csv '
               'decode the real output back into the records (failing-input search).',
 'level_note': 'Trusted: Lean kernel; the transcription of the writer loop (Model/Reseq.lean, Model/Writer.lean); per-batch formatters are data for the model '
               '(their output is fed to it) and are checked by the decode-back oracle only; goroutine liveness (Close protocol) is exercised under a watchdog, '
               'not proved.',
 'trusted_base': LEAN_TB + ['per-batch formatter output (FormatFastaBatch, FormatFastqBatch, FormatJSONBatch, FormatCVSBatch) taken as data',
 'encoding/json and encoding/csv as decode-back oracle'],
 'modelled': 'WriteSeqFileChunk (seqfile_chunk_write.go), writer goroutines of WriteJSON (json_writer.go) and WriteCSV (csv_writer.go): next/received/drain '
             'loop and framing',
 'assumptions': ['each batch number is delivered once to the writer (Contract of C03)',
                 'channel blocking and goroutine termination are runtime behaviour (watchdog only)']}
