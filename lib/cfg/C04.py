from common import LEAN_TB

CFG = {'lean_modules': ['ObiVerif.Props.C04', 'ObiVerif.Props.C04W', 'ObiVerif.Props.C04P'],
 'gen': False,
 'thorough_seeds': 4,
 'rule': 'cases = (writer, formatting workers 1..16, plain/gzip output, skip-empty flag, CSV column selection + NA value, annotation flavour, paired files, '
         'pipeline stage pl (thorough), arrival history of (batch number, record count, size class) chunks): corpus of drain-after-turn / empty-batch / '
         'late-batch-0 histories, chunk sizes straddling the 4096-byte buffer of the output wrapper (small/LARGE/small, LARGE/small/LARGE, chunks of exactly '
         '4094..4098 bytes) plain and compressed, 24 large batches through 16 and 5 workers, records with separators/quotes/CR/LF/leading blanks/control '
         'characters/backslash-u in identifiers, keys and values (nested lists and maps), integers at the boundaries of the decimal printer (0, ±9/10/99/100, '
         '2^31, 2^53+1, min/max int64), paired output for the four writers (late batch 0, empty batches, 4 workers, gzip; with skip-empty: the two files fall '
         'out of step, compared with the model only), obicsv --auto column detection (au=1: first batch delivered = batch 0 or not, with explicit keys, no '
         'fixed column, maps among the attributes), paired output through the REAL command line (cmd=1: obioptions.GenerateOptionParser(obiconvert.OptionSet) '
         '+ obiconvert.CLIWriteBioSequences in a child process, with and without --skip-empty / --compress, with and without an empty sequence), output files '
         'that already exist (ap=1 append: old content kept in front; ap=2: longer old content must be gone), adversarial arrival orders of 300 batches '
         '(reverse / two interleaved runs / last first), random permutations of up to 7 batches; every plain unpaired case also records the size of every '
         'Write call the output receives (wr=); thorough adds 10^4-batch and 2000-batch (compressed) adversarial orders per writer; thorough: every '
         'permutation of n<=6 batches, every subset of empty batches of 5 batches, 1..16 workers, and 14 streams per writer of 3..200 batches fed through a '
         'real pipeline stage of 2..16 worker goroutines (MakeISliceWorker, arrival order left to the scheduler: ~75% of these runs reach the writer out of '
         'batch order), plain and compressed, 1..16 formatting workers, some paired; with one formatting worker and no pipeline stage the harness forces the '
         'arrival order at the writer goroutine; non-trivial = distinct history with at least two chunks',
 'technique': 'Lean 4 theorems on the re-sequencing writer machine composed with the model of the four per-batch formatters (every arrival permutation, every '
              'set of empty batches, arbitrary field bytes), on the two-writer model of paired output, on the JSON reader (white-space stripper + decoder of '
              'C02) and on the injectivity of the CSV text + byte-for-byte differential correspondence of the whole output (formatters included; both files of '
              'a pair) with the real writers driven in forced arrival orders and through a scheduler-ordered multi-worker pipeline, plain and gzip + '
              'comparison of the reader models with encoding/csv and encoding/json on every output + independent re-sequencing / decode-back oracles '
              '(encoding/json, encoding/csv, line readers, mate of record i at position i of the second file) + the writers run by the model at the level of '
              'obiutils.Wfile (bufio.Writer of 4096 bytes, transcription of C18) with the sequence of Write-call sizes reaching the output compared call by '
              'call with the real sink + theorems that the Wfile/bufio/pgzip path delivers exactly the bytes of the plain writer model for every arrival '
              'history + a small-step model of the goroutines of a paired output with safety, deadlock-freedom and termination theorems for every interleaving',
 'level_text': 'For every n, every arrival permutation of batches 0..n-1 and every subset of empty batches, proved in Lean on the model of formatters + '
               'writer: (order) the outcome of a file does not depend on the arrival order, for every writer, option set and arbitrary records '
               '[file_order_free]; (FASTA) the file is read back by the chunk parser of /repo (7-state machine + header parser, model of C02) as exactly the '
               'records of all batches in order [fasta_file_reads_back]; (FASTQ) the file is the four-line records in batch order '
               '[fastq_file_is_records_in_order] and is read back by the 12-state FASTQ chunk parser of /repo (model of C02) as exactly these records, '
               'qualities as printed [fastq_file_reads_back]; (empty sequences) both outcomes explicit: with skip-empty or no empty sequence the file is the '
               'records with a non-empty sequence in order, otherwise the formatter is fatal — fatal iff an empty sequence exists without skip-empty '
               '[seq_file_outcomes, seq_file_fatal_iff, seq_file_skip_empty, fasta_file_reads_back_skipping]; (CSV, n>=1) the file is the header line once, '
               "first, then one row per record in order, and the model of encoding/csv Reader reads it back with every field unchanged up to the reader's "
               'CRLF->LF, for arbitrary field bytes incl. quotes, commas, CR, LF, leading blanks [csv_file_reads_back, CsvRT.parse_csvRows]; the CSV text '
               'determines the rows byte for byte: two row lists / two streams with the same text are equal [csv_text_injective, csv_file_injective]; (JSON) '
               "the file is '[\\n' + the record texts joined by ',\\n' + '\\n]\\n', the empty array on empty input [json_file_is_array_of_record_texts, "
               'json_empty_input]; the whole file — nested objects, arrays, numbers, indentation — is accepted by the JSON reader (RFC 8259 white-space '
               'stripper + strict decoder of C02, whole text consumed) as ONE array whose i-th element is the object of the i-th record: id, sequence, '
               'qualities, annotations with maps by sorted key, for arbitrary bytes / ints / nesting [json_file_decodes, json_file_element, '
               'json_record_fields, json_value_decodes]; every string literal written is a valid JSON string body denoting the string '
               '[json_string_wellformed]; (paired) whatever the two arrival orders, the two files are those of the records and of their mates written in order '
               '[paired_files_order_free], and both read back / decode to lists in which record i of file 2 is the mate of record i of file 1 '
               '[paired_fasta_files_in_step, paired_fastq_files_in_step, paired_json_files_in_step]. The model (formatters included: FormatFastaBatch, '
               'FormatFastqBatch, JSONRecord/FormatJSONBatch, CSVHeader/CSVRecord/FormatCVSBatch, csv.Writer quoting, %v, the second writer on PairedWith()) '
               'is tied to the real writers by comparing the whole output (both files of a pair) byte for byte on every case, the CSV reader model is compared '
               'with csv.Reader on every CSV output and the JSON reader model with encoding/json (canonical compact re-encoding of the decoded value) on every '
               'JSON output. BYTE PATH TO THE FILE [Props/C04W]: on an output that accepts everything the file content is exactly that of the plain writer '
               'model for EVERY arrival history (not only permutations), every chunk-size sequence (small chunks followed by chunks >= the buffer and back), '
               "every buffer size and — compressed — every schedule of pgzip's goroutines: wfile_plain_refines, wfile_plain_refines_json, wfile_gzip_refines "
               '(bufio.Writer / Dev / pgzip transcriptions of C18, imported unchanged; the re-sequencing machine is parametric in its accumulator: '
               'WriterWfile.run_sim); hence chunk 0, …, n-1 each once in order at the file, plain and compressed [wfile_plain_in_order(_json), '
               'wfile_gzip_in_order(_json)], the whole writers formatters included [file_through_wfile, file_through_gzip], and the Write calls received by '
               'the file concatenate to the file content [file_calls_concat]. PAIRED OUTPUT AT THE COMMAND: obiconvert hands --skip-empty to unpaired outputs '
               'only (cliSkipEmpty); a paired FASTA/FASTQ output is fatal iff some record or mate has an empty sequence and otherwise no record is skipped in '
               'either file, so record i of file 2 is the mate of record i of file 1 [cli_paired_in_step_or_fatal]. CSV COLUMN DETECTION (obicsv --auto): the '
               'detected columns are exactly the keys of the non-map attributes of the records of the first batch delivered, strictly increasing in Go string '
               'order, appended to the explicit keys [csv_auto_columns]; the file is that header once, then one row per record of all batches in order, read '
               'back field by field [csv_auto_file_reads_back]; the header depends on which batch is delivered first [csv_auto_depends_on_first_batch]. '
               'GOROUTINE PROTOCOL OF A PAIRED OUTPUT [Props/C04P, Model/PairedSteps: N1+N2 formatting workers, two writer goroutines, the PairedWith() '
               'goroutine, consumer, unbuffered channels, Close protocol]: for EVERY interleaving, when writer goroutine 1 / 2 closes its file it has written '
               'batches 0..n-1 each exactly once in increasing order with an empty map [paired_file1_complete_in_order, paired_file2_complete_in_order], at '
               'the end both files hold the batches in the same order and the consumer got each batch once [paired_final_in_step], no send on a closed channel '
               '[paired_no_send_after_close], no deadlock [paired_no_deadlock], every run has at most rank(init) steps [paired_terminates].',
 'level_note': 'Proved for all inputs: order-freeness of every outcome, re-sequencing (all permutations/empty sets), FASTA and FASTQ parse-back of the whole '
               'file, both outcomes on empty sequences (skip / fatal), CSV header-once + full round trip through the reader model + injectivity of the text, '
               "JSON array framing, JSON string escaping, decode-back of the whole indented JSON file to the records' values, paired files in step "
               '(FASTA/FASTQ/JSON; CSV through paired_files_order_free + csv_file_reads_back on each file). Partial / by construction: with skip-empty a '
               'record with an empty sequence whose mate is not empty is left out of file 1 only — the two files of a pair fall out of step '
               '[paired_skip_empty_out_of_step, concrete stream]; the in-step theorems assume no empty sequence (WF); this needs skipEmpty AND a paired file, '
               'a combination no caller in /repo builds: the only caller of WritePairedReadsTo, obiconvert.CLIWriteBioSequences, forwards --skip-empty to '
               'unpaired outputs only, and on the real command line `--paired-with … --skip-empty` with an empty sequence is fatal (harness cmd=1 cases, '
               'theorem cli_paired_in_step_or_fatal). Decision: NOT a violation of C04 — every batch is still written exactly once and in order to both files '
               "(paired_files_order_free), the statement is about batches; kept as a documented property of the writers' API, the harness compares both files "
               'with the model on such writer-level cases and does not apply the in-step oracle. FASTQ parse-back needs a quality offset under which no '
               'printed quality byte is an end of line (Header.ShiftOK: 33, 64, every offset 14..172) and qualities as long as the sequence. JsonRead.strip is '
               "this framework's definition of RFC 8259 insignificant white space (trusted as a definition; tied to encoding/json on writer outputs only). NOT "
               'proved: that CsvRead.parse equals encoding/csv Reader on inputs other than writer outputs (not needed: the reader-independent content is '
               'csv_text_injective). Not modelled: float attributes (neither in the model nor in the generator: strconv shortest formatting is not '
               'transcribed), invalid UTF-8 (goccy substitutes U+FFFD), InterfaceToInt conversions of a non-int count/taxid, the title-line annotation text of '
               'FASTA/FASTQ (FormatFastSeqJsonHeader is data here, property C02), the deflate coding itself (pgzip is transcribed down to block boundaries / '
               'listener / Close; the codec is an abstract PCodec and gunzip∘stream = id is the trusted contract of gzip — the harness reads every compressed '
               'output back with compress/gzip), a nil mate in a paired stream, WriterDispatcher-driven outputs (obidistribute; covered by C19/C18 for '
               'FASTA/FASTQ only). The Wfile theorems are about an output that accepts every write (failing outputs: property C18). The small-step model of a '
               'paired output abstracts a batch to its number, merges local computation into the preceding channel operation and takes all channels unbuffered '
               '(as make(chan …) in the present code); it is not compared with the Go scheduler by the harness (the real paired writers run under a watchdog '
               'with 1..16 workers); the arrival orders it allows at the two writer goroutines are exactly the ks1/ks2 over which paired_files_order_free '
               'quantifies. csv_auto in the harness only without a pipeline stage (the first batch delivered must be known to the reference). The model of '
               'JSONRecord is the REPAIRED behaviour (notes/patches/C04-json-unescape-breaks-escapes.diff): the unrepaired code wrote raw control characters / '
               'broke an escaped backslash followed by u (oracle json.invalid on the corpus cases with f=3). dec (strconv.Itoa) is transcribed digit by digit '
               '(natDigits), validated on boundary integers. Defect found and repaired this round: WriteCSVToFile did not truncate an existing output file '
               '(notes/patches/C04-csv-file-not-truncated.diff; case `csv … ap=2`). Observation (not a violation of the statement): with obicsv --auto the '
               'header is that of the first batch DELIVERED, so it depends on the schedule when the input is read by several workers, and attributes that '
               'first occur in later batches get no column [csv_auto_depends_on_first_batch].',
 'trusted_base': LEAN_TB + ['title-line annotation text of FASTA/FASTQ (FormatFastSeqJsonHeader) taken as data (C02)',
                  'encoding/json and encoding/csv as decode-back oracles; compress/gzip to read the compressed output back',
                  'goccy/go-json MarshalIndent layout and key order as transcribed in WriterFmt.jVal (validated by byte comparison on every JSON case)',
                  'JsonRead.strip as the definition of insignificant white space of RFC 8259 §2 (compared with encoding/json on every JSON output); '
                  'Json.decVal of C02 as the JSON grammar'],
 'modelled': 'WriteSeqFileChunk (seqfile_chunk_write.go), writer goroutines of WriteJSON (json_writer.go) and WriteCSV (csv_writer.go): next/received/drain '
             'loop and framing; FormatFastaBatch / FormatFastqBatch (record layout of Model/Header.lean, skipEmpty / fatal on empty sequence); JSONRecord + '
             '_UnescapeUnicodeCharactersInJSON + FormatJSONBatch (key order, indentation, escaping); CSVHeader, CSVRecord (column selection, count/taxid '
             'defaults, scientific_name/root/NA, definition, reserved keys id/sequence/qualities, %v rendering of strings/ints/bools/lists/maps, unclamped '
             'quality column), csv.Writer.Write with fieldNeedsQuotes and quote doubling, FormatCVSBatch (header with batch 0 only); a model of encoding/csv '
             'Reader (CsvRead); the second writer of Write…ToFile on iterator.PairedWith() (writePaired: mates of every batch under the same batch number, own '
             'arrival order); a JSON file reader (JsonRead: white-space stripper + decoder of C02) and the denotation toJ of an annotation tree; '
             'obiutils.Wfile (CompressStream / Write / Close) = bufio.Writer (→ pgzip.Writer) over the output, reusing the transcriptions of C18 '
             '(Model/WriteErr, WriteDev, WritePgzip), a recording output (RecDev: the Write calls it receives), the column detection of WriteCSV (csv_auto: '
             'AttributeKeys(true), sort.Strings, CSVKeys appends), the option forwarding of obiconvert.CLIWriteBioSequences for --skip-empty (cliSkipEmpty), '
             'the goroutines of a paired output as a transition system (Model/PairedSteps.lean)',
 'assumptions': ['each batch number is delivered once to the writer (Contract of C03)',
                 'channel blocking and goroutine termination are runtime behaviour (watchdog only)',
                 'attribute values are strings, ints, bools, lists and string-keyed maps of these; strings are valid UTF-8',
                 'FASTA parse-back: records well formed in the sense of C02 (WF) and the JSON library contract J.OKat of C02 for the title-line annotations',
                 'paired streams: every record of a paired iterator has a mate (BioSequence.PairedWith() non nil) and a batch and its batch of mates carry the '
                 'same number',
                 'FASTQ parse-back: quality offset with Header.ShiftOK (33, 64, 14..172); stored qualities, when present, are as long as the sequence',
                 'Wfile theorems: the output accepts every write (no error, no short write); compressed: the file has room for the stream (limit) and gunzip '
                 'inverts the codec',
                 'paired protocol: at least one formatting worker per writer; channels unbuffered; the source delivers each of 0..n-1 once',
                 'csv_auto: the first batch delivered by the input iterator is the first one listed (harness: no pipeline stage)']}
