from common import LEAN_TB

CFG = {'lean_modules': ['ObiVerif.Props.C04'],
 'gen': False,
 'thorough_seeds': 4,
 'rule': 'cases = (writer, formatting workers 1..16, plain/gzip output, skip-empty flag, CSV column selection + NA value, annotation flavour, '
         'paired files, arrival history of (batch number, record count, size class) chunks): corpus of drain-after-turn / empty-batch / late-batch-0 '
         'histories, chunk sizes straddling the 4096-byte buffer of the output wrapper (small/LARGE/small, LARGE/small/LARGE, chunks of exactly '
         '4094..4098 bytes) plain and compressed, 24 large batches through 16 and 5 workers, records with separators/quotes/CR/LF/leading blanks/'
         'control characters/backslash-u in identifiers, keys and values (nested lists and maps), random permutations of up to 7 batches; thorough: '
         'every permutation of n<=6 batches, every subset of empty batches of 5 batches, 1..16 workers; with one formatting worker the harness forces '
         'the arrival order at the writer goroutine; non-trivial = distinct history with at least two chunks',
 'technique': 'Lean 4 theorems on the re-sequencing writer machine composed with the model of the four per-batch formatters (every arrival permutation, every '
              'set of empty batches, arbitrary field bytes) + byte-for-byte differential correspondence of the whole output (formatters included) with the real '
              'writers driven in forced arrival orders, plain and gzip + independent re-sequencing / decode-back oracles (encoding/json, encoding/csv, line readers)',
 'level_text': 'For every n, every arrival permutation of batches 0..n-1 and every subset of empty batches, proved in Lean on the model of formatters + writer: '
               '(FASTA) the file is read back by the chunk parser of /repo (7-state machine + header parser, model of C02) as exactly the records of all batches in '
               'order [fasta_file_reads_back]; (FASTQ) the file is the four-line records in batch order [fastq_file_is_records_in_order]; (CSV, n>=1) the file is the '
               'header line once, first, then one row per record in order, and the model of encoding/csv Reader reads it back with every field unchanged up to the '
               "reader's CRLF->LF, for arbitrary field bytes incl. quotes, commas, CR, LF, leading blanks [csv_file_reads_back, CsvRT.parse_csvRows]; (JSON) the file is "
               "'[\\n' + the record texts joined by ',\\n' + '\\n]\\n', the empty array on empty input [json_file_is_array_of_record_texts, json_empty_input], and every "
               'string literal written is a valid JSON string body denoting the string [json_string_wellformed]. The model (formatters included: FormatFastaBatch, '
               'FormatFastqBatch, JSONRecord/FormatJSONBatch, CSVHeader/CSVRecord/FormatCVSBatch, csv.Writer quoting, %v) is tied to the real writers by comparing the '
               'whole output byte for byte on every case, and the CSV reader model is compared with csv.Reader on every CSV output.',
 'level_note': 'Proved for all inputs: re-sequencing (all permutations/empty sets), FASTA parse-back of the whole file, CSV header-once + full round trip through the reader '
               'model, JSON array framing over the real record texts, JSON string escaping. NOT proved (tied by correspondence + decode-back oracle only): that the 12-state '
               'FASTQ parser reads a *sequence* of written records back (single record: C02); that the indented text of a nested JSON value (objects/arrays/numbers/'
               'indentation of jVal) is a JSON value — only string literals and the array framing are theorems, encoding/json decodes every output in the harness; that '
               'CsvRead.parse equals encoding/csv Reader on inputs other than writer outputs. Not modelled: float attributes, invalid UTF-8 (goccy substitutes U+FFFD), '
               'InterfaceToInt conversions of a non-int count/taxid, csv_auto column detection, the title-line annotation text of FASTA/FASTQ (FormatFastSeqJsonHeader is '
               'data here, property C02), gzip (the harness decompresses the real output; order of bytes through Wfile/bufio/pgzip is checked by comparison only), the '
               'second file of a paired output (oracle only: same identifiers in the same order). Goroutine liveness (Close protocol) is exercised under a watchdog, not proved. '
               'The model of JSONRecord is the REPAIRED behaviour (notes/patches/C04-json-unescape-breaks-escapes.diff): the unrepaired code wrote raw control characters / '
               'broke an escaped backslash followed by u (oracle json.invalid on the corpus cases with f=3).',
 'trusted_base': LEAN_TB + ['title-line annotation text of FASTA/FASTQ (FormatFastSeqJsonHeader) taken as data (C02)',
 'encoding/json and encoding/csv as decode-back oracles; compress/gzip to read the compressed output back',
 'goccy/go-json MarshalIndent layout and key order as transcribed in WriterFmt.jVal (validated by byte comparison on every JSON case)'],
 'modelled': 'WriteSeqFileChunk (seqfile_chunk_write.go), writer goroutines of WriteJSON (json_writer.go) and WriteCSV (csv_writer.go): next/received/drain '
             'loop and framing; FormatFastaBatch / FormatFastqBatch (record layout of Model/Header.lean, skipEmpty / fatal on empty sequence); JSONRecord + '
             '_UnescapeUnicodeCharactersInJSON + FormatJSONBatch (key order, indentation, escaping); CSVHeader, CSVRecord (column selection, count/taxid defaults, '
             'scientific_name/root/NA, definition, reserved keys id/sequence/qualities, %v rendering of strings/ints/bools/lists/maps, unclamped quality column), '
             'csv.Writer.Write with fieldNeedsQuotes and quote doubling, FormatCVSBatch (header with batch 0 only); a model of encoding/csv Reader (CsvRead)',
 'assumptions': ['each batch number is delivered once to the writer (Contract of C03)',
                 'channel blocking and goroutine termination are runtime behaviour (watchdog only)',
                 'attribute values are strings, ints, bools, lists and string-keyed maps of these; strings are valid UTF-8',
                 'FASTA parse-back: records well formed in the sense of C02 (WF) and the JSON library contract J.OKat of C02 for the title-line annotations']}
