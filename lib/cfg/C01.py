from common import LEAN_TB

CFG = {'lean_modules': ['ObiVerif.Props.C01'],
 'gen': False,
 'thorough_seeds': 6,
 'rule': 'cases = (op, format/options, read-buffer size, parser workers, transport, file bytes). Files: corpus of hand-picked nasty inputs + generated '
         'well-formed FASTA / FASTQ / GenBank / EMBL files of 0..6 records (titles containing > @ +, folded/unfolded sequence lines, LF / CR LF / mixed, blank '
         'lines, quality lines starting with @ or + or looking like sequence, "+id" separator lines, flat-file records with and without /db_xref="taxon: and '
         'SOURCE/OS lines, with/without qualities, with/without feature table) + a malformed stream (mutated files, small-alphabet noise). Per file: `parse` '
         '(one chunk), `split` on random prefixes, and for every chosen buffer size `chunks` (ReadSeqFileChunk) and `pipe` (chunk reader + 1..4 racing private '
         'parser workers + SortBatches over bytes.Reader / io.Pipe with 1..7-byte writes / one-byte reader / gzip through the real opener obiformats.Buf). '
         'Buffer sizes: quick about 40 per file incl. 2,3,4,5,len-1,len,len+1,len+2; thorough EVERY size 2..len+2 (every cut position) for FASTA/FASTQ files '
         '<= 400 bytes and compact flat files <= 700 bytes. `big`: the real ReadFasta/ReadFastq/ReadGenbank/ReadEMBL entry points (hard-coded 1 MiB / 128 MiB '
         'buffers) on generated multi-chunk streams (2.5-5 MB, resp. just over 128 MiB) with 2..4 workers. `kseq`: the C/kseq reader against the Go chunk '
         'parser on every generated FASTA/FASTQ file. non-trivial = distinct case with at least two chunks (chunks/pipe) or a non-empty input (split/parse); '
         'big/kseq/file cases are oracle-only and counted trivial. Deepening round 2: bufio limits (EMBL lines of 65533..131072 bytes inside a record / '
         'between records / first / unterminated last / n-1 bytes + CR LF / followed by 40 records so that a cut falls among them, with buffers below and '
         'above the line length; GenBank lines of 99..70000 bytes as ignored line, DEFINITION continuation, feature line + CR LF, sequence line, unterminated '
         'last line; FASTA/FASTQ title, sequence, + and quality lines of 4094..12289 bytes through the 4096-byte bufio.Reader); strings.TrimSpace on every '
         'white-space rune of unicode.IsSpace and on 16 look-alikes (invalid / overlong UTF-8, lone lead or continuation bytes, ZWSP, BOM) at both ends and '
         'inside DEFINITION / continuation / SOURCE / DE / OS values (fixed table + one generated value in three); VT, FF, NBSP, NEL, NUL, DEL, 0xFF inside '
         'FASTA/FASTQ titles (one generated file in three; not given to kseq); empty sequences, title-only records, CONTIG-only GenBank records; `file`: the '
         'universal entry point ReadSequencesFromFile (Ropen + OBIMimeTypeGuesser + dispatch + the real 1 MiB / 128 MiB readers, plain and gzip files) on '
         'every generated FASTA/FASTQ file and one flat file per plan (thorough: two), compared with the chunk parser and the naive reference',
 'technique': 'Lean 4 theorems on executable models of ReadSeqFileChunk, the three record splitters, the four chunk parsers and the re-sequencer, for all '
              'files / buffer sizes / arrival orders + differential correspondence of every model with the real code (small buffers reach every cut position) '
              '+ direct oracles on the real code (one-chunk parse, naive line-based reference parser, file order, reassembly, two-parser agreement)',
 'level_text': 'PROVED (Props/C01.lean, no bound on file, buffer or schedule). (1) ReadSeqFileChunk, for ANY splitter returning a negative value or a position '
               'in [1,len] and any buffer >= 2: the goroutine terminates (chunks_terminate: fuel never exhausted; a splitter returning 0 loops, example) and '
               'the chunk texts in order are the file minus runs of end-of-line bytes, none empty (chunks_reassemble); the three real splitters satisfy that '
               'contract (splitFasta_contract, splitFastq_contract, splitFlat_contract => chunks_all_formats). (2) EndOfLastFastaEntry returns -1 or the '
               'offset >= 1 of a ">" that follows an end-of-line byte (splitFasta_spec); a non-negative EndOfLastFastqEntry result follows an end-of-line byte '
               '(splitFastq_line_start); the bytes before a non-negative EndOfLastFlatFileEntry result end with LF // LF or LF // CR LF (splitFlat_spec). (2b) '
               'EMBL record locality: if a ends with an end-of-record line, parseEmbl (a ++ b) = records of a then records of b for every b (parseEmbl_append; '
               'false for the unrepaired parser). (3) FASTA end to end: every chunk of a whole-records text is a whole number of records '
               '(chunks_cut_at_boundaries); parsing c1 ++ eols ++ ">"... gives the records of c1 then those of the rest and fails exactly as the rest fails '
               '(parseFasta_append); reader_independent: for every text the chunk parser reads as a whole number of records, every buffer size >= 2 and EVERY '
               'arrival permutation of the numbered parsed chunks at SortBatches (any number of workers, any interleaving), the released batches are '
               'error-free and carry, in order, exactly the records of the one-chunk parse; wellFormed_complete + reader_independent_wellFormed: the same for '
               'every file of an explicit FASTA grammar (titles with any byte but CR/LF incl. > @ +, folded sequences, LF/CRLF/blank lines). (4) FASTQ '
               '(deepening round): splitFastq_pattern (exact shape of what the backward 7-state machine accepts), splitFastq_is_record_start / _wellFormed (on '
               'every prefix of a well-formed single-line FASTQ file a non-negative result is the offset of an @ that starts a record - the parser is in its '
               'start state there), splitFastq_never_quality_line, wellFormedFastq_complete, parseFastq_append, chunks_cut_at_boundaries_fastq, '
               'reader_independent_fastq / _wellFormed (every buffer size >= 2, every arrival permutation). (5) Flat files: parseGenbank_append, '
               'reader_independent_embl, reader_independent_genbank, reader_independent_flat under the explicit hypothesis regularEol (every CR is followed by '
               'LF), with counterexample theorems for irregular line ends (reader_embl_irregular_counterexample, reader_genbank_irregular_counterexample: '
               'stray CR runs, outside well-formed files). (6) Deepening round 2. RECORD CONTENT PROVED for FASTA and FASTQ: faFileText / fqFileText render '
               'abstract source records (title, sequence line(s), + line, quality line) with an arbitrary lay-out of end-of-line runs and folding; their '
               'images are exactly the grammar files (wellFormedFasta_iff_rendered, wellFormedFastq_iff_rendered); parseFasta_content / parseFastq_content: '
               'the chunk parser returns, in file order, for each record exactly what its own text says (id = title up to the first blank/tab, definition = '
               'rest after that run, trailing blanks kept, sequence = lines concatenated and lower-cased, qualities = quality line minus the shift or none), '
               'for any shift, with/without qualities; reader_content_fasta / reader_content_fastq: the same end to end for every buffer size >= 2 and every '
               'arrival permutation. bufio limits: the model of EmblChunkParser now has the 65536-byte token limit of bufio.Scanner (scanner.Err() is never '
               'read: the rest of the chunk is dropped silently): parseEmbl_append needs only `a` free of long lines and then holds for EVERY b; '
               'reader_independent_embl / _flat carry the exact hypothesis shortLines 65536; embl_long_line_truncates (for any token limit: the parser returns '
               'the records before the first long line only) and reader_embl_longline_counterexample (chunk dependence on such a file) show the hypothesis is '
               'needed; GenBank: the 4096-byte ReadLine limit is unobservable (isPrefix and len > 100 are both fatal), gbLine is exact for every line length. '
               'strings.TrimSpace is modelled exactly on bytes (all runes of unicode.IsSpace in UTF-8; invalid encodings stop the trimming). NOT proved: '
               'record content for GenBank / EMBL = what the record text implies (naive reference oracle on the real code only; record locality for every '
               'extracted field is proved). The C/kseq stdin reader is not modelled here (C17 models it): two-parser agreement oracle only.',
 'level_note': 'Defects found by the oracle on the unmodified code and repaired in /repo (patches in notes/patches/C01-*.diff): GenBank/EMBL parsers kept '
               'taxid/scientific_name (EMBL: id) across records; FastqChunkParser(with_quality=false) stored qualities for the last record of every chunk; '
               'ReadGenbank/ReadEMBL did not re-sequence the parsed chunks (out-of-order delivery with 2+ workers on inputs > 128 MiB); the kseq reader kept '
               'the CR of CR LF title lines (and extra leading blanks) in the definition. The models are of the repaired code. Hypothesis of the FASTA '
               'theorems is FaComplete (the one-chunk parse succeeds and ends inside a sequence) - weaker than the grammar, which is shown to imply it; the '
               'content theorems are stated on the grammar itself (rendered files). Trusted: io.ReadFull contract (what makes the transport irrelevant; '
               'exercised with 4 transports), SortBatches = Model/Reseq (tied by C03), goroutine liveness / channel protocol (watchdog only), bufio.Scanner '
               'buffer-growth policy reduced to its outcome (a token needs its newline within 65536 bytes; compared with the code on lines of 65533..131072 '
               'bytes), the table of unicode.IsSpace (Go 1.23) as transcribed in spaceAt / spaceAtRev (compared on every rune of the table and 16 '
               'look-alikes), header (JSON/OBI) parsing excluded (C02). Not covered: format sniffing (OBIMimeTypeGuesser) and Ropen are exercised by the '
               '`file` oracle only, not modelled; FASTA/FASTQ lines longer than 12289 bytes are not compared with the model (its byte-by-byte append is '
               'quadratic), the real parsers have no line limit there (bufio.Reader.ReadByte). Observed, outside the property: EmblChunkParser silently drops '
               'the rest of a chunk after a line of 65536 bytes or more (ErrTooLong ignored) - chunk-dependent on such inputs (stat '
               'chunk-dependence-on-malformed-input); the kseq reader splits titles at VT/FF (isspace) where the Go parsers split at blank/tab only (open '
               'known finding C01-kseq-isspace-title, own oracle signature kseq.*.two-parsers-vt-ff.*, five corpus cases; the canonical result of these cases '
               'stays `agree`, the disagreement is reported by the oracle line only).',
 'trusted_base': LEAN_TB + ['io.ReadFull: fills the buffer unless the stream ends (ErrUnexpectedEOF / EOF)',
 'bufio.Reader.ReadLine line splitting as modelled (linesReadLine); bufio.Scanner / ScanLines with MaxScanTokenSize = 65536 as modelled (linesScanMax)',
 'strconv.Atoi, strings.SplitN as modelled; strings.TrimSpace = trimSpace (unicode.IsSpace table of Go 1.23, utf8 decoding of invalid bytes as width-1 '
 'RuneError)',
 'compress/gzip + obiformats.Buf as a transport',
 'C kseq reader (fastseq_read.c, kseq.h): not modelled here, compared with the Go parser (modelled by C17)',
 'OBIMimeTypeGuesser / Ropen / gabriel-vasile/mimetype: exercised by the `file` oracle, not modelled'],
 'modelled': 'pkg/obiformats: seqfile_chunk_read.go (ReadSeqFileChunk), fastaseq_read.go (EndOfLastFastaEntry, FastaChunkParser), fastqseq_read.go '
             '(EndOfLastFastqEntry, FastqChunkParser, _storeSequenceQuality), embl_read.go (EndOfLastFlatFileEntry, EmblChunkParser incl. the bufio.Scanner '
             'token limit), genbank_read.go (GenbankChunkParser incl. the ReadLine isPrefix path); strings.TrimSpace on bytes; the worker/SortBatches '
             'composition of ReadFasta/ReadFastq/ReadGenbank/ReadEMBL (Model/Reseq.lean)',
 'assumptions': ['read buffer of at least 2 bytes (with 1 byte the real loop does not terminate; production buffers are 1 MiB / 128 MiB)',
                 'each chunk number is pushed once by the parser workers (Contract of C03)',
                 'the reader returns no error other than end of stream (truncated compressed input is property C17)',
                 'EMBL theorems: no line of 65536 bytes or more (shortLines; EMBL lines have at most 80 bytes) - the exact condition under which bufio.Scanner '
                 'hands over every line']}
