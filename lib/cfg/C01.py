from common import LEAN_TB

CFG = {'lean_modules': ['ObiVerif.Props.C01'],
 'gen': False,
 'thorough_seeds': 6,
 'rule': 'stub',
 'technique': 'stub',
 'level_text': 'stub',
 'level_note': 'stub',
 'trusted_base': LEAN_TB,
 'modelled': 'stub',
 'assumptions': []}
