from common import LEAN_TB

CFG = {'lean_modules': ['ObiVerif.Props.C10'],
 'gen': True,
 'thorough_seeds': 8,
 'rule': 'cases = (operation, pattern, budget, indel flag, complemented?, sequence, circular?, begin, length): hand-picked corpus (every defect found — incl. '
         'the circular over-read and the FilterBestMatch sentinel witnesses with a first hit beyond position 10000 —, hits touching both ends, hits at the '
         'first position of a window with begin > 0 and straddling it, window ends inside the sequence, empty/short sequences, pattern lengths 1, 31, 32, 33, '
         "63, 64 and 65, budgets up to 63, '#' with indels); random patterns of 1..63 positions (a fixed fraction with exactly 1, 2, 31, 32, 33, 62, 63 "
         'positions) with IUPAC codes, [...] classes, ! and # (and arbitrary strings over the pattern alphabet for the compiler / complementer); budgets 0..4 '
         'and, in a fixed fraction, 0..patlen+1; random sequences with 0..3 planted sites carrying 0..e+1 substitutions (or indels), the first site at offset '
         '0 and the last one at the end in a fixed fraction of the cases, also with ambiguous symbols, upper-case letters or non-letter bytes; windows '
         '(begin,length) random incl. negative / beyond the end, aimed at the start of a planted site (-1/0/+1) and with the window END aimed at the end of a '
         'site (-1/0/+1); circular sequences of >= 64 symbols and (new) shorter ones, whose buffer is followed by hostile stale bytes (instances of the '
         'pattern) written through the public BioSequence API; operations pat, rcpat, find (FindAllIndex), is (IsMatching), filter (FilterBestMatch), all '
         '(AllMatches), best (BestMatch), locate (LocatePattern); thorough tier adds the enumeration of 42 patterns of <= 2 tokens x all 121 sequences over '
         '{a,c,t} of length <= 4 x budgets 0..2 x {mismatch, indel} (+ circular and begin=1 variants). Every search runs on a fresh ApatSequence and on one '
         'recycled from the previous case (results must agree). Generator statistics (S lines): kernel, patlen class, budget class, window class, hit '
         'positions (offset 0, window start, sequence end, window end, circular origin, beyond 10000), sequence classes. non-trivial = distinct case whose '
         'pattern compiles',
 'technique': 'Lean 4 theorems on a transcription of the C bit-parallel matcher (64-bit state words as BitVec 64) and of its Go layer + differential '
              'correspondence with the real cgo calls + independent oracle (brute-force Hamming distance at every position, brute-force / Sellers edit '
              "distance over substrings, a constrained edit-distance DP for '#' with indels, mirrored token list for the complement, reverse-complement "
              'symmetry as a relation between two real runs)',
 'level_text': 'Proved for every pattern of 1..63 positions (IUPAC classes, negations, obligatory positions), every budget, every sequence and every window: '
               'the mismatch-only automaton (ManberSub, ManberNoErr, ManberAll without indels, FindAllIndex on a linear sequence) reports exactly the '
               'positions whose Hamming distance to the pattern, with no mismatch at a # position, is within the budget, each once, in increasing order, with '
               'that distance (manberSub_exact, manberNoErr_exact, manberAll_exact, findAllIndex_exact, hits_sorted; via the automaton invariant Rep: bit m-j '
               'of the level-e word <=> p[0..j) matches the last j symbols with <= e substitutions, none obligatory); strand symmetry of mismatch-only '
               'matching for the mirrored code list (match_revcomp) with the letter-complement table decided over the generated tables '
               '(complement_table_mirror); the compiled IUPAC table is the IUPAC table (dnaCode_is_iupac, dnaCode_acgt_only); the repaired LocatePattern does '
               'not panic on a non-empty pattern (locate_total). Deepening round, proved: locate_spec (for a non-empty pattern LocatePattern returns a span '
               'inside the fragment whose reported error count is the edit distance of the pattern to that span and is minimal over ALL substrings), indel_iff '
               '/ indel_hit_iff / manberAll_indel / findAllIndex_indel (the Wu-Manber automaton with indels reports at each end position the least edit '
               'distance of the pattern to a substring ending there when within the budget; hypothesis: no obligatory # position - with # the C code is not '
               'uniform, example in Props), compile_grammar, complement_mirror and match_revcomp_string (the string-level complementPattern yields the '
               'mirrored code list for every pattern of the documented grammar, so strand symmetry holds without the MirrorList hypothesis; '
               'complement_outside_grammar: counterexample for ## which CheckPattern accepts). Second deepening round, proved: indel_oblig_iff (ManberIndel '
               "for EVERY pattern of 1..63 positions, '#' included: a hit (pos-m+1,k) iff k <= e is the least cost of an alignment ReachO of the pattern with "
               'a suffix of the window read up to pos; ReachO = edit alignments in which an obligatory position is never substituted, never deleted and not '
               'followed by an inserted symbol, plus the start rule of the C init loop: in front of the window any pattern prefix counts as deleted), '
               'indel_oblig_strict (an end position >= m+k-1 symbols after the window start is reported through a strict alignment only), oblig_never_error '
               '(in a strict alignment an obligatory position is matched by a symbol of its class at no cost), strict_is_alignment; compile_grammar_iff '
               '(MakeApatPattern accepts exactly the documented grammar, for strings without the adjacencies ##, !#, !!), position_semantics (a compiled '
               'position accepts exactly the IUPAC class of its letters, negated for !, obligatory iff #); raw_hits_within_budget, raw_hits_sorted, '
               'bestOf_leftmost_min (BestMatch selects the leftmost raw hit of minimal error level), filterBestMatch_cover / filterBestMatch_chain '
               '(FilterBestMatch as repaired keeps for every raw hit a hit with at most as many errors; kept hits never overlap), allMatches_spec / '
               'bestMatch_spec (composition automaton o LocatePattern on a linear sequence: every returned triple is within the budget and is a raw hit passed '
               'unchanged or, in indel mode, a span inside the sequence whose reported error count IS the edit distance between the pattern string and that '
               'span). Still by correspondence/oracle only: completeness of AllMatches in indel mode (oracle all.iff), AllMatches/BestMatch on circular '
               'sequences (known finding D35).',
 'level_note': 'Trusted: Lean kernel; the transcription Model/Apat.lean (validated differentially: compiled code words, omask, S matrix and every hit list are '
               'compared byte for byte); the C compiler; extractor (literals only). The model follows the code as repaired by the seven C10 patches (BestMatch '
               'end, LocatePattern start, LocatePattern short sequence, complement of !X# first, complement of negated classes; this round: circular sequence '
               'shorter than MAX_PAT_LEN read past its end - C10-circular-short-overread -, FilterBestMatch/AllMatches lost every match when the first one '
               'starts beyond position 10000 - C10-filterbest-first-hit-beyond-10000). Pattern length 64 (and more) is accepted by MakeApatPattern although '
               '`0x1L << patlen` is undefined behaviour in C: reported by the oracle (find.sub.patlen64), not modelled (results of such cases are printed as '
               '`unmodelled`). An error budget > 63 overruns the r[] array of ManberSub/Indel (not validated by MakeApatPattern): not exercised (the harness '
               "rejects e > 63). '#' with indels: the semantics proved (indel_oblig_iff) is the one of the code as it is - asymmetric (insertion allowed "
               'before, not after, an obligatory position) and with the start exception (A#C, one error, is found in `c` at the window start but not in `tc`); '
               "the property statement says nothing about '#' with indels, so this is recorded as an observation, not as a finding. LocatePattern compares the "
               'raw pattern string (brackets, !, # included) by _samenuc: allMatches_spec / bestMatch_spec speak about that string (Pattern.locPat), which is '
               'the pattern for pure IUPAC patterns only (documented restriction of AllMatches).',
 'trusted_base': LEAN_TB + [
                  'extract/ (literal extraction of sDnaCode, LX_BIO_DNA_ALPHA, LX_BIO_CDNA_ALPHA, PATMASK, OBLIBIT, MAX_PAT_LEN, ALPHA_LEN, _iupac, '
                  '_revcmpDNA)',
                  "C compiler translation of apat_parse.c / apat_search.c / obiapat.c / libstki.c (two's-complement conversion of hit positions to int32)",
                  'brute-force Hamming / edit-distance references and the token parser of the documented pattern grammar in the harness',
                  'pkg/obiapat/verif_hooks.go (read-only accessors to the compiled pattern)'],
 'modelled': 'pkg/obiapat apat_parse.c (CheckPattern, splitPattern, valPattern, EncodePattern), apat_search.c (CreateS, ManberNoErr, ManberSub, ManberIndel, '
             'ManberAll), obiapat.c (UpperSequence, EncodeSequence, circular extension min(seqlen, MAX_PAT_LEN), buildPattern, '
             'complementPattern/reverseSequence), pattern.go (MakeApatPattern, ReverseComplement, FindAllIndex, IsMatching, FilterBestMatch, AllMatches, '
             'BestMatch), obialign/locatepattern.go (LocatePattern, _samenuc)',
 'assumptions': ['pattern length 1..63 (64 is undefined behaviour in C, reported separately)',
                 'error budget <= 63 (the r[] array of ManberSub/Indel has 2*MAX_PAT_ERR+2 words; a larger budget is a stack overrun, not exercised)',
                 'the search window is the one the API applies: [max(begin,0), min(begin+length+MAX_PAT_LEN, len)) (length < 0 = whole sequence)',
                 "sequence symbols are compared as the matcher specifies: a sequence letter matches a position iff it belongs to the position's class (classes "
                 'contain only a,c,g,t unless negated); strand symmetry assumes letters only and no symbol u (obiseq complements u to a)',
                 'compile_grammar_iff: the upper-cased pattern string has no ##, !# or !! (decidable hypothesis `plain`; CheckPattern accepts such strings, '
                 'outside the documented grammar)',
                 'bestMatch_spec, filterBestMatch_cover/chain, bestOf_leftmost_min: budget < 10000 (the sentinel of the Go loops)',
                 'circular sequences in AllMatches/BestMatch are tied by correspondence only (known finding D35)',
                 'patterns contain no NUL byte; begin/length fit in int32']}
