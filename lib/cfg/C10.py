from common import LEAN_TB

CFG = {'lean_modules': ['ObiVerif.Props.C10'],
 'gen': True,
 'thorough_seeds': 8,
 'rule': 'cases = (operation, pattern, budget 0..4, indel flag, complemented?, sequence, circular?, begin, length): hand-picked corpus (every defect found, '
         'hits touching both ends, windows, empty/short sequences, pattern lengths 1, 63, 64 and 65); random patterns of 1..63 positions with IUPAC codes, '
         '[...] classes, ! and # (and arbitrary strings over the pattern alphabet for the compiler / complementer); random sequences with 0..3 planted sites '
         'carrying 0..e+1 substitutions (or indels), the first site at offset 0 and the last one at the end in a fixed fraction of the cases, also with '
         'ambiguous symbols or non-letter bytes; windows (begin,length) incl. negative / beyond the end; circular sequences of >= 64 symbols; operations pat, '
         'rcpat, find (FindAllIndex), is (IsMatching), filter (FilterBestMatch), all (AllMatches), best (BestMatch), locate (LocatePattern); thorough tier '
         'adds the enumeration of 42 patterns of <= 2 tokens x all 121 sequences over {a,c,t} of length <= 4 x budgets 0..2 x {mismatch, indel}. Every search '
         'runs on a fresh ApatSequence and on one recycled from the previous case (results must agree). non-trivial = distinct case whose pattern compiles',
 'technique': 'Lean 4 theorems on a transcription of the C bit-parallel matcher (64-bit state words as BitVec 64) and of its Go layer + differential '
              'correspondence with the real cgo calls + independent oracle (brute-force Hamming distance at every position, brute-force / Sellers edit '
              'distance over substrings, mirrored token list for the complement, reverse-complement symmetry as a relation between two real runs)',
 'level_text': 'Proved for every pattern of 1..63 positions (IUPAC classes, negations, obligatory positions), every budget, every sequence and every window: '
               'the mismatch-only automaton (ManberSub, ManberNoErr, ManberAll without indels, FindAllIndex on a linear sequence) reports exactly the '
               'positions whose Hamming distance to the pattern, with no mismatch at a # position, is within the budget, each once, in increasing order, with '
               'that distance (manberSub_exact, manberNoErr_exact, manberAll_exact, findAllIndex_exact, hits_sorted; via the automaton invariant Rep: bit m-j '
               'of the level-e word <=> p[0..j) matches the last j symbols with <= e substitutions, none obligatory); strand symmetry of mismatch-only '
               'matching for the mirrored code list (match_revcomp) with the letter-complement table decided over the generated tables '
               '(complement_table_mirror); the compiled IUPAC table is the IUPAC table (dnaCode_is_iupac, dnaCode_acgt_only); the repaired LocatePattern does '
               'not panic on a non-empty pattern (locate_total). Deepening round, proved: locate_spec (for a non-empty pattern LocatePattern returns a span '
               'inside the fragment whose reported error count is the edit distance of the pattern to that span and is minimal over ALL substrings), indel_iff '
               '/ indel_hit_iff / manberAll_indel / findAllIndex_indel (the Wu-Manber automaton with indels reports at each end position the least edit '
               'distance of the pattern to a substring ending there when within the budget; hypothesis: no obligatory # position - with # the C code is not '
               'uniform, example in Props), compile_grammar, complement_mirror and match_revcomp_string (the string-level complementPattern yields the '
               'mirrored code list for every pattern of the documented grammar, so strand symmetry holds without the MirrorList hypothesis; '
               'complement_outside_grammar: counterexample for ## which CheckPattern accepts). Still by correspondence/oracle only: # combined with indels, '
               'circular re-alignment, the composition AllMatches/BestMatch = indel_iff o locate_spec.',
 'level_note': 'Trusted: Lean kernel; the transcription Model/Apat.lean (validated differentially: compiled code words, omask, S matrix and every hit list are '
               'compared byte for byte); the C compiler; extractor (literals only). The model follows the code as repaired by the five C10 patches (BestMatch '
               'end, LocatePattern start, LocatePattern short sequence, complement of !X# first, complement of negated classes). Pattern length 64 (and more) '
               'is accepted by MakeApatPattern although `0x1L << patlen` is undefined behaviour in C: reported by the oracle (find.sub.patlen64), not modelled '
               '(results of such cases are printed as `unmodelled`). Memory safety of the C stacks and of the circular extension (EncodeSequence reads '
               'in[0..64) even when the sequence is shorter) is not covered: circular sequences shorter than 64 are not exercised.',
 'trusted_base': LEAN_TB + ['extract/ (literal extraction of sDnaCode, LX_BIO_DNA_ALPHA, LX_BIO_CDNA_ALPHA, PATMASK, OBLIBIT, MAX_PAT_LEN, ALPHA_LEN, _iupac, _revcmpDNA)',
 "C compiler translation of apat_parse.c / apat_search.c / obiapat.c / libstki.c (two's-complement conversion of hit positions to int32)",
 'brute-force Hamming / edit-distance references and the token parser of the documented pattern grammar in the harness',
 'pkg/obiapat/verif_hooks.go (read-only accessors to the compiled pattern)'],
 'modelled': 'pkg/obiapat apat_parse.c (CheckPattern, splitPattern, valPattern, EncodePattern), apat_search.c (CreateS, ManberNoErr, ManberSub, ManberIndel, '
             'ManberAll), obiapat.c (UpperSequence, EncodeSequence, circular extension, buildPattern, complementPattern/reverseSequence), pattern.go '
             '(MakeApatPattern, ReverseComplement, FindAllIndex, IsMatching, FilterBestMatch, AllMatches, BestMatch), obialign/locatepattern.go '
             '(LocatePattern, _samenuc)',
 'assumptions': ['pattern length 1..63 (64 is undefined behaviour in C, reported separately)',
                 'error budget <= 63 (the r[] array of ManberSub/Indel has 2*MAX_PAT_ERR+2 words)',
                 'the search window is the one the API applies: [max(begin,0), min(begin+length+MAX_PAT_LEN, len)) (length < 0 = whole sequence)',
                 "sequence symbols are compared as the matcher specifies: a sequence letter matches a position iff it belongs to the position's class (classes "
                 'contain only a,c,g,t unless negated); strand symmetry assumes letters only and no symbol u (obiseq complements u to a)',
                 'obligatory positions combined with indels, and circular sequences in AllMatches/BestMatch, are tied by correspondence only',
                 'patterns contain no NUL byte; begin/length fit in int32']}
