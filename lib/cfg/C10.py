from common import LEAN_TB

CFG = {'lean_modules': ['ObiVerif.Props.C10'],
 'gen': True,
 'thorough_seeds': 8,
 'rule': 'conc cases (3 per quick run, 12 per thorough seed): 3-5 scans (one without budget, budgets 1..4, one with indels) over 40-120 kb sequences with planted sites, answered alone (= the model) and then again from 8-16 goroutines released together, one compiled pattern shared by the goroutines, one ApatSequence per scan, as the parallel batch workers of obipcr / obigrep / obimultiplex do: every concurrent scan must give the answer of the scan alone (oracle conc.differs; caught seeded change C10-m4, a static state array in ManberSub/ManberIndel); other cases = (operation, pattern, budget, indel flag, complemented?, sequence, circular?, begin, length): hand-picked corpus (every defect found — incl. '
         'the circular over-read and the FilterBestMatch sentinel witnesses with a first hit beyond position 10000 —, hits touching both ends, hits at the '
         'first position of a window with begin > 0 and straddling it, window ends inside the sequence, empty/short sequences, pattern lengths 1, 31, 32, 33, '
         '63, 64 and 65, budgets 62..65, 100, 1000 and 2^30 through MakeApatPattern, BestMatch hits touching the beginning with leading pattern symbols '
         "missing, the X-pattern and sequence-ambiguity observations, '#' with indels); random patterns of 1..63 positions (a fixed fraction with exactly 1, "
         '2, 31, 32, 33, 62, 63 positions) with IUPAC codes, [...] classes, ! and # (and arbitrary strings over the pattern alphabet for the compiler / '
         'complementer); budgets 0..4 and, in a fixed fraction, 0..patlen+1; random sequences with 0..3 planted sites carrying 0..e+1 substitutions (or '
         'indels), the first site at offset 0 and the last one at the end in a fixed fraction of the cases, also with ambiguous symbols, upper-case letters or '
         'non-letter bytes; windows (begin,length) random incl. negative / beyond the end, aimed at the start of a planted site (-1/0/+1) and with the window '
         'END aimed at the end of a site (-1/0/+1); circular sequences of >= 64 symbols and (new) shorter ones, whose buffer is followed by hostile stale '
         'bytes (instances of the pattern) written through the public BioSequence API; operations pat, rcpat, find (FindAllIndex), is (IsMatching), filter '
         '(FilterBestMatch), all (AllMatches), best (BestMatch), locate (LocatePattern), budget (MakeApatPattern with a budget of 60..65536 + FindAllIndex, '
         'run in a child process: rejected from 64 on); thorough tier adds the enumeration of 42 patterns of <= 2 tokens x all 121 sequences over {a,c,t} of '
         'length <= 4 x budgets 0..2 x {mismatch, indel} (+ circular, begin=1 and - new - complemented-pattern variants in both modes). Every search runs on a '
         'fresh ApatSequence and on one recycled from the previous case (results must agree). Strand symmetry is checked as a relation between two real runs: '
         'mirrored hit lists (mismatch-only), same existence and (new) same least error count (indels). Generator statistics (S lines): kernel, patlen class, '
         'budget class, window class, hit positions (offset 0, window start, sequence end, window end, circular origin, beyond 10000), sequence classes. '
         'non-trivial = distinct case whose pattern compiles',
 'technique': 'Lean 4 theorems on a transcription of the C bit-parallel matcher (64-bit state words as BitVec 64) and of its Go layer + differential '
              'correspondence with the real cgo calls + independent oracle (brute-force Hamming distance at every position, brute-force / Sellers edit '
              "distance over substrings, a constrained edit-distance DP for '#' with indels, mirrored token list for the complement, reverse-complement "
              'symmetry as a relation between two real runs, in indel mode per error level); for pattern length 64 the automata are re-stated with the value '
              'of the undefined shift as a parameter and refuted for every value)',
 'level_text': 'Proved for every pattern of 1..63 positions (IUPAC classes, negations, obligatory positions), every budget, every sequence and every window: '
               'the mismatch-only automaton (ManberSub, ManberNoErr, ManberAll without indels, FindAllIndex on a linear sequence) reports exactly the '
               'positions whose Hamming distance to the pattern, with no mismatch at a # position, is within the budget, each once, in increasing order, with '
               'that distance (manberSub_exact, manberNoErr_exact, manberAll_exact, findAllIndex_exact, hits_sorted; via the automaton invariant Rep: bit m-j '
               'of the level-e word <=> p[0..j) matches the last j symbols with <= e substitutions, none obligatory); strand symmetry of mismatch-only '
               'matching for the mirrored code list (match_revcomp) with the letter-complement table decided over the generated tables '
               '(complement_table_mirror); the compiled IUPAC table is the IUPAC table (dnaCode_is_iupac, dnaCode_acgt_only); the repaired LocatePattern does '
               'not panic on a non-empty pattern (locate_total). Deepening round, proved: locate_spec (for a non-empty pattern LocatePattern returns a span '
               'inside the fragment whose reported error count is the edit distance of the pattern to that span and is minimal over ALL substrings), indel_iff '
               '/ indel_hit_iff / manberAll_indel / findAllIndex_indel (the Wu-Manber automaton with indels reports at each end position the least edit '
               'distance of the pattern to a substring ending there when within the budget; hypothesis: no obligatory # position - with # the C code is not '
               'uniform, example in Props), compile_grammar, complement_mirror and match_revcomp_string (the string-level complementPattern yields the '
               'mirrored code list for every pattern of the documented grammar, so strand symmetry holds without the MirrorList hypothesis; '
               'complement_outside_grammar: counterexample for ## which CheckPattern accepts). Second deepening round, proved: indel_oblig_iff (ManberIndel '
               "for EVERY pattern of 1..63 positions, '#' included: a hit (pos-m+1,k) iff k <= e is the least cost of an alignment ReachO of the pattern with "
               'a suffix of the window read up to pos; ReachO = edit alignments in which an obligatory position is never substituted, never deleted and not '
               'followed by an inserted symbol, plus the start rule of the C init loop: in front of the window any pattern prefix counts as deleted), '
               'indel_oblig_strict (an end position >= m+k-1 symbols after the window start is reported through a strict alignment only), oblig_never_error '
               '(in a strict alignment an obligatory position is matched by a symbol of its class at no cost), strict_is_alignment; compile_grammar_iff '
               '(MakeApatPattern accepts exactly the documented grammar, for strings without the adjacencies ##, !#, !!), position_semantics (a compiled '
               'position accepts exactly the IUPAC class of its letters, negated for !, obligatory iff #); raw_hits_within_budget, raw_hits_sorted, '
               'bestOf_leftmost_min (BestMatch selects the leftmost raw hit of minimal error level), filterBestMatch_cover / filterBestMatch_chain '
               '(FilterBestMatch as repaired keeps for every raw hit a hit with at most as many errors; kept hits never overlap), allMatches_spec / '
               'bestMatch_spec (composition automaton o LocatePattern on a linear sequence: every returned triple is within the budget and is a raw hit passed '
               'unchanged or, in indel mode, a span inside the sequence whose reported error count IS the edit distance between the pattern string and that '
               'span). Third round, proved: allMatches_complete / allMatches_complete_substring / bestMatch_complete / bestMatch_matched_iff / '
               'pure_pattern_complete (COMPLETENESS of AllMatches and BestMatch in indel mode on a linear sequence, formerly the oracle all.iff: every '
               'substring of the window within the budget gives a raw hit, every raw hit is represented by a hit kept by FilterBestMatch with at most as many '
               'errors and linked to it by a chain of overlapping hits, the re-alignment fragment of a kept hit - clipped at both ends of the sequence - '
               'contains a substring witnessing its error level, so LocatePattern returns a span with at most as many errors, exactly its _samenuc distance, '
               'minimal over all substrings of the fragment, and the budget filter keeps it; hypotheses: no # position and Compat = _samenuc agrees with every '
               'acceptance of the compiled classes, true for letters-only patterns without X: pure_pattern_compat); samenuc_vs_compiled (the exact relation '
               'between _samenuc and the compiled classes, decided over the generated tables), samenuc_X_differs / x_pattern_dropped (counterexample for the '
               'pattern letter X: a match within the budget is dropped by AllMatches, BestMatch reports more errors than the budget - proposed finding); '
               'seq_ambiguity_code_is_exact / seq_ambiguity_both_strands / errcount_differs_on_ambiguity (the IUPAC SEQUENCE side: a sequence symbol other '
               'than a c g t is an exact code word for the C matcher - accepted by no un-negated position, by every negated one - on both strands, u excepted '
               '(D34); _samenuc treats it as a class, so AllMatches can report fewer errors than FindAllIndex for the same occurrence); makeApatPattern_guard '
               '/ budget_in_bounds / budget_overrun_unguarded (the budget guard of buildPattern, fix 90a9ab4: a budget >= 64 is rejected, every accepted '
               'budget keeps ManberSub/ManberIndel inside r[2*MAX_PAT_ERR+2]); compile_grammar_full / compile_codes_full / xposition_semantics / '
               "plain_is_documented (MakeApatPattern accepts EXACTLY the canonical lists of extended positions '!'* (Letter | '[' Letter+ ']' | '#') ['#'] - "
               'no `plain` hypothesis - and what they compile to: A## = A# + an obligatory position accepting nothing, !# = obligatory anything, !!A = A); '
               'circular AllMatches/BestMatch (known finding D35 stays open), exact characterisation: allMatches_circular_panic_iff, '
               'allMatches_mismatch_is_filter (exact and mismatch-only modes are not affected), allMatches_circular_affected, allMatches_circular_inside_ok, '
               'bestMatch_circular_char, circular_counterexamples. Fourth round, proved: the pattern-length bound - every theorem carries the explicit '
               'hypothesis 1 <= patlen <= 63 (patlen_63_covered: the bound is reached), MakeApatPattern accepts 64 positions (len64_accepted) and there the '
               'statement is false for EVERY value of the undefined shift 0x1L << 64: len64_no_exact_automaton / len64_not_exact (pattern A^64 on a^64 and c '
               'a^63: the occurrence is missed or a spurious hit is reported), manberNoErr_exact_fails_at_64 (manberNoErr_exact with patlen <= 64 is refuted), '
               'len64_d33_witness (ACGTx16 on acgtx20: ManberSub reports nothing, ManberIndel nothing or all 80 end positions, as the real code does: D33 '
               'stays open); strand symmetry WITH INDELS (formerly the oracle find.revcomp-indel only): editDist_strand (edit distance of the complemented '
               'pattern to d[a:b] = edit distance of the pattern to rc(d)[n-b:n-a]), match_revcomp_indel (for every error level K the complemented pattern has '
               'a hit with <= K errors on d iff the pattern has one on rc(d)), match_revcomp_indel_nonempty, match_revcomp_indel_locus (a hit ending at pos '
               'whose witness substring starts at a corresponds to a hit ending at the mirror image of a with at most as many errors), '
               'match_revcomp_indel_string (for the pattern returned by ReverseComplement, every pattern string of the grammar without #); strand symmetry at '
               "the level of the Go API on the stored bytes with the obiseq reverse complement (SeqOps.rc, C07's model): findAllIndex_revcomp (FindAllIndex of "
               'the complemented pattern on seq = FindAllIndex of the pattern on seq.ReverseComplement() with (s,e,k) -> (n-e,n-s,k); exact and mismatch-only '
               'mode, sequence of lower-case letters without u), findAllIndex_revcomp_string (the same for MakeApatPattern(p).ReverseComplement(), every '
               'pattern string of the documented grammar, !, # and [...] included), findAllIndex_revcomp_indel (with indels, per error level); '
               'findAllIndex_circular_is_extended / findAllIndex_indel_circular (FindAllIndex on a circular sequence IS FindAllIndex on the linear sequence '
               'extended by its first min(len, MAX_PAT_LEN) symbols: every theorem about linear sequences describes the raw hits on circular ones, in every '
               'mode). Partial: completeness of AllMatches/BestMatch is proved under Compat and without # (the complement - patterns with X, brackets, !, # - '
               'is the documented restriction of AllMatches plus the X counterexample). Tied by correspondence/oracle only: AllMatches/BestMatch results on '
               'circular sequences beyond the characterisation theorems (D35), pattern length 64 (result lines `unmodelled`, oracle find.*.patlen64 = D33), '
               'complementPattern outside the documented grammar (complement_outside_grammar), strand symmetry of patterns with # in indel mode.',
 'level_note': 'Concurrency: the model is sequential; that a scan shares no state with the scans running beside it (what makes the sequential theorems apply to the parallel workers) is exercised by the conc cases, not proved (C code; runtime behaviour). Trusted: Lean kernel; the transcription Model/Apat.lean (validated differentially: compiled code words, omask, S matrix and every hit list are '
               'compared byte for byte); the C compiler; extractor (literals only). The model follows the code as repaired by the ten C10 patches in '
               'notes/patches (all committed in /repo: BestMatch end, LocatePattern start, LocatePattern short sequence, complement of !X# first, complement '
               'of negated classes, EncodeSequence non-letter, circular sequence shorter than MAX_PAT_LEN, FilterBestMatch sentinel beyond position 10000, and '
               '- third round - 90a9ab4 buildPattern rejects an error budget >= 64 (makeApatPattern = guard + compile; op `budget` runs MakeApatPattern with '
               'budgets 60..65536 in a child process, outcome `err` from 64 on) and 2616fd3 BestMatch re-aligns a best indel hit with a negative raw start '
               '(bestMatch_matched_iff; corpus cases with leading pattern symbols missing at offset 0)). Pattern length 64 (and more) is accepted by '
               'MakeApatPattern although `0x1L << patlen` is undefined behaviour in C: reported by the oracle (find.*.patlen64 = D33), result lines printed '
               "`unmodelled`; the theorems len64_* show that no value of the shift repairs it. '#' with indels: the semantics proved (indel_oblig_iff) is the "
               'one of the code as it is - asymmetric (insertion allowed before, not after, an obligatory position) and with the start exception (A#C, one '
               "error, is found in `c` at the window start but not in `tc`); the property statement says nothing about '#' with indels, so this is recorded as "
               "an observation, not as a finding; for the same reason strand symmetry in indel mode is proved for patterns without '#' only. LocatePattern "
               'compares the raw pattern string (brackets, !, # included) by _samenuc: allMatches_spec / bestMatch_spec / allMatches_complete speak about that '
               'string (Pattern.locPat = the first patlen bytes of cpat), which is the pattern for letters-only patterns (documented restriction of '
               'AllMatches). _samenuc differs from the compiled classes in two ways (samenuc_vs_compiled): the pattern letter X (matcher: any base; _samenuc: '
               'nothing - x_pattern_dropped, harness statistics observed:all.x-pattern-match-dropped / observed:best.x-pattern-errcount>budget, proposed '
               'finding, X is not an IUPAC code) and ambiguity codes in the SEQUENCE (matcher: exact code word; _samenuc: class - '
               'errcount_differs_on_ambiguity, observed:all.errcount-by-samenuc, an observation: the reported count is the _samenuc edit distance of the '
               'reported span, never larger than the raw count). match_revcomp_indel is per error level, not per position: a hit of the indel automaton is '
               'located by its end and stands for a substring of variable length, so the two raw hit lists are not mirror images of each other.',
 'trusted_base': LEAN_TB + ['extract/ (literal extraction of sDnaCode, LX_BIO_DNA_ALPHA, LX_BIO_CDNA_ALPHA, PATMASK, OBLIBIT, MAX_PAT_LEN, ALPHA_LEN, _iupac, _revcmpDNA)',
                  "C compiler translation of apat_parse.c / apat_search.c / obiapat.c / libstki.c (two's-complement conversion of hit positions to int32)",
                  'brute-force Hamming / edit-distance references and the token parser of the documented pattern grammar in the harness',
                  'pkg/obiapat/verif_hooks.go (read-only accessors to the compiled pattern)'],
 'modelled': 'pkg/obiapat apat_parse.c (CheckPattern, splitPattern, valPattern, EncodePattern), apat_search.c (CreateS, ManberNoErr, ManberSub, ManberIndel, '
             'ManberAll), obiapat.c (UpperSequence, EncodeSequence, circular extension min(seqlen, MAX_PAT_LEN), buildPattern with its budget guard, '
             'complementPattern/reverseSequence), pattern.go (MakeApatPattern, ReverseComplement, FindAllIndex, IsMatching, FilterBestMatch, AllMatches, '
             'BestMatch), obialign/locatepattern.go (LocatePattern, _samenuc)',
 'assumptions': ['pattern length 1..63 (explicit hypothesis of every theorem; 64 = MAX_PAT_LEN is accepted by the code, undefined behaviour in C, refuted by '
                 'len64_*: D33)',
                 'error budget <= 63: enforced by buildPattern since fix 90a9ab4 (makeApatPattern_guard, budget_in_bounds), no longer an assumption of the '
                 'model',
                 'the search window is the one the API applies: [max(begin,0), min(begin+length+MAX_PAT_LEN, len)) (length < 0 = whole sequence)',
                 "sequence symbols are compared as the matcher specifies: a sequence letter matches a position iff it belongs to the position's class (classes "
                 'contain only a,c,g,t unless negated: seq_ambiguity_code_is_exact); strand symmetry assumes letters only and no symbol u (obiseq complements '
                 'u to a: D34)',
                 'completeness of AllMatches/BestMatch (indel mode): no # position and Compat (letters-only pattern without X: pure_pattern_compat)',
                 'strand symmetry with indels (match_revcomp_indel*): no # position, whole-sequence search',
                 'bestMatch_spec, bestMatch_complete, filterBestMatch_cover/chain, bestOf_leftmost_min: budget < 10000 (the sentinel of the Go loops; implied '
                 'by the budget guard)',
                 'circular sequences in AllMatches/BestMatch: characterised exactly (allMatches_circular_*, bestMatch_circular_char), the defect itself is '
                 'known finding D35',
                 'patterns contain no NUL byte; begin/length fit in int32']}
