from common import LEAN_TB

CFG = {'lean_modules': ['ObiVerif.Props.C13', 'ObiVerif.Props.C13W'],
 'gen': True,
 'thorough_seeds': 8,
 'rule': 'cases = (workers 1..32, --distance 0..3, --ratio p/q in {1, 1/2, 1/10, 5/100, 1/4, 1/3, 2/3, 1/1000, 0, 2, 99/100, 2/7, 3/10; dyadic only for '
         'distance > 1}): `g` = one sample of up to 40 (quick) / 60 (thorough) sequences over acgt (IUPAC codes in part of the distance > 1 cases): stars (a '
         'hub and many one-difference variants: substitution / insertion / deletion, ends and runs of equal symbols favoured), chains, stars of stars, '
         'two-difference variants, duplicates, unrelated sequences, counts with many ties; contention stars of 40..200 sons of ONE father with 8..32 workers; '
         'the corpus starts with the 120-sequence star on which the unrepaired code loses increments. Deepening round 2: ratio BOUNDARY samples '
         '(weight(son)/weight(father) exactly (p/q)^d for d = 1, 2, 3, and hub count +-1 around it, also as three samples a/b/c of one data set), hub + '
         'variants by one or two indels / substitutions at the FIRST and LAST positions, samples whose counts are all equal (or two values) with --distance '
         '1..3 (the second phase ignores the counts: the stable order decides), `a` = data set of up to 40 sequences spread over 2..5 samples sharing '
         'sequences through the hook that replays the steps, `c` = the same through the REAL CLIOBIClean with --distance, --ratio, --head 0/1 and the worker '
         'count set as the option parser sets them (records written, in output order, with all their obiclean_* annotations). Every case is executed with its '
         'own worker count (result compared with the model), with 1 worker (independent oracle: graph for `g`, every annotation of every record for `a`/`c`, '
         'also for distance > 1 when the sequences are plain acgt) and then with workers 1,2,3,4,5,6,8,12,16,24,32,64 x 3 runs (quick) / 1..32,40,48,64 x 14 '
         'runs (thorough), all results required identical; thorough (first seed): four cases replayed through a `go build -race` build of the harness. '
         'Deepening round 3: `c` data sets of SEVERAL batches of 1000 records (1100 and 1250 records in quick, 1001..2600 in thorough, 26 samples, with and '
         'without --head) through the real CLIOBIClean, the batches of the returned iterator collected in arrival order (hook VerifCLIOBICleanBatches) and '
         're-sequenced by their order number as the writers do: numbers must be 0..k-1, every batch but the last must hold 1000 records, records compared with '
         'the model in output order (arrival out of order does occur: statistic batches:arrival-out-of-order); vm_C13 recomputes the closed form of the '
         'weights next to the loop on every sample (spec-mismatch). non-trivial = distinct well-formed case with at least two sequences',
 'technique': 'Lean 4 theorems on a sequential model of the graph construction and on an interleaving model of the worker pool (threads of atomic or split '
              'load/store micro-steps on shared counters, quantified over every row distribution and every interleaving) + differential correspondence with '
              'the real obiclean functions driven through a verif hook + independent sequential oracle (Levenshtein matrix, textbook LCS matrix for distance > '
              '1, integer weights, exact ratio test, per-record annotations and --head selection) + equality across worker counts and repeated runs + Go race '
              'detector (thorough) + closed form of the weights recomputed by the model executable next to the transcribed loop',
 'level_text': 'Proved for all inputs: atomic_any_schedule (any threads of atomic increments, every interleaving: each counter ends at the number of '
               'increments); split_loses_update (two non-atomic x++ : an interleaving ends at 1) and graph_split_schedule_dependent (the same on the graph '
               'model: a 3-sequence sample, 2 workers, result differs from the reference); edge_iff / edge_iff_sample (row i of the count-sorted sample has an '
               'edge to j iff count j > count i and Levenshtein distance exactly 1, via d1or0_spec of C09, all sequences); sort_spec; mutation_reproduces_edit '
               '(every edge: distance 1, position n >= 0 and symbols such that father = son edited at n); status_spec; sons_exact; graph_schedule_independent '
               '(atomic increments: for every kernel pair, distance and ratio, sample, every number of workers, every distribution/order of the rows over the '
               'workers and every complete interleaving, in both parallel phases, the result (edges, son counts, weights, statuses) equals the sequential '
               'reference cleanSample) and graph_any_two_schedules_agree. Deepening round: reweight_terminates (cleanSample never yields the hang outcome: the '
               'fuel n+2 always suffices), reweight_two_turns, reweight_graph_forward, reweight_hang_reachable (with a backward edge and a lost increment the '
               'fuel does run out: the outcome is not dead code), sort_stable (the count sort keeps the input order among ties). Deepening round 2: edge2_iff '
               '(--distance d > 1, extendSimilarityGraph: a row without distance-one father is linked to row j iff j is later in the stable count order, the '
               'edit distance is >= 2 and the optimal LCS alignment has <= d differences; the edge is unique and carries exactly that number; via '
               'fastLCS_decides_bound and d1or0_spec of C09, |a|+|b| < 30000), ratio_test_rational (the integer test of the model is w1/wf <= (p/q)^dist over '
               'Rat), output_edges_exact (every distance and ratio: the edges obiclean ends with are exactly the edges of edge_iff / edge2_iff that pass the '
               'ratio test on the weights written for the two nodes), dataset_schedule_independent (data set of several samples: for every per-sample schedule '
               'every annotation of every record and the records written with or without --head equal the sequential reference cleanDataset), '
               'dataset_terminates, annot_counts_spec (head / internal / singleton / sample counts and obiclean_head as functions of the per-sample statuses), '
               'cli_head_spec (--head writes exactly the records with obiclean_head, input order, each once), mutation_value_function_of_pair (every '
               'obiclean_mutation entry is a function of the son and father sequences only: two samples can only write the same value under the same key, so '
               'the map iteration order over samples cannot show). Deepening round 3 (Props/C13W.lean): weights_closed_form / weights_closed_form_list '
               '(obiclean_weight of every sequence of every sample, any kernels / distance / ratio, is specW: weight k = count k + sum over the edges i -> k '
               'of round(weight i * count k / sum of the counts of the fathers of i), weight_recursion; specW solves the system IsWeightSolution), '
               'weights_unique (the system has exactly one solution because the count strictly increases along every edge: edge_strict_count / count_rank from '
               'edge_iff), graph_acyclic (no sequence reaches itself along son -> father edges), reweight_order_independent (firing the rows in ANY order in '
               'which each row fires once after all its sons gives the same weights as the loop of the code), reweight_guard_is_firing_order (a duplicate-free '
               'run satisfies the Go condition SonCount == AddedSons at every firing iff it is such an order; Fired.guard_iff), samplecount_spec '
               '(obiclean_samplecount, and the sizes of obiclean_status / obiclean_weight, = number of samples of the data set in which the record has a count '
               '= size of merged_sample when its keys are distinct), cli_output_any_size (data set of ANY size: whatever the arrival order of the annotated '
               'batches of 1000 and of the batches of the returned iterator, with or without --head, a consumer that re-sequences by batch number receives '
               'exactly the records of cliOutput in data-set order; uses the C03 combinators batchOver / filterOn / sortBatches), rows_verbatim_refine, '
               'edge_iff_verbatim, edge2_iff_verbatim (the rows built by the loop bodies of buildSamplePairs / extendSimilarityGraph on the VERBATIM '
               'index-loop transcriptions d1or0 / fastLCSEGFScoreByte, any scratch-buffer content, never panic and are the rows of the structural model: '
               'edge_iff, mutation_reproduces_edit and edge2_iff hold of them; via d1or0_verbatim_refines / fastLCS_verbatim_refines of C09).',
 'level_note': 'Trusted: Lean kernel; the transcriptions Model/Clean.lean, Model/Race.lean; that the repaired increment (under a sync.Mutex) is indivisible '
               '(Go memory model) - cross-checked by the race detector in the thorough tier. The theorems are about the interleaving MODEL: real goroutine '
               'schedules are exercised (workers 1..64 x repeats on 16 cores, all outputs equal), not enumerated. Floats are not modelled: math.Round(w*c/swf) '
               'and w1/wf <= ratio^dist are exact rational arithmetic in the model (ratio_test_rational proves the integer form equals the Rat form), which '
               'agrees with float64 while w*c < 2^52 and wf*q < 2^52 (and, for distance > 1, a dyadic ratio) - tied by the correspondence check (with '
               'exact-boundary cases w1/wf = (p/q)^d) and the integer oracle only; the closed form of the weights (weights_closed_form) is therefore a '
               'statement about the exact-rational rounding roundDiv. reweight_order_independent is about firing orders of the abstract step rfunc (the loop '
               'of the code is one of them: Forward.reweight_spec); it is not a statement about a concurrent reweightSequences (the code runs it '
               'sequentially). edge2_iff(_verbatim) needs |a|+|b| < 30000 (sentinel of the kernel, hypothesis of the C09 theorems). cli_output_any_size models '
               'the batches with the C03 combinators (IBatchOver, MakeISliceWorker keeping batch numbers, FilterOn = filter + Rebatch) and a consumer that '
               're-sequences by batch number; that the writers of the command do so is property C03/C05 territory (the harness consumer sorts by Order() and '
               'checks the numbers 0..k-1). samplecount_spec assumes nothing; its last clause needs distinct keys in merged_sample (a Go map). Stability of '
               'the sort is proved (sort_stable).',
 'trusted_base': LEAN_TB + ['sync.Mutex makes the increment indivisible (Go memory model); Go race detector as cross-check',
                  'float64 arithmetic of reweightSequences / FilterGraphOnRatio agrees with exact rationals in the tested range',
                  'C09: d1or0_spec, fastLCS_decides_bound, d1or0_verbatim_refines, fastLCS_verbatim_refines (proved there) and the tie of the C09 transcriptions to D1Or0 / FastLCSScore', 'C03: the transcriptions of IBatchOver / FilterOn / Rebatch / SortBatches (Model/Iter.lean) and their tie to pkg/obiiter'],
 'modelled': 'pkg/obitools/obiclean graph.go (sortSamples, buildSamplePairs, reweightSequences, extendSimilarityGraph, FilterGraphOnRatio, ObicleanStatus, '
             'makeEdge), obiclean.go (buildSamples via the hook, Mutation, status/weight annotations, annotateOBIClean counts and head flag); kernels from '
             'pkg/obialign (D1Or0, FastLCSScore) through Model/Lcs.lean; data-set layer: buildSamples, the per-sample loops of CLIOBIClean, Mutation, '
             'annotateOBIClean and the --head selection (FilterOn(IsHead)), compared with the real CLIOBIClean driven through verif_hooks_cli.go; round 3: the '
             'batch layer of annotateOBIClean / --head (IBatchOver(1000), MakeISliceWorker, FilterOn(IsHead, 1000).Rebatch) through Model/Iter.lean, observed '
             'through verif_hooks_cli2.go (batches with their order numbers, arrival order)',
 'assumptions': ['counts >= 1 and < 2^30; sequences are lower-case ASCII letters (SetSequence lower-cases A-Z)',
                 'workers >= 1 (with 0 workers the feeding goroutine blocks forever and no edge is built)',
                 'the progress bars / GML / ratio-table outputs of CLIOBIClean are not observed',
                 'every record has a merged_sample map with at least one sample (no "NA" sample); data sets of any size (several batches of 1000)']}
