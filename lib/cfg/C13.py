from common import LEAN_TB

CFG = {'lean_modules': ['ObiVerif.Props.C13'],
 'gen': True,
 'thorough_seeds': 8,
 'rule': 'cases = (workers 1..32, --distance 0..3, --ratio p/q in {1, 1/2, 1/10, 5/100, 1/4, 1/3, 2/3, 1/1000, 0, 2, 99/100; dyadic only for distance > 1}, '
         'one sample of up to 40 (quick) / 60 (thorough) sequences over acgt (IUPAC codes in the distance > 1 cases)): stars (a hub and many one-difference '
         'variants: substitution / insertion / deletion, ends and runs of equal symbols favoured), chains, stars of stars, two-difference variants, '
         'duplicates, unrelated sequences, counts with many ties; contention stars of 40..200 sons of ONE father with 8..32 workers; the corpus starts with '
         'the 120-sequence star on which the unrepaired code loses increments; `a` cases = up to 16 sequences spread over three samples, annotations compared. '
         'Every case is executed with its own worker count (result compared with the model), with 1 worker (independent oracle) and then with workers '
         '1,2,3,4,6,8,12,16,24,32 x 2 runs (quick) / 1..32 x 12 runs (thorough), all results required identical; thorough (first seed): three cases replayed '
         'through a `go build -race` build of the harness. non-trivial = distinct well-formed case with at least two sequences',
 'technique': 'Lean 4 theorems on a sequential model of the graph construction and on an interleaving model of the worker pool (threads of atomic or split '
              'load/store micro-steps on shared counters, quantified over every row distribution and every interleaving) + differential correspondence with '
              'the real obiclean functions driven through a verif hook + independent sequential oracle (Levenshtein matrix, integer weights, exact ratio test) '
              '+ equality across worker counts and repeated runs + Go race detector (thorough)',
 'level_text': 'Proved for all inputs: atomic_any_schedule (any threads of atomic increments, every interleaving: each counter ends at the number of '
               'increments); split_loses_update (two non-atomic x++ : an interleaving ends at 1) and graph_split_schedule_dependent (the same on the graph '
               'model: a 3-sequence sample, 2 workers, result differs from the reference); edge_iff / edge_iff_sample (row i of the count-sorted sample has an '
               'edge to j iff count j > count i and Levenshtein distance exactly 1, via d1or0_spec of C09, all sequences); sort_spec; mutation_reproduces_edit '
               '(every edge: distance 1, position n >= 0 and symbols such that father = son edited at n); status_spec; sons_exact; graph_schedule_independent '
               '(atomic increments: for every kernel pair, distance and ratio, sample, every number of workers, every distribution/order of the rows over the '
               'workers and every complete interleaving, in both parallel phases, the result (edges, son counts, weights, statuses) equals the sequential '
               'reference cleanSample) and graph_any_two_schedules_agree. Deepening round: reweight_terminates (cleanSample never yields the hang outcome: the '
               'fuel n+2 always suffices), reweight_two_turns, reweight_graph_forward, reweight_hang_reachable (with a backward edge and a lost increment the '
               'fuel does run out: the outcome is not dead code), sort_stable (the count sort keeps the input order among ties).',
 'level_note': 'Trusted: Lean kernel; the transcriptions Model/Clean.lean, Model/Race.lean; that the repaired increment (under a sync.Mutex) is indivisible '
               '(Go memory model) - cross-checked by the race detector in the thorough tier. The theorems are about the interleaving MODEL: real goroutine '
               'schedules are exercised (workers 1..32 x repeats on 16 cores, all outputs equal), not enumerated. Floats are not modelled: math.Round(w*c/swf) '
               'and w1/wf <= ratio^dist are exact rational arithmetic in the model, which agrees with float64 while w*c < 2^52 and wf*q < 2^52 (and, for '
               'distance > 1, a dyadic ratio) - tied by the correspondence check and the integer oracle only. reweight: the model runs the same fixed-point '
               'loop with fuel n+2 and reports `hang` if it were exhausted; that it never is is now a theorem (reweight_terminates). edge_iff is stated on d1F '
               '/ bandLCS (structural layers of C09); the verbatim index-loop layers are executed side by side on every pair of every case (layer-mismatch '
               'otherwise). The exactness statement covers the default distance 1; for --distance > 1 only determinism and the model/code agreement are '
               'claimed (the second-phase edges inherit C09 fastLCS_sound). Stability of the sort is proved (sort_stable).',
 'trusted_base': LEAN_TB + ['sync.Mutex makes the increment indivisible (Go memory model); Go race detector as cross-check',
 'float64 arithmetic of reweightSequences / FilterGraphOnRatio agrees with exact rationals in the tested range',
 'C09: d1or0_spec (proved) and the tie of d1F / bandLCS to D1Or0 / FastLCSScore'],
 'modelled': 'pkg/obitools/obiclean graph.go (sortSamples, buildSamplePairs, reweightSequences, extendSimilarityGraph, FilterGraphOnRatio, ObicleanStatus, '
             'makeEdge), obiclean.go (buildSamples via the hook, Mutation, status/weight annotations, annotateOBIClean counts and head flag); kernels from '
             'pkg/obialign (D1Or0, FastLCSScore) through Model/Lcs.lean',
 'assumptions': ['counts >= 1 and < 2^30; sequences are lower-case ASCII letters (SetSequence lower-cases A-Z)',
                 'workers >= 1 (with 0 workers the feeding goroutine blocks forever and no edge is built)',
                 'the progress bars / GML / ratio-table outputs of CLIOBIClean are not observed']}
