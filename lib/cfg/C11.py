from common import LEAN_TB

CFG = {'lean_modules': ['ObiVerif.Props.C11'],
 'gen': True,
 'thorough_seeds': 8,
 'rule': 'cases = (forward primer, reverse primer, two error budgets, min/max length, extension (-1 = none), only-full-extension, circular, batch of '
         'templates) for one call of obiapat.PCRSlice: hand-picked corpus (every defect found; sites at both ends, touching / overlapping / one symbol apart, '
         'empty and shorter-than-primer templates, IUPAC primers of different lengths, primers of the extended grammar ([..], !, # — obligatory position hit '
         'by a mismatch, negation facing an ambiguity code), reverse primer = reverse complement of the forward one, palindromic primers, sites sharing '
         'symbols, 1600 amplicons from one template in a batch of one, products of exactly min / max / one more / one less symbols, negative bounds, upper '
         'case / ambiguous / non-nucleotide / u template symbols, asymmetric budgets, clipped and complete flanks, batches long-short-long, circular templates '
         'with the amplicon / the forward site / the reverse site across the origin, sites overlapping across the origin, product covering the circle exactly, '
         'flanks reaching before the origin / past the end, window (sites + flanks) exactly as long as / longer than the circle, circular templates shorter '
         'than 64); random primers of 2..10 (sometimes 12..31) IUPAC positions with different lengths in 3 cases out of 4, in 1 case out of 5 written with the '
         'extended grammar (classes, negations, obligatory positions), in 1 out of 25 reverse = rc(forward) or a palindromic pair; budgets 0..2 (different in '
         '1 case out of 4), 1..5 templates of 0..120 symbols (circular: 64..143, a few shorter) over acgt (sometimes with n, IUPAC codes, upper case, or a '
         '2-letter alphabet giving many hits) with 0..3 planted site pairs in either orientation carrying 0..e+1 substitutions each, gap -3..25 (0, 1 and '
         'negative gaps forced in 3 cases out of 10; on circular templates also gaps that make the product as long as the circle), at offset 0 / at the end / '
         'wrapping the origin in a fixed fraction of the cases; min/max chosen around a planted gap (g,g / g+1,0 / 0,g-1 / 0,g+k / random); extension in '
         '{-1,0,1,2,3,5,10,30}; window-edge cases (150 / 300): primers of unequal length, the complemented site of the last direct hit as far as max length '
         'allows (gap in max-|lf-lr| .. max), either orientation; frag: generic obiiter.IFragments parameters then PCRSlice over the fragments; cli: '
         'obipcr.CLIPCR (options set through the verif hook) — --fragmented on templates of more than 1000 x max length with products of maximal length '
         'planted just before the fragment ends (also with extended-grammar primers and with --circular), and without --fragmented on 60 / 150 short linear or '
         'circular templates with -l in {-2,0,g,g+1}, -L around the planted gap, --delta in {-3,-1,0,1,4,20}, --only-complete-flanking. non-trivial = distinct '
         'case other than an empty single template / a primer of 64 positions',
 'technique': 'Lean 4 theorems on a transcription of _Pcr over the proved matcher model of C10 and the proved Subsequence / reverse-complement model of C07 + '
              'differential correspondence with the real cgo-backed PCRSlice / IFragments / CLIPCR (amplicons in the order returned, id coordinates, '
              'nucleotides, match strings, error counts) + independent oracle: brute force over all pairs of sites found by a naive matcher written from the '
              'documented primer grammar (classes, negations, obligatory positions; IUPAC table and reverse complement written in the harness), annotations of '
              'every amplicon (forward_primer, reverse_primer, direction, types of the match / error attributes, annotations inherited from the template), '
              'number of reports of each amplicon in fragmented mode = number of pieces containing it, and three relations between real runs '
              '(reverse-complemented templates, rotated circular templates — 3 origins per case in quick; in thorough 12 origins for one case out of 8 and every '
              'origin for one case out of 80, one out of 8 on circles of at most 80 symbols —, each template alone vs in its batch)',
 'level_text': 'Proved for every LINEAR template, every primer pair of 1..63 positions each (IUPAC classes, [..] classes, negations, obligatory positions; the '
               'two primers may have different lengths), every budget, every min/max/extension/only-full setting: pcr_total (no log.Fatalf, no panic), '
               'pcr_sound (every reported record is mkAmp of a site of one primer and a site of the complement of the other one located downstream, at least '
               'one symbol apart, length within the bounds, window = segment between the sites or sites + flanks clipped / required complete; forward '
               'orientation as is, reverse orientation reverse-complemented; match strings in primer orientation; error counts = Hamming costs; field-level '
               'reading in mkAmp_forward_fields / mkAmp_reverse_fields), pcr_complete (every such pair is reported, in both orientations), pcr_nodup (each '
               'pair once), lengthOk_iff (min / max are inclusive bounds, 0 = none, touching sites never reported), linBounds_spec (the window with --delta: '
               'clipped at the template ends / required complete), cliOpts_spec (what CLIPCR passes on), pcr_strand_symmetry / _obs (templates over the 15 '
               'IUPAC symbols: the PCR of the reverse complement is, as a multiset, the PCR of the template with the direction flipped) and '
               'pcr_strand_symmetry_grammar / pcr_strand_symmetry_circular_grammar: for EVERY primer pair written in the documented grammar the options '
               'compile, PrimersOk and PrimersMirror hold (mkPrimers_grammar, from C10 complement_mirror) and strand symmetry holds without hypothesis on the '
               'patterns. CIRCULAR templates (hypothesis PrimersFit: no pattern longer than the template, true for every template of >= 64 symbols): '
               'findAllIndex_exact_circular, pcr_total_circular, pcr_sound_circular, pcr_complete_circular, pcr_rotation / _mem / _perm, '
               'pcr_strand_symmetry_circular / _obs; pcr_circular_window_partial (the window is the requested one whenever the request fits in one turn) + '
               'pcr_circular_window_counterexample (it is not otherwise: open finding). FRAGMENTED search (IFragments + _PCRSlice over the pieces, linear): '
               'fragLoop_cover (every window of at most overlap+1 symbols lies inside one piece; overlap_bound_exact: the bound is exact, and the former '
               'overlap of CLIPCR loses a product), pcr_piece_iff (records of a piece = records of the template lying inside the piece, coordinates shifted), '
               'pcr_piece_complete (every mode), pcr_piece_clipped (the open finding C11-frag-clipped-flank stated exactly: same sites, window contained in '
               'the one of the template, equal unless an inner piece end clipped a flank), pcr_fragmented_complete / pcr_fragmented (union over the pieces = '
               'amplicons of the template under the exact condition max length + both sites + both flanks <= overlap + 1; no flanks or complete flanks for the '
               'converse), pcr_fragment_duplicates (an amplicon is reported by two pieces iff its sites and window lie inside both: duplicates are exactly the '
               'amplicons inside an overlap; CLIPCR does not de-duplicate), cli_fragmented (with the parameters of the repaired CLIPCR and primers of the '
               'grammar the condition holds as soon as overlap < 100 x max length), fragments_total / fragments_pieces. The batch is a map over the templates '
               'in the model; that the recycled C buffer does not leak from one template to the next is checked on the real code (each template alone = in its '
               'batch).',
 'level_note': 'Trusted: Lean kernel; the transcription Model/Pcr.lean (validated differentially, order of the amplicons included) and, through it, '
               'Model/Apat.lean and Model/SeqOps.lean; the C compiler. The model follows the code as repaired by the four C11 patches (reverse block circular '
               'length, circular extension before the origin, sites overlapping across the origin, fragment overlap of obipcr). Open findings shown by the '
               'oracle on the real code and modelled as the code is: (1) a circular window sites + flanks longer than the circle is returned modulo the length '
               '(signature pcr.circ.overlong-window; the oracle expects the window read turn after turn); (2) obipcr --fragmented with --delta without '
               '--only-complete-flanking: a piece end clips a flank (cli.clipped-flank / frag.clipped-flank; theorem pcr_piece_clipped); (3) obipcr '
               '--fragmented --circular searches every linear piece as a circle (cli.circular-fragments; no theorem: the pieces of a circular template are '
               'outside the fragment theorems, which are about linear templates). obipcr --fragmented reports an amplicon lying in the overlap of two pieces '
               'once per piece (pcr_fragment_duplicates; counted by the oracle cli.count, not a violation: the property does not forbid it and the ids '
               'differ). Not in the model, oracle only: the annotations forward_primer / reverse_primer / inherited annotations. Circular templates shorter '
               'than 64 symbols: the C encoder reads 64 symbols whatever the length (C10 note); results are compared when no primer is longer than the '
               'template, otherwise printed as `unmodelled`. Primers whose string has 64 characters or more: `unmodelled` (C10 finding patlen64). IFragments '
               'with overlap >= length does not advance (model: none, driver: bad-op; hypothesis of cli_fragmented). Circular theorems and the fragment '
               'theorems are about the model; cli_fragmented is stated for primers of the grammar (for other strings the primers do not compile: log.Fatalf).',
 'trusted_base': LEAN_TB + [
                  'extract/ (tables of C10 / C07)',
                  'C compiler translation of the obiapat C sources',
                  'naive matcher for the documented primer grammar, IUPAC table, reverse complement and fragment cutting written independently in '
                  'harness/c11.go',
                  'pkg/obitools/obipcr/verif_hooks.go (sets the option variables of obipcr)'],
 'modelled': 'pkg/obiapat/pcr.go (_Pcr both orientation blocks, _PCRSlice / PCRSlice, MakeOptions and the Option* setters), pkg/obitools/obipcr/pcr.go '
             '(options and fragmenting parameters of CLIPCR), pkg/obiiter/fragment.go (cutting loop of IFragments); through the imported models: pkg/obiapat '
             'pattern matcher (C10), pkg/obiseq Subsequence and ReverseComplement (C07)',
 'assumptions': ['primers of 1..63 positions, budgets <= 63 (C10 domain); no indels (PCR compiles its primers without)',
                 'strand symmetry: template over a,c,g,t,r,y,m,k,s,w,b,d,h,v,n (no u: open C10 finding); the mirrored code lists of the complemented patterns '
                 'are proved for primers of the documented grammar, a hypothesis (checked by the C10 oracle) for other pattern values',
                 'a pair of sites yields an amplicon only when at least one symbol lies between them (touching sites are rejected by the code on purpose: "For '
                 'when primers touch or overlap"); on a circular template the two sites must not overlap anywhere on the circle',
                 'circular window with flanks longer than the circle: the property wants the flanks as requested; the code returns the request modulo the '
                 'length (open finding)',
                 'fragmented mode: set equality with the unfragmented result + number of reports per amplicon = number of pieces containing it; linear '
                 'templates only']}
