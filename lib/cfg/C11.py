from common import LEAN_TB

CFG = {'lean_modules': ['ObiVerif.Props.C11'],
 'gen': True,
 'thorough_seeds': 8,
 'rule': 'cases = (forward primer, reverse primer, two error budgets, min/max length, extension (-1 = none), only-full-extension, circular, batch of '
         'templates) for one call of obiapat.PCRSlice: hand-picked corpus (every defect found; sites at both ends, touching / overlapping / one symbol apart, '
         'empty and shorter-than-primer templates, IUPAC primers of different lengths, upper case and ambiguous template symbols, many hits, clipped and '
         'complete flanks, batches long-short-long, circular templates with the amplicon / the forward site / the reverse site across the origin, sites '
         'overlapping across the origin, flanks reaching before the origin / past the end, circular templates shorter than 64); random primers of 2..10 '
         '(sometimes 12..31) IUPAC positions with different lengths in 3 cases out of 4, budgets 0..2, 1..5 templates of 0..120 symbols (circular: 64..143, a '
         'few shorter) over acgt (sometimes with n, IUPAC codes, upper case, or a 2-letter alphabet giving many hits) with 0..3 planted site pairs in either '
         'orientation carrying 0..e+1 substitutions each, gap -3..25 (0, 1 and negative gaps forced in 3 cases out of 10; on circular templates also gaps that '
         'make the product as long as the circle), at offset 0 / at the end / wrapping the origin in a fixed fraction of the cases; min/max chosen around a '
         'planted gap (g,g / g+1,0 / 0,g-1 / 0,g+k / random); extension in {-1,0,1,2,3,5,10,30}; frag: generic obiiter.IFragments parameters then PCRSlice '
         'over the fragments; cli: obipcr.CLIPCR --fragmented (options set through the verif hook) on templates of more than 1000 x max length with products '
         'of maximal length planted just before the fragment ends. non-trivial = distinct case other than an empty single template / a primer of 64 positions',
 'technique': 'Lean 4 theorems on a transcription of _Pcr over the proved matcher model of C10 and the proved Subsequence / reverse-complement model of C07 + '
              'differential correspondence with the real cgo-backed PCRSlice (amplicons in the order returned, id coordinates, nucleotides, match strings, '
              'error counts) + independent oracle: brute force over all position pairs with a Hamming matcher written from the IUPAC table, and three '
              'relations between real runs (reverse-complemented templates, rotated circular templates, each template alone vs in its batch)',
 'level_text': 'Proved for every LINEAR template, every primer pair of 1..63 positions each (IUPAC classes, negations, obligatory positions; the two primers '
               'may have different lengths), every budget, every min/max/extension/only-full setting: pcr_total (no log.Fatalf, no panic), pcr_sound (every '
               'reported record is mkAmp of a site of one primer and a site of the complement of the other one located downstream, at least one symbol apart, '
               'length within the bounds, window = segment between the sites or sites + flanks clipped / required complete; forward orientation as is, reverse '
               'orientation reverse-complemented; match strings in primer orientation; error counts = Hamming costs; field-level reading in '
               'mkAmp_forward_fields / mkAmp_reverse_fields), pcr_complete (every such pair is reported, in both orientations: the window of the second '
               'search, computed with reverse.Len() in both blocks, never hides an admissible site), pcr_nodup (each pair once), pcr_strand_symmetry / '
               'pcr_strand_symmetry_obs (templates over the 15 IUPAC nucleotide symbols: the PCR of the reverse complement is, as a multiset, the PCR of the '
               'template with the direction flipped — same nucleotides, match strings and error counts; from C10 hamCost_rc and C07 rc_subseq / rc_rc; '
               'hypothesis: the complemented patterns carry the mirrored code lists, which C10 checks by oracle on every pattern). CIRCULAR templates '
               '(deepening round; hypothesis PrimersFit: no pattern longer than the template, true for every template of >= 64 symbols): '
               'findAllIndex_exact_circular, pcr_total_circular, pcr_sound_circular, pcr_complete_circular, pcr_rotation / pcr_rotation_mem / '
               'pcr_rotation_perm (rotating the template rotates the coordinates and leaves the multiset of amplicons unchanged), pcr_strand_symmetry_circular '
               '/ _obs. The batch is a map over the templates in the model; that the recycled C buffer does not leak from one template to the next is checked '
               'on the real code (each template alone = in its batch).',
 'level_note': 'Trusted: Lean kernel; the transcription Model/Pcr.lean (validated differentially, order of the amplicons included) and, through it, '
               'Model/Apat.lean and Model/SeqOps.lean; the C compiler. The model follows the code as repaired by the four C11 patches (reverse block circular '
               "length, circular extension before the origin, sites overlapping across the origin, fragment overlap of obipcr). Out of the oracle's scope "
               '(correspondence only): a circular window sites + flanks longer than the circle (Subsequence silently returns the window modulo the length), '
               'primers written with the extended grammar ([..], !, #). Circular templates shorter than 64 symbols: the C encoder reads 64 symbols whatever '
               'the length (C10 note); results are compared when no primer is longer than the template (the bytes read past the end cannot be seen then), '
               'otherwise printed as `unmodelled`. Primers of 64 positions: `unmodelled` (C10 finding patlen64). obipcr --fragmented reports an amplicon lying '
               'in the overlap of two fragments twice, and with --delta without --only-complete-flanking a fragment end clips a flank like a template end '
               '(signature cli.clipped-flank / frag.clipped-flank, proposed as an open finding).',
 'trusted_base': LEAN_TB + ['extract/ (tables of C10 / C07)',
 'C compiler translation of the obiapat C sources',
 'brute-force Hamming matcher, IUPAC table and reverse complement written independently in harness/c11.go',
 'pkg/obitools/obipcr/verif_hooks.go (sets the option variables of obipcr)'],
 'modelled': 'pkg/obiapat/pcr.go (_Pcr both orientation blocks, _PCRSlice / PCRSlice, MakeOptions and the Option* setters), pkg/obitools/obipcr/pcr.go '
             '(fragmenting parameters of CLIPCR), pkg/obiiter/fragment.go (cutting loop of IFragments); through the imported models: pkg/obiapat pattern '
             'matcher (C10), pkg/obiseq Subsequence and ReverseComplement (C07)',
 'assumptions': ['primers of 1..63 positions, budgets <= 63 (C10 domain); no indels (PCR compiles its primers without)',
                 'theorems: linear templates; strand symmetry: template over a,c,g,t,r,y,m,k,s,w,b,d,h,v,n (no u: open C10 finding) and complemented patterns '
                 '= mirrored code lists (C10 oracle)',
                 'a pair of sites yields an amplicon only when at least one symbol lies between them (touching sites are rejected by the code on purpose: "For '
                 'when primers touch or overlap"); on a circular template the two sites must not overlap anywhere on the circle',
                 'circular window with flanks longer than the circle: not specified, excluded from the oracle',
                 'fragmented mode is compared as a set with the unfragmented result (duplicates in overlaps are counted, not flagged)']}
