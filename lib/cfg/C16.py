from common import LEAN_TB

CFG = {'lean_modules': ['ObiVerif.Props.C16'],
 'gen': False,
 'thorough_seeds': 8,
 'rule': 'cases = (command, option set, records [with mates], verdicts of regexp/gval/obitax/obiapat as data): each selection option alone (3 value draws), '
         'every pair of the 16 selection option kinds, random subsets of 1..5 kinds, repeatable options 1..3 times, -l/-L/-c/-C at record value -1/+0/+1 and at '
         '0,1,2,-1,2e9,2e9-1, the 6 paired modes x every option kind + random subsets on paired records, each of the 8 edit kinds alone / in pairs / in random '
         'subsets with and without a selection option, the obidistribute classifier, end-to-end CLIFilterSequence runs (batch size 1..4, 2..4 cpus, '
         '--save-discarded and -o files read back); 2..6 records per case with attributes present/absent of type string/int/bool, empty sequences; '
         'non-trivial = distinct well-formed case (not bad-op)',
 'technique': 'Lean 4 theorems on a functional model of the predicate builders / annotation workers (regexp, gval, taxonomy, apat as oracle parameters, '
              'all option sets at once) + reuse of the C03 stream theorems for the routing clauses + differential correspondence with the real code driven '
              'through the real option parser + an independent reference interpreter of the option semantics as failing-input search',
 'level_text': 'grep_exact: for every value of the option globals and every record, the predicate built by CLISequenceSelectionPredicate (nil = no constraint) '
               'is the conjunction of the requested criteria, negated by -v, whenever the -p expressions can be evaluated (grep_fatal_only_expr: it stops only '
               'then). paired_modes/paired_exact: the six --paired-mode are their truth tables, nil predicate included. grep_partition/grep_filter: kept and '
               'discarded streams are the two filters of the input in input order for every batch partition and arrival order (from C03 divideOn_spec / '
               'filterOn_spec); same for the unidentified-reads split of obimultiplex (unidentified_partition). annotate_exact + annotate_*: the chained worker '
               'is the composition of the requested edits in the fixed order, and identifier / sequence / every attribute not named by an option are unchanged '
               '(frame theorems); per-edit effect theorems. distribute_partition / mates_stay_paired: every record goes to the stream of its class (a function of '
               'the record alone) in input order; mates stay at the same rank (C03 distribute_spec, pairTo_spec).',
 'level_note': 'Trusted: Lean kernel; the transcription (Model/Grep.lean, Model/Annotate.lean); regexp / gval / obitax / obiapat verdicts are oracle parameters '
               '(the theorems hold for all of them; the tie passes the real verdicts as data); option parsing by go-getoptions is exercised, not modelled. Not '
               'modelled: the taxonomy/LCA/aho-corasick/--pattern annotation workers, HashClassifier and RotateClassifier of obidistribute (--hash, '
               '--batches: by rank, not by record), file naming of WriterDispatcher. A minimum is "requested" when > 0 (default 0; a bound <= 0 holds of every '
               'length and of every non-negative count: sizeHolds_exact / countHolds_exact), a maximum when it differs from its default 2e9 (an explicit '
               '-L 2000000000 / -C 2000000000 cannot be told from absent).',
 'trusted_base': LEAN_TB + ['Go regexp, PaesslerAG/gval (OBILang), obitax and obiapat verdicts taken as data (oracle parameters of the model)',
                            'go-getoptions option parsing (exercised by every case, not modelled)',
                            'C03 stream theorems (divideOn_spec, filterOn_spec, distribute_spec, pairTo_spec) and their own tie'],
 'modelled': 'obigrep/options.go (every CLI*Predicate builder, CLISequenceSelectionPredicate, CLIPairedReadMode), obigrep/grep.go (CLIFilterSequence, record level), '
             'obiseq/predicate.go (And, Or, Not, PairedPredicat, elementary predicates), obiannotate/obiannotate.go (CLIAnnotationWorker and the clear / '
             'set-identifier / delete-tag / keep / rename-tag / length / set-tag / cut workers, CLIAnnotationPipeline), obiannotate/options.go (CLICut, CLIHasCut), '
             'obiseq/worker.go (ChainWorkers, SeqToSliceWorker, SeqToSliceConditionalWorker), obiseq/attributes.go (Get/Set/Delete/RenameAttribute, Count), '
             'obiseq/subseq.go (Subsequence, non circular), obiseq/class.go (DualAnnotationClassifier)',
 'assumptions': ['the -p / --set-tag / --set-identifier expressions compile (a syntax error stops the program at start-up)',
                 'the taxonomy named by --taxdump loads when a taxonomic option is given',
                 'attribute values are strings, integers, booleans or float64 (maps and slices are not exercised); the count attribute is not a float64 on input',
                 'each upstream batch number is pushed once (Contract of C03)']}
