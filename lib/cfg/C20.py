from common import LEAN_TB

CFG = {'lean_modules': ['ObiVerif.Props.C20'],
 'gen': False,
 'thorough_seeds': 8,
 'rule': 'cases = (width, operation, operands) drawn from word-boundary limb values (0,1,2^k-1,2^k,2^k+1,all-ones,...) and random limbs, plus every shift '
         'amount 0..width+64 on three fixed values per width; a case is non-trivial when it is distinct and is a well-formed operation (not bad-op)',
 'trusted_base': LEAN_TB + ['math/bits Add64/Sub64/Mul64/Div64/LeadingZeros64 modelled by their documented arithmetic meaning',
 'math/big as the independent oracle of the failing-input search'],
 'technique': 'Lean 4 theorems on a limb-level model of obifp + differential correspondence with the real methods + math/big oracle search',
 'level_text': 'Exactness (value when it fits, overflow signalled exactly when it does not) of the three widths is proved in Lean for all operands on a '
               'limb-by-limb transcription of uint64.go/uint128.go/uint256.go; the transcription is tied to /repo by running model and real methods on the '
               "same operand lines every run. Uint128.Mul is proved only for operands with one zero high limb (known finding D27b, pinned by the repository's "
               'own test).',
 'level_note': 'Trusted: Lean kernel; math/bits primitives modelled by their documented meaning; the hand transcription (validated differentially, ~16k '
               'operand lines per quick run); Uint128.QuoRem trial-quotient branch is tied by correspondence and oracle only unless listed among the theorems '
               'in the evidence file.',
 'modelled': 'pkg/obifp uint64.go, uint128.go, uint256.go: every method, limb by limb (Model/Fp.lean)',
 'assumptions': ['log.Warnf has no effect on results', 'log.Panicf is the only overflow signal']}
