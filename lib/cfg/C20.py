from common import LEAN_TB

CFG = {'lean_modules': ['ObiVerif.Props.C20', 'ObiVerif.Props.C20BV', 'ObiVerif.Props.C20BV2', 'ObiVerif.Props.C20Gen'],
 'gen': True,
 'thorough_seeds': 8,
 'rule': 'cases = (width, operation, operands). Fixed corpus: every exported method of Uint64/Uint128/Uint256 and the generic constructors of unint.go on '
         'every word-boundary value of the width (0, 1, 2, 2^k-1, 2^k, 2^k+1 around each limb boundary, 2^(w-1), 2^w-2, 2^w-1; thorough adds k=1,31..33,62,65,'
         '95,126,129,190,193,254, alternating patterns and all-ones in a single limb) and on every PAIR of such values for the binary methods; every shift '
         'amount 0..width+64 on three fixed values per width and the amounts 0,1,31,63,64,65,127,128,129,191,192,193,255,256,257,300,319,320,2^32,2^63,2^64-1 '
         'on every boundary value; LeftShift64/RightShift64 with those amounts x six carry-in words; Add64/Sub64 with carry-in 0 and 1. Then random cases '
         '(12000 quick / 400000 per seed thorough; in thorough one random Uint256.Div in two is replaced by a Mul and the Uint256 division frontier runs one round in eight: the Lean '
         'transcription of that quadratic loop costs ~8 ms per case in the single model process) with limbs drawn from boundary values, small values and random words, near-equal operand pairs one time '
         'in six. Every case also captures the logrus warnings logged by the call (hook at Warn level): the count is part of the result line (` warn=<k>`) and is compared with the model for every method; statistics warn:<width>.<op>. A case is non-trivial when it is distinct and is a well-formed operation (not bad-op)',
 'trusted_base': LEAN_TB + ['math/bits Add64/Sub64/Mul64/Div64/LeadingZeros64 modelled by their documented arithmetic meaning (carry/borrow input 0 or 1)',
 'the go/ast -> Lean translator /verif/extract/fpgen.go (its reading of Go: uint64 +,-,* wrap, shifts, let-rebinding, if/switch chains, log.Panicf = error, log.Warnf = counted)',
 'math/big as the independent oracle of the failing-input search'],
 'technique': 'Lean 4 theorems on a limb-level model of obifp (stated on Nat values and again on BitVec 64/128/256) + T1 tie: the method bodies are re-translated '
              'from the Go source to Lean on every run (extract/fpgen.go -> Gen/FpGen.lean) and proved equal to the model + differential correspondence with the '
              'real methods (values, panics and logrus warnings) + math/big oracle search',
 'level_text': 'One exactness theorem for EVERY exported method of pkg/obifp (`grep "^func (u Uint"`: 28 on Uint64, 32 on Uint128, 24 on Uint256) '
               'and for ZeroUint/OneUint/From64, proved in Lean for all operands on a limb-by-limb transcription of uint64.go/uint128.go/uint256.go/unint.go: '
               'Add/Sub/Mul/Add64/Mul64 return the exact value when it fits and panic exactly when it does not; LeftShift/RightShift by ANY amount are '
               'x*2^n mod 2^w and x/2^n; the carry forms LeftShift64/RightShift64/Add64/Sub64/Mul64 of Uint64 are characterised as double-word registers; '
               'QuoRem/QuoRem64/Div/Div64/Mod/Mod64 of Uint128 and Div of Uint256 return the Euclidean quotient/remainder (u = q*v + r, r < v) and panic '
               'iff v = 0 (Uint256.Div also proved to terminate); Cmp/Cmp64 and the five comparison predicates are the order on values; And/Or/Xor/Not are '
               'Nat.land/lor/xor and 2^w-1-x on the value; Zero/MaxValue/IsZero/Set64; the casts preserve the value when widening and keep exactly '
               'value mod 2^target when narrowing (so every value that fits is preserved, and the Go warning condition is exactly "does not fit"). '
               'Props/C20BV.lean restates add/sub/mul (with BitVec.uaddOverflow/usubOverflow/umulOverflow as the panic condition), shifts, bitwise ops, '
               'ult/ule/equality, udiv/umod and the casts (setWidth) against Lean BitVec 64/128/256, and shows the value is the concatenation of the limbs '
               'as 64-bit words, so the Nat-mod-2^w reading coincides with machine words. Props/C20BV2.lean completes the list: QuoRem/QuoRem64/Div64/Mod64 (udiv/umod by the zero-extended word), Cmp64, Set64, Zero, MaxValue (allOnes), IsZero, '
               'GreaterThan/GreaterThanOrEqual, AsUint64 (setWidth 64), the no-op casts, ZeroUint/OneUint/From64 and the Uint64 carry forms Add64/Sub64/Mul64/LeftShift64/'
               'RightShift64 as 128-bit registers - every exported method now has a Nat-level and a BitVec-level theorem. log.Warnf is an outcome component (…Warns = '
               'number of warnings logged): the narrowing casts warn exactly once iff the value does not fit and never otherwise (u128_toU64_warns_exact, '
               'u256_toU64_warns_exact, u256_toU128_warns_exact, narrowing_cast_outcome), LeftShift64/RightShift64 warn iff n >= 128 (shift64_warns_exact; hence Uint64 '
               'shifts once, Uint128 shifts twice, Uint256 shifts never: u64/u128/u256_shift_warns_exact). TIE, two layers: (T1) extract/fpgen.go re-translates the body of '
               '89 of the 93 functions of uint64.go/uint128.go/uint256.go/unint.go (all but the four with a `for`: Uint256.LeftShift, RightShift, Mul, Div) from the Go AST '
               'into Gen/FpGen.lean on every run, and Props/C20Gen.lean proves Gen.Fp.<method> = Fp.<method> for each of them (gen_<W>_<method>; 9 warning counts '
               'gen_<W>_<method>_warns; the lists of translated / untranslated / may-panic / may-warn functions are pinned by rfl), so an edit of one of those Go bodies '
               'breaks a proof before the harness runs; (T2) the model (incl. the four hand-transcribed loop methods) and the real '
               "methods run on the same operand lines every run (values, panics, warning counts). Uint128.Mul is proved only for operands with one zero high limb (known finding D27b, pinned "
               "by the repository's own test; counterexample theorem u128_mul_hh_not_exact).",
 'level_note': 'Trusted: Lean kernel; math/bits primitives modelled by their documented meaning; the translator extract/fpgen.go (about 700 lines of Go: the semantics it gives to '
               'the Go fragment it accepts is listed at the top of the file; anything outside the fragment is refused, not approximated); the hand transcription of the FOUR methods with '
               'loops that the translator does not handle (Uint256.LeftShift, RightShift, Mul, Div: tied by correspondence only, ~50k operand lines per quick run, every method of every '
               'width among them). The other 89 functions are regenerated and proved equal to the model on every run (Props/C20Gen.lean); gen_U128_quoRem/div/mod need the hypothesis '
               'u.WF (the Go `tq--` wraps, the model subtracts in Nat: equal because the trial quotient of well-formed limbs is below 2^64), all other equalities are unconditional. '
               'Seven source mutants (dropped carry, < to <=, wrong Cmp sign, 63-n to 64-n, narrowed warning condition, a loop added to a method, a new method) each break at least one '
               'proof of Props/C20Gen.lean with the harness not run (checked by hand, /tmp only). The table extraction and the obifp translation share one extractor run: a table of '
               'another property that stops being a literal makes this property report a broken T1 tie as well. Partial: Uint128.Mul (u128_mul_exact_partial / u128_mul_partial_bv, '
               'hypothesis u.w1 = 0 or v.w1 = 0; false without it). Preconditions stated in the theorems rather than removed: carry/borrow input <= 1 for '
               'Uint64.Add64/Sub64 (bits.Add64/Sub64 leave other values undefined; the harness only generates 0 and 1); 64-bit word arguments < 2^64. '
               'log.Warnf calls are an outcome component since the third pass: the model counts them (toU64Warns, toU128Warns, leftShift64Warns, …), the harness captures logrus '
               'warnings with a hook and the count is compared on every case line of every method; the oracle (math/big, independent of the model) demands exactly one overflow warning '
               'iff the value does not fit for Uint128.Uint64 / Uint256.Uint64 / Uint256.Uint128 and none for the widening / no-op casts (sig <w>.to<k>.warn). The warning counts of the '
               'Uint256 shifts (always 0) are hand transcribed (loop methods) and proved (u256_shift_warns_exact); the QuoRem family may syntactically reach a Warnf through '
               'LeftShift/RightShift but never does (n <= 63): modelled as 0, tied by the harness only. The message text of a warning is not modelled (the oracle checks it contains '
               '"overflow"). The value oracle demands only what the '
               'property states (narrowing casts/AsUint64 are checked against math/big when the value fits; LeftShift64/RightShift64 for n < 128; a zero '
               'divisor carries no demand) - outside that the model comparison alone pins the behaviour. Index method -> theorem: <w>_add/sub/mul/cmp/'
               'shl/shr/and/or/xor/not/zero/maxValue/isZero/set64/asUint64/toU64/toU128/toU256/equals/lessThan/lessThanOrEqual/greaterThan/'
               'greaterThanOrEqual_exact for w in u64,u128,u256; u64_add64/sub64/mul64/leftShift64/rightShift64_exact (+ _register); u128_add64/mul64/'
               'cmp64/quoRem/quoRem64/div/mod/div64/mod64_exact, u128_div_mod_char, u128_div64_mod64_char, u128_quoRem_zero, u128_quoRem64_zero; '
               'u256_div_exact, u256_div_zero; zeroUint_exact, oneUint_exact, from64_exact. `go doc ./pkg/obifp` lists no other exported function (From64, OneUint, ZeroUint, the '
               'interface FPUint and the three types; no String/Format/Bytes method exists). BitVec index (Props/C20BV + C20BV2): <w>_<op>_bv for every op above, i.e. additionally '
               'u128_quoRem/quoRem64/div64/mod64/cmp64_bv, <w>_set64/zero/maxValue/isZero/asUint64/greaterThan/greaterThanOrEqual_bv, u64_toU64/u128_toU128/u256_toU256_bv, '
               'zeroUint/oneUint/from64_bv, u64_add64/sub64/mul64/leftShift64/rightShift64_bv (128-bit registers; shift forms for n < 128). Warnings: u128_toU64_warns_exact, '
               'u256_toU64_warns_exact, u256_toU128_warns_exact, narrowing_cast_outcome, shift64_warns_exact, u64/u128/u256_shift_warns_exact. T1: gen_<W>_<method> (80), '
               'gen_zeroUint/oneUint/from64, gen_<W>_<method>_warns (9), gen_translated/untranslated/withWarnCount/mayWarn/mayPanic.',
 'modelled': 'pkg/obifp uint64.go, uint128.go, uint256.go: every exported method, limb by limb, and the number of log.Warnf calls each one executes; unint.go: '
             'ZeroUint/OneUint/From64 at the three widths (Model/Fp.lean); the same functions except the four loop methods, regenerated from the Go AST (Gen/FpGen.lean)',
 'assumptions': ['log.Warnf has no effect on the returned value (logrus; its count is compared)', 'log.Panicf is the only overflow signal',
                 'go/parser sees the same method bodies as the compiler (no build tags / generated files in pkg/obifp besides verif_hooks.go, which the translator skips)',
                 'bits.Add64/Sub64 are called with carry/borrow 0 or 1 (their documented domain)']}
