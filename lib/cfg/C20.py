from common import LEAN_TB

CFG = {'lean_modules': ['ObiVerif.Props.C20', 'ObiVerif.Props.C20BV'],
 'gen': False,
 'thorough_seeds': 8,
 'rule': 'cases = (width, operation, operands). Fixed corpus: every exported method of Uint64/Uint128/Uint256 and the generic constructors of unint.go on '
         'every word-boundary value of the width (0, 1, 2, 2^k-1, 2^k, 2^k+1 around each limb boundary, 2^(w-1), 2^w-2, 2^w-1; thorough adds k=1,31..33,62,65,'
         '95,126,129,190,193,254, alternating patterns and all-ones in a single limb) and on every PAIR of such values for the binary methods; every shift '
         'amount 0..width+64 on three fixed values per width and the amounts 0,1,31,63,64,65,127,128,129,191,192,193,255,256,257,300,319,320,2^32,2^63,2^64-1 '
         'on every boundary value; LeftShift64/RightShift64 with those amounts x six carry-in words; Add64/Sub64 with carry-in 0 and 1. Then random cases '
         '(12000 quick / 400000 per seed thorough) with limbs drawn from boundary values, small values and random words, near-equal operand pairs one time '
         'in six. A case is non-trivial when it is distinct and is a well-formed operation (not bad-op)',
 'trusted_base': LEAN_TB + ['math/bits Add64/Sub64/Mul64/Div64/LeadingZeros64 modelled by their documented arithmetic meaning (carry/borrow input 0 or 1)',
 'math/big as the independent oracle of the failing-input search'],
 'technique': 'Lean 4 theorems on a limb-level model of obifp (stated on Nat values and again on BitVec 64/128/256) + differential correspondence with the '
              'real methods + math/big oracle search',
 'level_text': 'One exactness theorem for EVERY exported method of pkg/obifp (`grep "^func (u Uint"`: 28 on Uint64, 32 on Uint128, 24 on Uint256) '
               'and for ZeroUint/OneUint/From64, proved in Lean for all operands on a limb-by-limb transcription of uint64.go/uint128.go/uint256.go/unint.go: '
               'Add/Sub/Mul/Add64/Mul64 return the exact value when it fits and panic exactly when it does not; LeftShift/RightShift by ANY amount are '
               'x*2^n mod 2^w and x/2^n; the carry forms LeftShift64/RightShift64/Add64/Sub64/Mul64 of Uint64 are characterised as double-word registers; '
               'QuoRem/QuoRem64/Div/Div64/Mod/Mod64 of Uint128 and Div of Uint256 return the Euclidean quotient/remainder (u = q*v + r, r < v) and panic '
               'iff v = 0 (Uint256.Div also proved to terminate); Cmp/Cmp64 and the five comparison predicates are the order on values; And/Or/Xor/Not are '
               'Nat.land/lor/xor and 2^w-1-x on the value; Zero/MaxValue/IsZero/Set64; the casts preserve the value when widening and keep exactly '
               'value mod 2^target when narrowing (so every value that fits is preserved, and the Go warning condition is exactly "does not fit"). '
               'Props/C20BV.lean restates add/sub/mul (with BitVec.uaddOverflow/usubOverflow/umulOverflow as the panic condition), shifts, bitwise ops, '
               'ult/ule/equality, udiv/umod and the casts (setWidth) against Lean BitVec 64/128/256, and shows the value is the concatenation of the limbs '
               'as 64-bit words, so the Nat-mod-2^w reading coincides with machine words. The transcription is tied to /repo by running model and real '
               "methods on the same operand lines every run. Uint128.Mul is proved only for operands with one zero high limb (known finding D27b, pinned "
               "by the repository's own test; counterexample theorem u128_mul_hh_not_exact).",
 'level_note': 'Trusted: Lean kernel; math/bits primitives modelled by their documented meaning; the hand transcription (validated differentially, ~34k '
               'operand lines per quick run, every method of every width among them). Partial: Uint128.Mul (u128_mul_exact_partial / u128_mul_partial_bv, '
               'hypothesis u.w1 = 0 or v.w1 = 0; false without it). Preconditions stated in the theorems rather than removed: carry/borrow input <= 1 for '
               'Uint64.Add64/Sub64 (bits.Add64/Sub64 leave other values undefined; the harness only generates 0 and 1); 64-bit word arguments < 2^64. '
               'log.Warnf calls (narrowing casts that drop bits, LeftShift64/RightShift64 with n >= 128) are not modelled as an outcome: the theorems '
               'state the returned value and, for the casts, that the warning condition is exactly "value does not fit". The oracle demands only what the '
               'property states (narrowing casts/AsUint64 are checked against math/big when the value fits; LeftShift64/RightShift64 for n < 128; a zero '
               'divisor carries no demand) - outside that the model comparison alone pins the behaviour. Index method -> theorem: <w>_add/sub/mul/cmp/'
               'shl/shr/and/or/xor/not/zero/maxValue/isZero/set64/asUint64/toU64/toU128/toU256/equals/lessThan/lessThanOrEqual/greaterThan/'
               'greaterThanOrEqual_exact for w in u64,u128,u256; u64_add64/sub64/mul64/leftShift64/rightShift64_exact (+ _register); u128_add64/mul64/'
               'cmp64/quoRem/quoRem64/div/mod/div64/mod64_exact, u128_div_mod_char, u128_div64_mod64_char, u128_quoRem_zero, u128_quoRem64_zero; '
               'u256_div_exact, u256_div_zero; zeroUint_exact, oneUint_exact, from64_exact.',
 'modelled': 'pkg/obifp uint64.go, uint128.go, uint256.go: every exported method, limb by limb; unint.go: ZeroUint/OneUint/From64 at the three widths '
             '(Model/Fp.lean)',
 'assumptions': ['log.Warnf has no effect on results', 'log.Panicf is the only overflow signal',
                 'bits.Add64/Sub64 are called with carry/borrow 0 or 1 (their documented domain)']}
