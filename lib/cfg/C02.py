from common import LEAN_TB

CFG = {'lean_modules': ['ObiVerif.Props.C02'],
 'gen': False,
 'thorough_seeds': 8,
 'rule': 'cases = title lines through the real _parse_json_header_ (every string of length <=4 (quick) / <=6 (thorough) over { } " \\ a; every string of '
         'length <=3 / <=4 over the 8-symbol hostile alphabet " \\ { } ; = > @ as a string annotation marshalled by go-json; go-json(random map) ++ hostile '
         'trailing text; a corpus with the two title lines that kill / fool the unrepaired scanner and ~45 JSON texts no writer prints (all escapes, '
         '\\uXXXX incl. surrogates, number syntax, null, deep nesting, white space, duplicate keys, non-string definition, malformed texts)), every '
         'quality byte 0..255 x shifts {33,64}^2 through QualitiesString and the FASTQ parser, hostile title lines through both chunk parsers, and full '
         'round trips of 1..3 records (ids with " \\ { } > @ | # NBSP U+2028 DEL control bytes, 300 bytes long; IUPAC sequences of length '
         '0 (writer Fatalf),1,2,59,60,61,119,120,121,180,181 and random; qualities 0..255; annotation maps with hostile / multi-byte / control-character '
         'strings and keys (U+0000, U+0080-U+FFFF boundaries, U+2028/9, astral), ints to +-2^53, floats (+-0, 1e-6/1e21 format thresholds, 2^63, 1e300, '
         'subnormal, max), bools, map[string]int, map[string]string, []int, nested []interface{} / map[string]interface{} / nil of depth <=3 (quick) / <=5 '
         '(thorough); definition absent / empty / untrimmed / starting with { / looking like a JSON object / the only annotation; json / guessed header '
         'parser; shifts 33/64 in and out) through the real FormatFastaBatch/FormatFastqBatch -> FastaChunkParser/FastqChunkParser -> '
         'ParseFastSeqJsonHeader/ParseGuessedFastSeqHeader; '
         'second round: op obik = the real __match__key__ / ParseFastSeqOBIHeader on every string of length <=3 (quick) / <=4 (thorough) over a Z blank tab = _ 1 ; { . plus a '
         'corpus and 200 random texts; op cli = files of 1..6 generated records written by the real Format*Batch, piped through the real obiconvert as a '
         'subprocess (built from the tree under check) and through it again, x {file argument, stdin} x {-Z (gunzipped by the harness), plain} x {--solexa on a '
         'file written with offset 64 (file argument only)}, compared byte for byte (34 files quick, 170 per seed thorough); third pass: op txt = ANY text through the real FastaChunkParser / FastqChunkParser(shift, true) (every text of length <=6 (quick) / <=7 (thorough) starting with > over > a LF blank 1, starting with @ over @ a LF blank + 1; a corpus of 55 multi-record / CR LF / blank-line / cut / bad-symbol texts; 600 (quick) / 6000 per seed (thorough) random texts of 1..4 records assembled from pieces (CR, CR LF, blank lines, upper case, text on the + line, quality line one byte short or long) then cut / one byte replaced / one byte inserted), records compared field by field; op q also for the offsets 14, 172 (round trip demanded), 13, 173, 0, 255, 10, 100, 127, 128, 163 and mixed pairs, rt also with offsets 14 / 172; cli also with --solexa through stdin (qualities 0..63) and flag g = the gzip bytes of the first pass fed unchanged to the second (file .gz or stdin); op obirt = 40 value classes through FormatFastSeqOBIHeader -> ParseFastSeqOBIHeader, OBSERVED ONLY (statistics, no oracle); non-trivial = distinct well-formed case',
 'technique': 'Lean 4 theorems on a transcription of the scanner, the writers, the two parser state machines and a model of the JSON encoder / decoder '
              '(all strings, nestings, lengths, quality bytes, shifts) + differential correspondence with the real code: the model prints the JSON header '
              'itself and decodes it itself (same written bytes, same decoded value by digest) + record-equality, write-read-write and '
              'encoding/json-cross-check oracles on the real code',
 'level_text': 'Model/Json.lean models what go-json prints and reads on the value universe (strings of any bytes with the escapes of appendNormalizedString, '
               'numbers as decimal literals, bools, null, lists and maps nested without bound, members in go-json\'s encoded-key order). '
               'json_decode_encode: decodeObj (encodeObj m) = some m for every object whose number literals obey the JSON grammar; json_encode_balanced / '
               'json_encode_oneLine: the encoder always prints one balanced, properly escaped object on one line, so scan_finds_encoded: the (repaired) '
               'brace/quote scanner of _parse_json_header_ — transcribed loop — finds every encoded object whatever text follows, with NO hypothesis; '
               'goJson_contract discharges the contract (JsonLib.OKat) that the generic composed theorems take as hypothesis, giving the UNCONDITIONAL '
               'header_roundtrip_json, write_read_fasta_json, write_read_fastq_json (offsets 33/64), write_read_fasta_many_json, write_read_fastq_many_json '
               '(any list of records in one chunk through the 12-state machine: new), write_read_write_fixed_fasta_json / _fastq_json, and '
               'reparse_lossless_json: for ANY title line the parser accepts (no hypothesis on its bytes: the decoder\'s output is proved well formed), '
               'formatting what was parsed and parsing again gives the same annotations and definition. guessed_is_json, '
               'write_read_fasta_guessed_json / write_read_fastq_guessed_json: ParseGuessedFastSeqHeader on what the writers print is the JSON parser. '
               'Kept: scan_finds_object (any balanced token list), unrepaired_scanner_cuts_object / _loses_object, qual_roundtrip / _range / '
               'qual_shift_mismatch, fold_unfold, title_roundtrip, and the generic (any JsonLib satisfying the contract) header_roundtrip, reparse_lossless, '
               'write_read_fasta / _fastq / _fasta_many / _fastq_many, write_read_write_fixed_*. '
               'Tie: the compiled model computes the header bytes from the annotation spec (compared byte for byte with the real writers\' text) and decodes '
               'the span the scanner finds with its own decoder (compared by value digest with what the real header parser stored); AnnOK (hypothesis of the '
               'unconditional theorems) is checked on every case. '
               'SECOND ROUND. (1) fasta_machine_refines_structural / fastq_machine_refines_structural: for EVERY text, whenever the 7-state / 12-state machine '
               'returns exactly one record (FASTA: no > after the title line; FASTQ: the record carries qualities — both hypotheses shown necessary by decide '
               'counterexamples), the structural reading readFastaS / readFastqS (splitTitle, unfold) is that record; fasta_machine_exact gives the exact answer of '
               'the FASTA machine in structural terms (both directions): the structural layer is no longer part of the trusted reading. '
               '(2) Model/JsonNum.lean adds Go\'s int / float64 to the values (GVal; a float64 = sign, shortest digits, point position), the writer '
               '(intLit, fmtFloat = AppendFloat64 with its f/e choice, eFmt = strconv %e), the reader (float64 for every number) and the narrowing loop of '
               '_parse_json_header_ as it is written (the float64 is assigned back after the int: identity — narrowing_asis_identity). Proved for all values: '
               'intLit_grammatical (numLitOK (intLit i) for every i), floatLit_grammatical, float_value_roundtrip (Dec.ofLit (fmtFloat d) = d through the layouts '
               '0.000ddd, dd.ddd, ddd000, d.ddde+-XX, sign of zero included), int_value_roundtrip (the decimal value of AppendInt\'s text is integral and equals i, '
               'every i), reread_numbers (annotations -> object -> annotations = the same map with every int replaced by the float64 of the same value: VALUE and '
               'KIND), reread_identical_iff (read back identical, kinds included, iff the map holds no int: every float64, integral ones like 3.0 too, keeps its kind; '
               'exactly the ints change kind, int -> float64 — allowed by the property text, which compares numbers by value), narrowing_intended_changes_float / '
               '_loses_big_float (what the evidently missing else would change). '
               '(3) Model/ObiHeader.lean transcribes __match__key__ and the entry of ParseOBIFeatures; obi_on_empty, obi_no_key, guessed_is_json_obi, '
               'write_read_fasta_guessed_obi_json / _fastq_: on everything the JSON writer prints the guessed parser is the JSON parser, with NO hypothesis on the '
               'OBI-format parser left. (4) shift_range_ok / shift_outside_range_bad: the FASTQ round trips hold for every quality offset 14..172 and for no other '
               '(write_read_fastq_many_anyshift_json); solexa_then_fixed (read 64, write 33, then a fixed point). THIRD PASS. (1) fasta_machine_is_structural: parseFasta text = readFastaManyS text for EVERY text (any number of records; records delivered, the incomplete record dropped at the end of the text, Fatalf and the panic on a text shorter than two bytes included), where readFastaManyS (Lemmas/HeaderMany.lean) is written with splitTitle / unfold / takeWhile / dropWhile only: title line up to the first end of line, body up to the next > which must follow an end of line and a non-empty sequence; fastq_machine_is_structural: parseFastq sh true text = readFastqManyS sh text for every text and every offset (title line, one sequence line whose first byte is taken unchecked, + line, ends of line skipped, quality line of the same length, next @). Both are EQUALITIES (both directions, errors included) proved by induction over the bytes from an arbitrary machine state with arbitrary stale buffers and any records already delivered (fa_many, fq_many), so no buffer leaks from one record to the next. readFasta_structural / readFastq_structural restate the whole readers, write_read_fasta_many_structural_json / write_read_fastq_many_structural_json (offsets 14..172) transfer the round trips to the structural reading: only the machines remain in the trusted reading, and they are compared with the real parsers on arbitrary texts (op txt). (2) int_in_range_is_float64 / int_beyond_range_not_float64: every |i| <= 2^53 is m*2^e with m < 2^53 (a float64), 2^53+1 is not — the range of the property text is exactly the range where the float64 read back has the value of the int. Which floats change kind on re-read: NONE (reread_identical_iff, narrowing_asis_identity: the loop assigns the float64 back), 3.0 is printed 3 and read as the float64 3; exactly the ints change kind; allowed (numbers compared by value).',
 'level_note': 'Trusted: Lean kernel; the transcriptions Model/Header.lean, Model/JsonNum.lean, Model/ObiHeader.lean (scanner, strings.TrimSpace, FormatFasta folding, _formatFastq, QualitiesString, '
               'both chunk-parser state machines, ParseFastSeqJsonHeader, ParseGuessedFastSeqHeader dispatch) and Model/Json.lean. '
               'Numbers: a number is its decimal literal (value = the rational it denotes; canonical positional string for comparison). The choice f/e of '
               'go-json AppendFloat64 and the positional layout are modelled; the shortest digits of a float64 (strconv.FormatFloat) are DATA for the model and '
               'strconv.ParseFloat(shortest digits) = the same float64 is tied by the correspondence only (digest of the re-read value) — not proved. '
               'In Model/Json.lean the Go dynamic type is not part of a value; Model/JsonNum.lean (round 2) adds it on top (see level_text). A float64 >= 2^63 narrowed to int '
               'would change value: covered by generated floats 2^63, 1e21, 1e300 through the record-equality oracle. '
               'Strings: the encoder model is go-json\'s on valid UTF-8; for an invalid byte go-json prints U+FFFD (so a title line holding invalid UTF-8 '
               'inside a JSON string is accepted, and re-formatting changes that byte: outside the stated universe "arbitrary Unicode", reparse oracle skipped, '
               'corpus case kept for the correspondence). '
               'The decoder model is a strict RFC 8259 parser of compact texts; texts it rejects (white space between tokens, surrogate \\u escapes, raw control '
               'characters, and — by a driver guard — duplicate keys, non-string definition) fall back to go-json\'s answer passed as a table (about 6% of the '
               'hdr cases, none of the writer-produced headers); go-json accepting exactly RFC 8259 is not claimed. '
               'Refinement: since the third pass an equality for every text (several records included); parseFastq with with_quality = false (not used by the readers of the property) is not covered by it. '
               'Numbers (round 2): a float64 is its shortest decimal digits (strconv\'s, data: the driver reads them '
               'from FormatFloat(x, e) and refuses the case unless they are in normal form and fmtFloat reprints go-json\'s bytes); the rounding decimal -> float64 is '
               'not modelled, so "an int is read back as the float64 of the same value" is exact on the decimal and needs |i| <= 2^53 for the float64 (IEEE-754, '
               'trusted; generated ints stop at +-2^53). Kinds are tied by a second, kind-aware digest of what the real reader stored (every number float64). '
               'OBI-format headers: only __match__key__ and the no-key path are modelled (what follows a key — regular expressions, go-json on dict values — is the '
               'parameter `rest`); the OBI writer/reader round trip (obiconvert -O) is OUT OF SCOPE by decision: the property text is about the default JSON title lines; it is only OBSERVED (op obirt, no oracle, no model): '
               'same = int, integral float64 < 1e21, bool, plain strings (blank, =, ", apostrophe, {, non-ASCII inside), empty string, map[string]int/string/interface{}, keys with - . _, definition; '
               'changed = float >= 1e21, string with ; or surrounded by blanks or looking like a number / true / T / a JSON object, lists, nil, apostrophe inside a map value, a definition looking like key=value; '
               'lost = NON-INTEGRAL float64 (ParseOBIFeatures stores a float64 only when it is integral: missing else, notes/patches/C02-obi-float-dropped.note), keys with a blank or starting with a digit. '
               'Command line (op cli): the model predicts the bytes obiconvert prints (chunk parser + guessed parser + writer) and that a second pass is the identity; '
               'stdin is read by the C reader kseq (property C17), not by the Go chunk parsers — agreement is observed, not modelled; --solexa is exercised with a '
               'file argument for every quality and through stdin for the qualities 0..63 only: kseq keeps the quality bytes 33..127, offset 64 with quality >= 64 makes it stop with a fatal error '
               '(notes/patches/C02-kseq-highbyte.note; not reachable from the command line, which writes offset 33 only). '
               'Finding C02-format-guess-csv (open, signature cli.(fasta|fastq).format-guess): the format guesser (universal_read.go, anchors of C01) can take a FASTA/FASTQ file printed by obiconvert for text/csv '
               'when it is given back as a file argument (fatal "Sequence  is empty"); reported only when the same run is right with --fasta/--fastq forced; the round trip then goes on with the format forced; repaired in the working tree by the C01 patch notes/patches/C01-sniff-csv-asked-last.diff (the case line stays in the corpus). '
               'The chunk splitting of multi-record files (C01) is outside this property. Values outside the stated universe (ints beyond 2^53, '
               'NaN/Inf, invalid UTF-8 in annotation values) are not generated; an empty sequence makes both writers Fatalf (modelled, outside the property).',
 'trusted_base': LEAN_TB + ['Go strconv shortest float formatting / ParseFloat (data for the model; round trip tied differentially)',
                            'goccy/go-json Marshal/Unmarshal: modelled (Model/Json.lean), tie = byte-for-byte header + by-value digest on every generated map; '
                            'its answers are data only for texts outside the decoder model',
                            'Go strings.TrimSpace / unicode.IsSpace (transcribed from the documentation, exercised by the correspondence)',
                            'harness canonical by-value dump of annotation maps (FNV-1a digest) and its kind-aware variant, recomputed independently by the model driver',
                            'IEEE-754: every integer |i| <= 2^53 is a float64 (the model compares decimal values)',
                            'op cli: os/exec, compress/gzip of the Go standard library; the C reader kseq on stdin (property C17); the format guesser / gzip reader of the command (property C01)'],
 'modelled': 'pkg/obiformats fastseq_json_header.go (_parse_json_header_ scanner + ParseFastSeqJsonHeader, FormatFastSeqJsonHeader), fastseq_header.go '
             '(ParseGuessedFastSeqHeader dispatch), fastseq_write_fasta.go (FormatFasta/FormatFastaBatch incl. empty-sequence Fatalf), fastseq_write_fastq.go '
             '(_formatFastq/FormatFastqBatch), fastaseq_read.go (FastaChunkParser), fastqseq_read.go (FastqChunkParser, _storeSequenceQuality); pkg/obiseq '
             'biosequence.go (QualitiesString, Qualities); pkg/obiutils goutils.go JsonMarshalByteBuffer = goccy/go-json encoder (appendNormalizedString, '
             'AppendInt, AppendFloat64 format choice and %e layout, Mapslice key order) and json.Unmarshal into map[string]interface{} on compact RFC 8259 texts (float64 for every number) + the narrowing loop; '
             'fastseq_obi_header.go (__match__key__, entry of ParseOBIFeatures / ParseFastSeqOBIHeader); cmd/obitools/obiconvert as a subprocess (observed)',
 'assumptions': ['strconv: ParseFloat(FormatFloat(x, shortest)) = x and the shortest digits themselves (data; checked on every generated float through the digest)',
                 'the model of go-json agrees with go-json (checked on every generated map: header bytes and decoded value)',
                 'identifiers contain no blank; sequences are non-empty and over the parser alphabet; input and output quality shifts agree for quality round trips',
                 'annotation maps: number literals grammatical (now a theorem for ints and floats), key `definition` holds the definition string (AnnOK, checked on every case)',
                 'float digits given as data are in normal form and reprinted identically by the typed model (checked on every generated float)']}
