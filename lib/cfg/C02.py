from common import LEAN_TB

CFG = {'lean_modules': ['ObiVerif.Props.C02'],
 'gen': False,
 'thorough_seeds': 8,
 'rule': 'cases = title lines through the real _parse_json_header_ (every string of length <=4 (quick) / <=6 (thorough) over { } " \\ a; every string of '
         'length <=3 / <=4 over the 8-symbol hostile alphabet " \\ { } ; = > @ as a string annotation marshalled by go-json; go-json(random map) ++ hostile '
         'trailing text; a corpus with the two title lines that kill / fool the unrepaired scanner), every quality byte 0..255 x shifts {33,64}^2 through '
         'QualitiesString and the FASTQ parser, hostile title lines through both chunk parsers, and full round trips of 1..3 records (ids with " \\ { } > @, '
         'IUPAC sequences of length 1,59,60,61,120,121 and random, qualities 0..255, annotation maps with hostile / non-ASCII strings and keys, ints to '
         '+-2^53, floats, bools, map[string]int, map[string]string, []int, optional definition; json / guessed header parser; shifts 33/64 in and out) through '
         'the real FormatFastaBatch/FormatFastqBatch -> FastaChunkParser/FastqChunkParser -> ParseFastSeqJsonHeader/ParseGuessedFastSeqHeader; '
         'non-trivial = distinct well-formed case',
 'technique': 'Lean 4 theorems on a transcription of the scanner, the writers and the two parser state machines (all strings, nestings, lengths, quality '
              'bytes, shifts) + differential correspondence with the real code (same header bytes / same written text) + record-equality and '
              'write-read-write oracles on the real code; the JSON library is a parameter whose contract is validated on every generated map',
 'level_text': 'scan_finds_object: for every token list forming one balanced object with properly escaped string bodies (unbounded nesting, any byte '
               'inside strings) and every trailing text, the (repaired) brace/quote scanner of _parse_json_header_ — transcribed loop, not an idealisation — '
               'returns exactly the span of the object; unrepaired_scanner_cuts_object / _loses_object state the repaired defect on the two witness title '
               'lines. qual_roundtrip / qual_roundtrip_range / qual_shift_mismatch: every quality byte, every shift. fold_unfold: every length. '
               'title_roundtrip. write_read_fasta, write_read_fastq (offsets 33 and 64), write_read_fasta_many (any non-empty list of records): running the '
               'transcribed 7-state / 12-state chunk-parser machines and ParseFastSeqJsonHeader on what the transcribed writers print gives the records back '
               '(qualities clamped at 93); write_read_write_fixed_fasta / _fastq / _fasta_many: writing the re-read records gives the same bytes; '
               'header_roundtrip, reparse_lossless: re-parsing a formatted header never changes or loses annotations. The composed theorems take the '
               'contract of go-json on the annotations at hand (JsonLib.OKat: balanced escaped one-line output, Unmarshal(Marshal a) = a) as hypothesis. '
               'The model is tied to /repo by running the real formatters, chunk parsers and header parsers and the compiled model on the same case lines; '
               'the scanner model is fed the very bytes the real _parse_json_header_ receives (hook VerifParseJsonHeader).',
 'level_note': 'Trusted: Lean kernel; the transcription Model/Header.lean (scanner, strings.TrimSpace, FormatFasta folding, _formatFastq, '
               'QualitiesString, both chunk-parser state machines, ParseFastSeqJsonHeader). goccy/go-json is NOT modelled: its answers on every candidate '
               'span of a header are passed to the model as a table, and the hypotheses of the composed theorems (its output is one balanced, properly escaped '
               'object on one line; Unmarshal(Marshal a) = a by value) are validated by the harness on every generated map (oracle + token check), not proved. '
               'Several FASTQ records in one chunk, the guessed-parser dispatch and the structural layer (splitTitle/unfold/readFastaS, cross-checked against the machines on every case) are tied by the correspondence only. OBI-format headers and the chunk splitting of multi-record files (C01) are outside this property. Values outside the stated universe '
               '(ints beyond 2^53, NaN/Inf, invalid UTF-8) are not generated.',
 'trusted_base': LEAN_TB + ['goccy/go-json Marshal/Unmarshal (external library: parameter of the model, contract validated differentially)',
                            'Go strings.TrimSpace / unicode.IsSpace (transcribed from the documentation, exercised by the correspondence)',
                            'harness canonical by-value dump of annotation maps (FNV-1a digest)'],
 'modelled': 'pkg/obiformats fastseq_json_header.go (_parse_json_header_ scanner + ParseFastSeqJsonHeader), fastseq_header.go (dispatch), '
             'fastseq_write_fasta.go (FormatFasta/FormatFastaBatch), fastseq_write_fastq.go (_formatFastq), fastaseq_read.go (FastaChunkParser), '
             'fastqseq_read.go (FastqChunkParser, _storeSequenceQuality); pkg/obiseq biosequence.go (QualitiesString, Qualities)',
 'assumptions': ['go-json emits one balanced object whose string bodies have every " and \\ escaped, without raw end of line (checked on every generated map)',
                 'go-json Unmarshal(Marshal a) = a by value on the stated universe (checked on every generated map)',
                 'identifiers contain no blank; sequences are non-empty and over the parser alphabet; input and output quality shifts agree for quality round trips']}
