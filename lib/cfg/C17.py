from common import LEAN_TB

CFG = {
 'lean_modules': ['ObiVerif.Props.C17'],
 'gen': False,
 'thorough_seeds': 6,
 'timeout': 1500,
 'rule': 'cases = (a) the real ReadSeqFileChunk / OBIMimeTypeGuesser on an io.Reader delivering given bytes in pieces and ending with a clean EOF, io.ErrUnexpectedEOF or another error, for buffer sizes 2..40 and at the data length; '
         '(b) real gzip, bzip2, xz and zstd files truncated at EVERY byte position (2-record file in quick, also a 12-record file in thorough) and with single bit flips, read through the real ReadSequencesFromFile — the decompressor\'s own verdict (bytes delivered, error class) is recorded and given to the model as data; '
         '(c) the real obiconvert as a subprocess on truncated files and on a truncated gzip stdin; non-trivial = distinct well-formed case',
 'technique': 'Lean 4 theorem on a model of the chunked reader over an arbitrary byte stream ending in an arbitrary error (any non-EOF error is fatal, for every buffer size and splitter) + differential correspondence with the real readers under injected faults + exhaustive truncation of real compressed files + subprocess exit status',
 'level_text': 'The toolkit\'s own input error handling (the repaired readFull, ReadSeqFileChunk, the 1 MiB peek of the format guesser) is modelled over a stream = bytes + final error; the theorems listed in the evidence state that for every stream, every buffer size >= 2 and every well-behaved record splitter a final error other than a clean EOF yields the fatal outcome, and a clean EOF yields ok. '
               'The model is tied to the real functions by fault injection on the same byte strings (chunks delivered and outcome compared), and the real decompressors are exercised at every truncation point of real files.',
 'level_note': 'Trusted: Lean kernel; transcription Model/ReadErr.lean. The four decompression libraries and zlib/kseq are external: their verdict on a damaged file is data for the model (known finding D22x: ulikunitz/xz reports a clean EOF for a stream cut just after its header). '
               'A file cut inside its magic number is no longer a compressed file and is outside the model (it is read as plain text and refused unless it parses). The C stdin path is tied by subprocess runs only.',
 'trusted_base': LEAN_TB + ['compress libraries: klauspost/compress gzip+zstd, dsnet bzip2, ulikunitz xz; zlib gzread + kseq.h for stdin', 'log.Fatal = error reported and non-zero exit'],
 'modelled': 'seqfile_chunk_read.go (readFull, ReadSeqFileChunk), universal_read.go (OBIMimeTypeGuesser peek), fastaseq_read.go EndOfLastFastaEntry (as the splitter of the executable model)',
 'assumptions': ['an io.Reader keeps returning its final error once it has returned it'],
}
