from common import LEAN_TB

CFG = {'lean_modules': ['ObiVerif.Props.C15', 'ObiVerif.Props.C15V', 'ObiVerif.Props.C15W', 'ObiVerif.Props.C15X'],
 'gen': True,
 'thorough_seeds': 8,
 'rule': 'cases = id3 Q refs taxids taxonomy heads counts (obitag2.CLIAssignTaxonomy on a data base prepared with the real SetFamily / IndexSequence as '
         'obireffamidx does, the query pushed through the returned iterator: exact-match table, two-stage Identify; a case in which Identify would dereference '
         'nil inside a worker goroutine - no cluster head, family of the consensus without sequences - is predicted with the real public pieces and answered '
         'panic without running the pipeline, counted id3:predicted-panic); sl1|sl2 Q refs taxids taxonomy given-indices (obitag.Identify / obitag2 '
         'FindClosests+BestConsensus on references carrying GIVEN obitag_ref_index maps: the selection loop with its fallback branches, blank / malformed / '
         "unknown-taxid entries, keys 999..1002 and 2000, empty map, no index (log.Fatalf), non-termination observed through the loop's own debug line: a "
         "logrus hook counts 'Problem in identification line' and ends the goroutine after 64 repetitions = outcome hang, no timeout involved); cw A B (shared "
         '4-mers of two sequences); fc1|fc2 Q refs (obitag / obitag2 FindClosests); ix s refs taxids taxonomy (obirefidx.IndexSequence of reference s); '
         'id1|id2 Q refs taxids taxonomy (obitag.Identify; obitag2.FindClosests + BestConsensus on a data base indexed by IndexSequence); qg A n / qgn A k '
         '(q-gram slack of A against every word of length <= n, resp. every word at 1 or 2 single-base edits). Corpus: the failing instances found on the '
         'unrepaired code (tied shorter reference pruned; scan of a lineage level stopped by a long candidate; 1001 far candidates before a closer one, 1003 '
         'tied references), empty data base, identical references, three ties at distance 1, sequences shorter than 4 bases, identity exactly 0.5, distance = '
         'length of the reference. Random: a base sequence of 1..100 bases (alphabet acgt or ac), 1..41 references = variants of it or of one another (copy, '
         '0..5 substitutions spread 4 apart - fewest shared 4-mers per difference -, bases appended/removed at an end, random edits, prefix + long unrelated '
         'tail, both, unrelated), query = variant of the base or of a reference; taxonomy = 1..12 nodes rooted at taxid 1 (uniform, chain, star, deep), '
         'reference taxa at random depth; 1500 (quick) / 5000 per seed (thorough). Exhaustive: qg for every A of length <= 3 against every B of length <= 5 '
         '(quick); thorough, partitioned over the 8 seeds: every A of length <= 5 against every B of length <= 6 (plus samples of length 6 and 7; short words '
         'only test the bound at distance 0: the neighbourhood cases qgn on 8..28 bases are the ones where it is tight), and every query over {a,c} of length '
         '8..10 against one reference set over {a,c}. non-trivial = distinct well-formed case with a non-empty data base. Deepening round 2: ix prints the '
         "TEXT of the entries (taxid@name@rank, names of taxa divisible by 5 contain '@'); id1/id2 are recomputed by the model on the text of the indices with "
         'the verbatim loop; corpus + ~8% of the random cases are sl1/sl2; per random case 1/30 each: query shorter than 4 bases, a reference tripled '
         '(identical references with independent taxa), ambiguity codes in the query or a reference (IUPAC: outside the assumptions of the losslessness '
         'theorems; model and code are compared only when the real kernels behave as the model reads them; oracle failures ARE reported, with the signature '
         'suffix .iupac = known finding C15-iupac-prefilter), six one-substitution variants of one reference (ties on the shared count = unstable candidate '
         'order, and on the distance). Branch statistics: fc:best-at-threshold (a best reference sharing exactly |q|-3-4d 4-mers), fc:best-in-count-tie, '
         'fc:query<4, sl:hang/panic/fatal/assigned; ~9% of the random acgt cases are id3 (a third with the query equal to a reference; random cluster-head '
         'flags and counts); statistics id3:exact-hit / family-stage / no-family / identity<0.5 Deepening rounds 2b/3: fv1|fv2, iv, dv1|dv2, iv3 = the same '
         'real calls as fc, ix, id1|id2, id3 but the MODEL runs its verbatim transcriptions of the kernels (findClosestsV, indexSequenceV, identifyTextV, '
         'identify2V: FastLCSEGFScoreByte on the shared scratch buffer, D1Or0, byte comparison) and is handed NOTHING measured on the real kernels - only the '
         'candidate orders of the real unstable sort (a third of the random fc / ix / id / id3 cases, twins of the corpus cases, ambiguity codes included). '
         'Corpus: one query with a substitution / interior insertion / interior deletion variant, all tied at distance 1, in the 6 data-base orders (fc, fv, '
         'id, dv; seeded change C15-m3); random: ~1 case in 4 gets such a tied family shuffled into (or as) the data base (gen:tied-indel-family). New oracles '
         'on the real code: fc.bestmatch (bestId = largest identity among the brute-force best references, bestmatch = the FIRST of them in the scan order of '
         'the code reaching it; statistic fc:bestmatch-decided-by-scan-order), fc.not-deterministic (a second call on the same input gives the same answer), '
         'id1|id2.assigned-not-lca (EXACTNESS: identity >= 0.5 and minimal distance m below the length of every best reference: the assigned taxon IS the '
         'naive LCA of the taxa of all references within m of some best reference; statistic id*:exact-lca-checked), id*.assigned-not-root (identity < 0.5). '
         'WAVE 3 (concurrent use, harness/c15_conc.go): conc g r refs taxids taxonomy queries refs-to-index = one data base of 20..30 (quick; thorough 28..40) close '
         'variants of a base of 100..180 (150..260) bases with duplicates, clusters and a family tied at distance 1, 8 (10) queries; the result line = the '
         'answers of fc1 fc2 id1 id2 per query and ix per listed reference run ALONE (the model recomputes them with its verbatim kernels from the candidate '
         'orders only); the oracle repeats them from g = 8 (16) goroutines released together, 3 (4) rounds, sharing what the workers of obitag / obitag2 / '
         'obirefidx share (see level_note); 4 cases per quick run (about 1.3 s of harness + 1 s of model), 3 per thorough seed (150..260 bases, 28..40 references, 10 queries, 16 goroutines, 4 rounds); race conc ... (thorough, first '
         'seed): one case replayed through a go build -race build of the harness. Statistics conc:g8, conc:lazy-indices-built, conc:id1-below-root, '
         'conc:identify2-subcase, conc:slice-worker-run, race-replay:*.',
 'technique': 'Lean 4 theorems on transcriptions of the two pruned search loops over abstract candidate data (lengths, shared 4-mer counts, unbounded LCS '
              'answers), for any number of references and any sorted candidate order; the taxonomy part on top of the C14 lemmas; differential correspondence '
              'of the model (shared 4-mer counts recomputed from the sequences, LCS answers and candidate order taken from the real kernel / sort) with the '
              'real obitag, obitag2, obirefidx code; brute-force oracle (all-pairs unbounded FastLCSScore, naive LCA on the parent table) on the real code; '
              'the hypotheses of the theorems (q-gram bound, exactness of the bounded kernels) are checked on every pair met; (round 2) the selection loop of '
              'Identify/BestConsensus transcribed statement by statement on the text of the entries and proved equal to a closed form for all indices / '
              'distances / texts, then to the numeric layer on well-formed indices (refinement); (rounds 2b/3) refinement of the loops that CALL the verbatim '
              'kernels of C09 to the loops over abstract candidate data (C09 lemma files imported, not edited), so that no kernel hypothesis is left for acgt '
              'inputs; the two stages of obitag2.Identify; exact characterisation of the assigned taxon (consensus fold = exact LCA)',
 'level_text': 'Proved for all inputs on the Lean model of the REPAIRED loops: findClosests_lossless (any data base size, lengths, counts, distances; '
               'candidates scanned by non-increasing shared 4-mers and satisfying the q-gram bound: FindClosests of obitag and obitag2 returns the least LCS '
               'distance over ALL references and exactly the references at that distance, all ties, each once, = bruteClosests; bruteClosests_spec says what '
               'that is), findClosests_empty (empty data base: index-out-of-range panic), index_is_lca (well-formed taxonomy, same hypotheses on the '
               'candidates of the indexed reference, which is one of the references: IndexSequence succeeds and every recorded distance d is mapped to the '
               'taxon whose ancestors are exactly the common ancestors of the taxa of ALL references within d), index_lookup_is_lca (no distance is missing: '
               'for EVERY observed distance D below the length of the indexed sequence the entry found by the downward scan of Identify - largest recorded '
               'distance <= D - is the LCA of the taxa of all references within D), assigned_is_ancestor (whatever the candidate data: the taxon assigned by '
               'Identify / BestConsensus is an ancestor-or-self of the taxon of every reference returned by the search; identity < 0.5 gives the root) and '
               'assigned_is_ancestor_of_every_best (with findClosests_lossless: of every reference at minimal distance in the whole data base). Counterexample '
               'theorems for the unrepaired rules, by evaluation of the loops on the abstract data of the failing corpus cases: '
               'findClosests_unrepaired_loses_tie (D14), indexSequence_unrepaired_skips (D15). The q-gram lemma is PROVED (deepening round): qgram4 / '
               'qgram4_acgt / qgram4_acgt_ali (for sequences over a,c,g,t of at most 65538 letters: an alignment with s matches and l columns leaves at least '
               'l-3-4(l-s) shared 4-mers, by induction on the alignment), hence findClosests_lossless_acgt, index_is_lca_acgt, index_lookup_is_lca_acgt, '
               'assigned_is_ancestor_of_every_best_acgt hold WITHOUT the QGramBound hypothesis; slack_nonneg makes the harness qg/qgn check a theorem; '
               'qgram4_false_beyond_uint16: beyond 65538 letters the uint16 counters of Count4Mer wrap and the bound is false (boundary defect shared with C19 '
               'finding C19-count4-uint16). ROUND 2 (all for unbounded inputs, no new hypothesis): selection_loop_closed_form (the verbatim loop selLoop on '
               'ANY text index = selSpec with 3 or more units of fuel; never undecided: the Go loop ends within 3 outer iterations or repeats one for ever), '
               "entry_text_roundtrip (Split(..,'@')[0] + Atoi of Sprintf('%d@%s@%s') give the taxid back for any name/rank, '@' included), "
               'selection_wellformed (text layer + Atoi + Taxon = selectEntry on indices of well-formed entries, every distance, fallback and spin included), '
               'selection_spins_iff (the loop spins IFF no recorded distance is <= max(D,1001); otherwise an entry is selected), selection_never_falls_back '
               '(under the hypotheses of index_is_lca and a non-empty indexed sequence: the index built by IndexSequence holds the distance 0, hence for EVERY '
               'observed distance the first downward scan succeeds - upward scan and spin unreachable - and verbatim text loop = numeric closed form = that '
               'entry), identify_text_refines (Identify run with the verbatim loop on the text of the indices written by IndexSequence = identify of the '
               'earlier theorems, NO hypothesis: assigned_is_ancestor* transfer to the text-parsing transcription), index_keys_decrease_along_lineage '
               '(recorded distances strictly decreasing in insertion order = no map entry overwritten, all < length of the sequence, recorded taxa a sub-list '
               'of the root-first lineage), findClosests_iupac_counterexample (RECORDED VIOLATION: with an ambiguity code - query ktagatak, three identical '
               'references atagatat at LCS distance 1 - under the answers the real D1Or0 gives on that case the loop returns one of the three tied references '
               'although the candidates are sorted and satisfy the q-gram bound; findClosestsK d1or0 = findClosests for all inputs), exact_table_is_lca + '
               "identify2_exact (obitag2 ExactTaxid entry = LCA of the taxa of ALL references holding the query's bytes, first such reference, summed counts; "
               'Identify returns it), common4mer_sum_min and common4_is_multiset_intersection (Common4Mer = sum over the 256 codes of the min of the two '
               'counters = multiset intersection of the 4-mer codes below 65539 letters, symmetric). ROUND 2b/3 (Props/C15V, C15W, C15X; Lemmas/TagKernel, '
               'TagBest, TagStage, TagExact; Model/TagV, TagTV). VERBATIM KERNELS, no kernel hypothesis left (sequences over a c g t, |x|+|y| < 30000 for '
               'every pair compared, any data base size): d1or0_is_lcs_distance and fastLCS_call_is_as_read (the two kernel readings of Model/Tag.lean are '
               'THEOREMS about the verbatim D1Or0 / FastLCSEGFScoreByte on any scratch buffer, from C09 fastLCS_verbatim_refines / bandLCS_exact_unbounded / '
               'd1or0 lemmas), findClosests_verbatim_refines, indexSequence_verbatim_refines, identify_verbatim_refines (the loops calling the verbatim '
               'kernels never panic in a kernel and equal the abstract loops on candOf), findClosests_lossless_verbatim, index_is_lca_verbatim, '
               'assigned_is_ancestor_of_every_best_verbatim; identifyTextV_refines + assigned_is_ancestor_of_every_best_text_verbatim (verbatim kernels AND '
               'text indices AND verbatim selection loop at once = what dv1|dv2 run). TWO STAGES of obitag2.Identify: identify2_last_search_is_ancestor (root, '
               'or ancestor-or-self of every reference returned by the search run last), identify2_family_stage_every_best, '
               'identify2_every_best_of_last_search (both stages: every member of the list searched LAST at minimal distance within that list), '
               'identify2_every_best_verbatim (the same for identify2V: everything verbatim, no kernel / q-gram hypothesis; = what iv3 runs), '
               'identify2_two_stage_is_heuristic (what is NOT claimed, as a counterexample theorem: a reference closer than every cluster head in a cluster '
               'whose head is farther is never looked at - design of obitag2, no losslessness is claimed for the two-stage search as a whole). INDEX: '
               'index_entry_is_level_minimum(+_verbatim) (every recorded distance is reached by, and minimal among, the references of its own lineage level). '
               'BESTID / BESTMATCH: bestmatch_is_first_longest (any order, coherent data: bestmatch = FIRST reference in scan order among the best ones of '
               'longest alignment = largest identity, bestId its (lcs, alilength)), bestmatch_verbatim (acgt: exactly one such reference for a duplicate-free '
               'order - bestmatch is a function of the candidate order; an example shows two sorted orders reporting different bestmatch, same distance / best '
               'set / bestId). EXACTNESS (round 3): assigned_taxon_is_exact_lca(+_verbatim) (identity >= 0.5, minimal distance m below the length of every '
               'best reference: the ancestors of the assigned taxon are EXACTLY the common ancestors of the taxa of all references within m of some best '
               'reference - the root no longer satisfies the statement trivially), assigned_taxid_order_independent (the characterisation mentions no order: '
               'two runs scanning tied candidates in different orders assign the same taxid).',
 'level_note': 'Trusted: Lean kernel; the transcriptions Model/Tag.lean and Model/TagSel.lean; Model/Kmer.lean (Count4Mer, C19) and Model/Tax.lean + '
               'Lemmas/Tax.lean (C14). The abstract loops of Model/Tag.lean READ the kernels (FastLCSScore(.., e) = the unbounded answer when alilength-lcs <= '
               'e and -1 otherwise, D1Or0 = 0/1 exactly when the unbounded distance is 0/1); since round 2b these readings are theorems about the verbatim '
               'kernels of C09 (Model/Lcs.lean, LcsBuf.lean; Lemmas/TagKernel.lean) for sequences over a c g t with |x|+|y| < 30000 (beyond, the packed 16-bit '
               'cells of the kernel mean nothing: C09), and the loops of Model/TagV.lean call those kernels; the harness still checks the readings on every '
               'pair met (hyp.bounded-lcs, hyp.d1or0) and, in the fv/iv/dv/iv3 operations, hands the model no kernel answer at all. The candidate order '
               '(unstable sort.Sort) is a parameter; the driver rejects (bad-data) an order that is not a permutation sorted by non-increasing count. Floats: '
               'bestId is the pair (lcs, alilength); identity >= 0.5 is read 2*lcs >= alilength. MODEL REPAIRED in round 2 (read from the code, then confirmed '
               'by the sl cases): after a failed upward scan the second outer iteration scans downwards from d = 1001, so the key 1001 IS found (selectEntry '
               "had 'hang' there). bestId / bestmatch are now theorems (bestmatch_is_first_longest, bestmatch_verbatim) and an oracle (fc.bestmatch). Still "
               'tied by correspondence only: the obitag_match_count / weight fields; the map[string]interface{} / map[string]string forms of the '
               'obitag_ref_index attribute (indices read back from a file) and negative keys are outside the model (keys are naturals). An LCA error inside '
               'the consensus fold (different roots) is not modelled faithfully (Go continues with a nil taxon; ill-formed taxonomies are outside the '
               "theorems). The exact-match table (exactEntry) and the two stages of obitag2.Identify (identify2: cluster heads, TaxonAtRank('family'), family "
               'slice, reffamidx_in) are now TIED by the id3 cases (real CLIAssignTaxonomy through its iterator; no hook needed); theorems on them: '
               'exact_table_is_lca, identify2_exact, and since round 2b/3 the ancestor statement for BOTH stages (identify2_every_best_of_last_search, '
               'identify2_every_best_verbatim; also checked by the id3/iv3 oracle); no losslessness is claimed for the two-stage search as a whole (by design '
               'it only looks at cluster heads, then at one family). Not covered: the cluster construction of obireffamidx, geometric indexing, entries for distances >= the length of the indexed sequence (never recorded: d < '
               'old with old = lseq; an observed distance equal to that length - identity exactly 0.5 - reads the largest recorded key). IUPAC ambiguity '
               'codes: the full losslessness theorems (findClosests_lossless*, index_is_lca*, assigned_is_ancestor_of_every_best*) are proved for inputs over '
               'a c g t; with an ambiguity code in the query or a reference QGramBound and the kernel readings are false (Encode4mer counts the code as a, '
               'D1Or0 compares bytes, FastLCSScore matches codes) and the property - which quantifies over every query and data base - is VIOLATED by the '
               'code: recorded as open known finding C15-iupac-prefilter (harness signatures *.iupac; corpus case fc1 ktagatak atagatat x3; model-side '
               'counterexample findClosests_iupac_counterexample with D1Or0 as a parameter of findClosestsK). IUPAC cases on which the kernels do not behave '
               'as the model reads them are not compared with the model (printed as iupac-kernel-hyp ..., bad-op on both sides), their oracle failures are '
               'reported. ROUND 3 NOTES. Hypotheses that remain in the verbatim theorems: inputs over a c g t; |x|+|y| < 30000 for every pair compared; the '
               'query candidates scanned by non-increasing shared count (SortedByCw: what IntOrder + Reverse produce - the sort itself is not modelled, its '
               'output is checked by the driver on every case: bad-data otherwise); well-formed taxonomy. PARTIAL: assigned_taxon_is_exact_lca needs the '
               'minimal distance m to be below the length of every best reference (indices record no distance >= that length; with identity >= 0.5 this only '
               'excludes identity exactly 0.5 against a reference no longer than m) and sorted candidate orders inside IndexSequence too; exactness is not '
               'stated for the two-stage obitag2.Identify (only the ancestor statement is). DETERMINISM OBSERVATION (C05 territory, no defect found): the '
               'candidate order comes from the unstable sort.Sort, which has no random state (pdqsort seeded by the length): for one binary and one input the '
               'order - hence obitag_bestmatch - is the same in every run (oracle fc.not-deterministic: two calls compared on every fc case; the references '
               'are loaded in file order: ReadFasta/ReadFastq/ReadEMBL/ReadGenbank end with SortBatches, Load appends in arrival order). But obitag_bestmatch '
               'among references tied on distance, identity AND shared 4-mer count is decided by the order in which that sort happens to leave equal counts '
               '(fc:bestmatch-decided-by-scan-order: ~160 of ~500 fc cases of a quick run): it may change with the Go release or with the order of the '
               'references in the data-base file; the assigned taxid, the distance, bestId and the set of best references do NOT depend on it '
               '(assigned_taxid_order_independent, findClosests_lossless, bestmatch_verbatim). The worker goroutines of CLIAssignTaxonomy each call Identify '
               'on their own sequences: no shared mutable state in FindClosests (the scratch matrix is local), except the lazily built indices of obitag (covered '
               'since wave 3 by the conc operation, oracle only). '
               'Concurrency: (read from the commands) obitag.CLIAssignTaxonomy = MakeIWorker(IdentifySeqWorker(...), nworkers): ONE closure run by all the '
               'workers, each on its own query records; shared: the reference slice and the annotations of the references (obitag_ref_index built lazily by '
               'the first worker that needs it - IndexSequence called inside Identify - and published by SetOBITagRefIndex under the annotation lock of the '
               'reference; two workers may build the same index twice, both maps are equal), the 4-mer tables of the references, the TaxonSet map and the '
               'taxonomy (read only); per call: LCS scratch matrix, 4-mer table of the query, cw, candidate order. obitag2.CLIAssignTaxonomy = '
               'MakeIWorker(IdentifySeqWorker(db)): FindClosests + BestConsensus (two stages) on the shared read-only Obitag2RefDB (cluster heads, families, '
               'exact table, indices built beforehand). obirefidx.IndexReferenceDB / IndexFamilyDB / MakeIndexingSliceWorker: nworkers goroutines call '
               'IndexSequence(i, ...) for different i on the shared references, &refcounts, &taxa, taxonomy; per call: matrix, lca, cw, ow, path, mindiff. '
               'The conc operation runs exactly that: fc1, fc2, id2, ix on one data base indexed beforehand; id1 through ONE obitag.IdentifySeqWorker closure over '
               'one data base WITHOUT indices, new at every round (the goroutines build the indices lazily while the others search; after the round the '
               'indices left on the references must be the ones IndexSequence builds alone: conc.lazy-index); the two-stage obitag2.Identify through ONE '
               'obitag2.IdentifySeqWorker closure over a hand-laid Obitag2RefDB (oracle only, not printed: its sequential behaviour is tied by id3 / iv3; queries '
               'whose family stage dereferences nil alone are left out); then two obirefidx.MakeIndexingSliceWorker workers at once on two copies of the data '
               'base (their own goroutines; run only when everything before agreed, a panic there cannot be recovered). Every goroutine has its own query '
               'records; the slice returned by a worker closure is read right after the call (3 runtime.Gosched later), as SeqToSliceWorker does. Failures: '
               'conc.differs.<fc1|fc2|id1|id2|ix|identify2|slice-worker>, conc.lazy-index, conc.panic, conc.race (thorough: a report of the Go race detector whose '
               'access stack passes through obitag, obitag2, obirefidx, obikmer, obialign or obitax). NO new theorem: the model side of conc is the existing '
               'sequential model (findClosestsV, indexSequenceV, identifyText = the unfolded body of identifyTextV with each index computed once); that '
               'concurrent calls answer like sequential ones is an ORACLE on the real code (schedules actually met by g goroutines on this machine), not a proof; '
               'the Go memory model / absence of data races is not modelled. Not exercised concurrently: IndexReferenceDB and IndexFamilyDB themselves (they load '
               'the taxonomy from the command line; their worker bodies are IndexSequence + SetAttribute, run here), the CLIAssignTaxonomy set-up code (sequential).',
 'modelled': 'pkg/obikmer counting.go (Common4Mer; Count4Mer/Encode4mer from C19), pkg/obitools/obitag/obitag.go (FindClosests, Identify), '
             'pkg/obitools/obitag2/obitag.go (FindClosests, BestConsensus), pkg/obitools/obirefidx/obirefidx.go (IndexSequence; famlilyindexing.go calls the '
             'same function), pkg/obitax/lca.go (TaxNode.LCA, from C14) - as repaired by notes/patches/C15-findclosests-wordmin-best-length, '
             'C15-obitag2-candidate-cap, C15-indexsequence-break-threshold; round 2: the selection loop of obitag.Identify / obitag2.BestConsensus verbatim on '
             "the text of the entries (Model/TagSel.lean: selLoop, selectText, identifyText), fmt.Sprintf('%d@%s@%s') / strings.Split / strconv.Atoi on "
             'entries, log.Fatalf of BestConsensus on a missing index; obitag2.CLIAssignTaxonomy exact-match table and obitag2.Identify two stages '
             '(exactEntry, identify2 - tied by id3); findClosestsK: FindClosests with the answers of D1Or0 as a parameter; rounds 2b/3: Model/TagV.lean '
             '(fcLoopV, findClosestsV, ixInnerV/ixOuterV, indexSequenceV, identifyV: the same loops calling the verbatim FastLCSEGFScoreByte with the scratch '
             'buffer threaded through the scan, D1Or0, byte comparison), Model/TagTV.lean (identifyTextV, stageV, identify2V: everything verbatim at once, '
             'both stages of obitag2.Identify)',
 'assumptions': ['QGramBound: a candidate within d differences of the scanned sequence shares at least max(lengths)-3-4d 4-mers with it (hypothesis of '
                 'findClosests_lossless and index_is_lca; PROVED for words over a c g t of at most 65538 letters - qgram4_acgt: the *_acgt and *_verbatim '
                 'theorems do not take it as a hypothesis; FALSE with IUPAC ambiguity codes, which Encode4mer counts as a while FastLCSScore matches them: '
                 'sequences are assumed to be over a c g t in the theorems; the violation with ambiguity codes is the open known finding C15-iupac-prefilter)',
                 'the bounded kernels never return a wrong answer at or below their bound: hypothesis of the ABSTRACT theorems only (kernel readings of '
                 'Model/Tag.lean); a theorem about the verbatim kernels for acgt inputs with |x|+|y| < 30000 (fastLCS_call_is_as_read, d1or0_is_lcs_distance), '
                 'so the *_verbatim theorems do not take it',
                 'the candidate list is a permutation of the references sorted by non-increasing shared 4-mer count (what obiutils.IntOrder + Reverse produce)',
                 'well-formed taxonomy rooted at taxid 1 containing the taxon of every reference (obitag discards the others when loading)',
                 'the indexed sequence is one of the references (distance 0 to itself); lengths below 2^26',
                 'selection loop: index keys are natural numbers (IndexSequence records alilength-lcs >= 0), entry texts are ASCII in the harness; a spin of '
                 'the Go loop is observed as > 64 repetitions of its debug line (the model proves the outcome is decided within 3 iterations)',
                 'verbatim theorems: |x|+|y|+1 <= 30000 for every pair handed to FastLCSEGFScoreByte (C09: packed 16-bit fields), sequences over a c g t',
                 'assigned_taxon_is_exact_lca: minimal distance below the length of every best reference; every IndexSequence scan sorted by non-increasing '
                 'shared count'],
 'trusted_base': LEAN_TB + ['extract/ (__single_base_code__ table of Encode4mer)',
 'obialign.FastLCSScore without bound as the definition of the LCS distance (C09 proves it is the (LCS, shortest alignment) pair)',
 'naive oracles of the harness (ancestor sets on the parent table, multiset intersection of 4-letter windows)',
 'IEEE-754 double division of integers below 2^26 is injective on reduced fractions (bestId comparisons read on integer pairs)',
 'Model/TagV.lean, Model/TagTV.lean as transcriptions of the call sites of the kernels (the kernels themselves: C09 models)']}

# ---- round 4: the set-up code around the searches and its error paths (Model/TagSetup.lean, Lemmas/TagSetup.lean,
# Props/C15S.lean, harness/c15_setup.go)
CFG['lean_modules'].append('ObiVerif.Props.C15S')
CFG['rule'] += (
    ' ROUND 4 (set-up code): cl1 Q1,.. refs taxids taxonomy aliases (the REAL obitag.CLIAssignTaxonomy on a data base whose records may carry a '
    'taxid absent from the taxonomy - first, middle, several consecutive, last, every record -, no taxid attribute (0), an alias / merged taxid, an '
    'alias of an unknown taxon (refused), duplicate sequences, sequences shorter than 4 bases, an empty data base before or after dropping; every '
    'query pushed through the returned iterator; the model (cliAssign1) decides itself which records are kept with the verbatim in-place compaction '
    'loop, builds references / refcounts / taxa and runs Identify with every kernel verbatim READING THE 4-MER TABLES FROM THE ARRAY THE SET-UP BUILT; '
    'only the candidate orders over the kept list are data; a crash inside a worker goroutine - empty kept list, nil taxon left in the map taxa when '
    'the LAST record is dropped and IndexSequence is needed - is predicted with the real obitag.Identify on arrays built by the harness and answered '
    'panic without pushing the queries, the set-up alone being still run and its in-place compaction checked); rx refs taxids taxonomy aliases (the '
    'REAL obirefidx.IndexReferenceDB, taxonomy installed through obifind.VerifSetFindOptions: every kept record with its index); s2 (set-up of '
    'obitag2.CLIAssignTaxonomy with an empty query iterator: ok | panic); fw refs taxids taxonomy aliases i:j,.. (the REAL '
    'obirefidx.MakeIndexingSliceWorker on a shuffled subset of the data base, the tables of the whole data base fetched through the id attribute j: '
    'aligned, deliberately misaligned - the model reads the tables the code reads -, attribute missing (error), out of range (panic), unknown taxid '
    '(nil taxon: panic predicted, observed on the real IndexSequence called directly)). Corpus: the data base and the 8 queries of seeded/C15-m5 with '
    'the orphan unknown / known / without taxid / alias, the unknown taxid first, three consecutive, scattered, last, everywhere. Oracle: exhaustive '
    'search over the kept references (unbounded FastLCSScore): obitag_match_count, obitag_bestmatch, obitag_bestid, ancestor-or-self, exact naive LCA; '
    'index statement on every index written (lazily by Identify, by IndexReferenceDB, by the slice worker when aligned); kept list = records with a '
    'known taxid in file order (references compacted in place; output of IndexReferenceDB).')
CFG['technique'] += (
    ' Round 4: the set-up loops are transcribed as index loops on lists used as arrays (List.set at the compaction index) and proved equal to '
    'List.filter by a loop invariant over the prefix length; the searches are re-stated with the 4-mer tables as a separate array and proved equal '
    'to the round-2/3 searches under the alignment invariant, so that every lossless theorem applies to the kept list.')
CFG['level_text'] += (
    ' ROUND 4 (Props/C15S.lean, all for unbounded inputs, every subset of dropped records at every position): setup_alignment_invariant (after the '
    'verbatim set-up loop of obitag.CLIAssignTaxonomy AND of obirefidx.IndexReferenceDB: references = the records with a known taxid in file order, '
    'refcounts[i] = Count4Mer(references[i]) and taxa[i] = taxon of references[i] for every kept position), nil_taxon_iff_last_dropped (the map taxa '
    'of obitag holds a nil node iff the last record of the file is dropped; never for IndexReferenceDB), cli_assign_is_search_on_kept (when the last '
    'record is kept, what CLIAssignTaxonomy + Identify answer for a query = identifyTextV on exactly the kept references, in file order), '
    'cli_assign_lossless (hence, with the hypotheses of assigned_is_ancestor_of_every_best_text_verbatim on the kept list: the assigned taxon is an '
    'ancestor-or-self of the taxon of EVERY kept reference at minimal LCS distance), cli_assign_trailing_unknown_panics (last record dropped: the '
    'search is still the search on the kept list, but as soon as an index has to be built - identity >= 0.5 - the outcome is the log.Panicf of '
    'LCA(nil)), refidx_index_is_search_on_kept (the index IndexReferenceDB writes on kept record b = indexSequenceV on the kept list).')
CFG['level_note'] += (
    ' ROUND 4. Tied by correspondence only: obitag2.CLIAssignTaxonomy with unknown taxids (s2: the set-up panics iff two records with the same bytes '
    'include one with an unknown taxid; a single such record leaves a NIL taxon in the exact-match table, dereferenced by Identify on an exact hit - '
    'a crash, not run), MakeIndexingSliceWorker (fw; Lemmas/TagSetup.lean sliceWorker_aligned proves the alignment through the id attribute). '
    'OBSERVATIONS on the unchanged code (crashes, not mis-assignments): (a) obitag: a data base whose LAST record has a taxid unknown to the taxonomy '
    'leaves taxa[j] = nil in the map; the first query whose best reference needs IndexSequence (identity >= 0.5) ends the command in '
    'log.Panicf("Try to get LCA of nil taxon") - seen on the real Identify in every such case (stat cl1:nil-taxon-after-last-kept); (b) a data base '
    'empty after dropping: index out of range in FindClosests; (c) obirefidx.IndexFamilyDB / MakeIndexingSliceWorker do not drop anything: an '
    'unknown taxid reaches IndexSequence as a nil taxon (same panic, inside a goroutine). No data base was found on which obitag, obitag2 or '
    'obirefidx silently mis-assign because of a dropped record. NOT covered: IndexFamilyDB as a whole (clustering by float identity threshold, '
    'chunking on disk order) - only its slice worker and the id-attribute indirection; the prediction of a crash uses arrays built by the harness '
    '(a repair of (a) in the code would be answered panic by both sides without the queries being pushed until the model is updated: the set-up '
    'alone is run and its compaction checked).')
CFG['modelled'] += (
    '; round 4: pkg/obitools/obitag/obitag.go (CLIAssignTaxonomy set-up loop, IdentifySeqWorker), pkg/obitools/obirefidx/obirefidx.go '
    '(IndexReferenceDB: taxid filter, compaction, refcounts), pkg/obitools/obirefidx/famlilyindexing.go (MakeIndexingSliceWorker: tables through the id '
    'slot, taxa), pkg/obitools/obitag2/obitag.go (CLIAssignTaxonomy: exact-match table on unknown taxids), obiseq Taxid() default, obitax Taxon() alias')
CFG['assumptions'] += [
    'round 4: taxonomy well formed and rooted at 1; aliases point to nodes (AddNewAlias refuses the others); sequences over a c g t; one batch of '
    'queries (sequential in one worker); the result of IndexReferenceDB is compared as a set of records (batch arrival order is not part of C15)']
CFG['trusted_base'] += [
    'Model/TagSetup.lean as a transcription of the set-up loops (range over a slice being compacted reads element i at iteration i; '
    'obitax.TaxonSet is a Go map: a failed Taxon() stores a nil node under the key)',
    'harness prediction of crashes inside worker goroutines (real obitag.Identify / IndexSequence on arrays built by the harness)']

# ---- glue pass: references that ALREADY carry an obitag_ref_index (Model/TagStored.lean, Lemmas/TagStored.lean,
# Props/C15G.lean, harness/c15_stored.go)
CFG['lean_modules'].append('ObiVerif.Props.C15G')
CFG['rule'] += (
    ' GLUE PASS (stored indices): rx / cl1 with a sixth / seventh word ix=I1;I2;.. = the obitag_ref_index attribute each record of the FILE already '
    'carries when the data base is loaded (format of sl1; - = no attribute, _ = empty map), set with the three Go types OBITagRefIndex() accepts '
    '(map[int]string, map[string]interface{}, map[string]string, chosen per record). rx: the REAL obirefidx.IndexReferenceDB must write, for every '
    'kept record, the index IndexSequence builds on the kept list - the model (refidxOutI) never looks at the stored attribute, the index statement '
    'is checked on every index written. cl1: the REAL obitag.CLIAssignTaxonomy; the model (cliAssign1I) hands a stored index as is to the verbatim '
    'selection loop and builds a missing one on the kept list; hang (selection loop repeating itself on a trusted map: empty, far keys) and panic '
    '(taxid foreign to the taxonomy) are predicted with the real obitag.Identify on harness-built arrays carrying the stored maps. The assignment '
    'oracle (exact LCA / ancestor) is applied iff every stored index of a kept record obeys the index statement on the kept list of this very data '
    'base (the hypothesis StoredFresh of cli_assign_stored_lossless_partial, decided by brute force); otherwise the over-specific assignment is '
    'counted (cl1:stale-stored-index:*), not reported: the search part (match count, bestmatch, bestid) is still checked. Generator (stale indices '
    'built by the real IndexSequence on the list they pretend to come from): two data bases indexed separately then concatenated (split / '
    'interleaved: every record indexed, every index stale - the demo of seeded/C15-m6 is in the corpus), indexed then filtered, indexed then '
    'extended, valid indices on all / some records (control), per record: none / empty map / built on a sub-list / index of another record / keys '
    'shifted / keys 999..1002, 2000 / built alone / one entry / taxid foreign to the taxonomy; records with an unknown taxid carry an attribute too '
    '(first, between, last: the attribute of a kept record must be its own). 23 corpus + 70 (quick) / 130 per seed (thorough) random cases.')
CFG['technique'] += (
    ' Glue pass: a record = (bytes, taxid) + its stored attribute; the commands on such records are composed from the round-4 set-up theorems '
    '(refidxIndex_eq, cliAssign1_eq): no new loop, the statement is about which index reaches the selection loop.')
CFG['level_text'] += (
    ' GLUE PASS (Props/C15G.lean, unbounded inputs, any stored attributes): refidx_recomputes_every_index (whatever obitag_ref_index the records '
    'carry at input, the record IndexReferenceDB writes for the b-th record with a known taxid is that record with indexSequenceV on the list of ALL '
    'kept records), refidx_output_ignores_stored_index (two files with the same records and different stored indices give the same output), '
    'cli_assign_trusts_stored_index (the EXACT trust rule of obitag, last record known: verbatim search on the kept list; for a best reference a '
    'stored index is used as is, a missing one is built on the kept list), cli_assign_stored_same_list (StoredFresh - every stored index is the text '
    'of the index IndexSequence builds on the kept list of this very file - : same answer as without attributes), '
    'cli_assign_stored_lossless_partial (PARTIAL: under StoredFresh and the hypotheses of cli_assign_lossless the assigned taxon is an '
    'ancestor-or-self of the taxon of every kept reference at minimal distance), cli_assign_stale_index_overspecific (the hypothesis cannot be '
    'dropped: data base [a (taxon 4), x (taxon 3)] at distance 1 of each other, a carrying the index built on [a] alone: the worker assigns 4 to a '
    'query at distance 1 of a, the answer without stored index - or after obirefidx - is the root).')
CFG['level_note'] += (
    ' GLUE PASS. Glue: (1) obirefidx: main.go -> CLIReadBioSequences -> IndexReferenceDB = Load, taxonomy, taxid filter + compaction [modelled+proved, '
    'round 4], stored obitag_ref_index of the input NEVER read, every kept record re-indexed and the attribute overwritten on a copy [modelled+proved: '
    'refidx_recomputes_every_index; tied: rx ix=..], 10-record work units over nworkers goroutines, Rebatch [tied: set of records compared, order not '
    'part of C15], writer [not covered here: C02/C04]. (2) obitag: main.go -> CLIRefDB -> CLIAssignTaxonomy set-up [modelled+proved, round 4] -> '
    'IdentifySeqWorker -> Identify: FindClosests [proved], per best reference idx := OBITagRefIndex(); nil -> IndexSequence on the arrays of the '
    'set-up, else TRUSTED [modelled+proved: cli_assign_trusts_stored_index; lossless only under StoredFresh; tied: cl1 ix=..], selection loop '
    '[proved, round 2], consensus [proved]; options -R / --save-db / geometric mode (CLIGeometricMode, GeomIdentify) [not covered]. The conversion of '
    'the map[string]interface{} / map[string]string forms by OBITagRefIndex (Atoi of the keys, InterfaceToString) is exercised by the harness '
    '(all three forms), not modelled (non-numeric keys panic: not generated). That the attribute of a kept record is the one it carried in the file is '
    'read from references[j] = seq (pointers move), not from a transcription of the compaction on annotated records (keptI = filter; keptI_plain '
    'ties it to the round-4 kept list); tied by the cases whose dropped records carry attributes. OBSERVATION (design, not a C15 defect of the '
    'code as it is): obitag cannot tell a stale index from a valid one - a data base made by concatenating / filtering indexed files must go '
    'through obirefidx again, which does recompute (refidx_recomputes_every_index); an empty stored map makes obitag spin for ever on the first '
    'query that selects the reference (selection_spins_iff).')
CFG['modelled'] += (
    '; glue pass: pkg/obitools/obirefidx/obirefidx.go (IndexReferenceDB: Copy + SetOBITagRefIndex on every kept record whatever it carried), '
    'pkg/obitools/obitag/obitag.go (Identify: idx := best.OBITagRefIndex(); if idx == nil {IndexSequence}), pkg/obiseq/attributes.go '
    '(OBITagRefIndex: nil iff the attribute is absent)')
CFG['assumptions'] += [
    'glue pass: stored indices are maps with natural keys and ASCII texts; cli_assign_stored_lossless_partial assumes StoredFresh (every stored '
    'index = the index IndexSequence builds on the kept list of the same file, with the candidate orders of the case)']
CFG['trusted_base'] += [
    'Model/TagStored.lean: the annotations of a record travel with it through the in-place compaction (references[j] = seq moves a pointer)']
