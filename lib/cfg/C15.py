from common import LEAN_TB

CFG = {'lean_modules': ['ObiVerif.Props.C15'],
 'gen': True,
 'thorough_seeds': 8,
 'rule': 'cases = cw A B (shared 4-mers of two sequences); fc1|fc2 Q refs (obitag / obitag2 FindClosests); ix s refs taxids taxonomy (obirefidx.IndexSequence '
         'of reference s); id1|id2 Q refs taxids taxonomy (obitag.Identify; obitag2.FindClosests + BestConsensus on a data base indexed by IndexSequence); qg '
         'A n / qgn A k (q-gram slack of A against every word of length <= n, resp. every word at 1 or 2 single-base edits). Corpus: the failing instances '
         'found on the unrepaired code (tied shorter reference pruned; scan of a lineage level stopped by a long candidate; 1001 far candidates before a '
         'closer one, 1003 tied references), empty data base, identical references, three ties at distance 1, sequences shorter than 4 bases, identity exactly '
         '0.5, distance = length of the reference. Random: a base sequence of 1..100 bases (alphabet acgt or ac), 1..41 references = variants of it or of one '
         'another (copy, 0..5 substitutions spread 4 apart - fewest shared 4-mers per difference -, bases appended/removed at an end, random edits, prefix + '
         'long unrelated tail, both, unrelated), query = variant of the base or of a reference; taxonomy = 1..12 nodes rooted at taxid 1 (uniform, chain, '
         'star, deep), reference taxa at random depth; 1500 (quick) / 5000 per seed (thorough). Exhaustive: qg for every A of length <= 3 against every B of '
         'length <= 5 (quick); thorough, partitioned over the 8 seeds: every A of length <= 5 against every B of length <= 6 (plus samples of length 6 and 7; '
         'short words only test the bound at distance 0: the neighbourhood cases qgn on 8..28 bases are the ones where it is tight), and every query over '
         '{a,c} of length 8..10 against one reference set over {a,c}. non-trivial = distinct well-formed case with a non-empty data base',
 'technique': 'Lean 4 theorems on transcriptions of the two pruned search loops over abstract candidate data (lengths, shared 4-mer counts, unbounded LCS '
              'answers), for any number of references and any sorted candidate order; the taxonomy part on top of the C14 lemmas; differential correspondence '
              'of the model (shared 4-mer counts recomputed from the sequences, LCS answers and candidate order taken from the real kernel / sort) with the '
              'real obitag, obitag2, obirefidx code; brute-force oracle (all-pairs unbounded FastLCSScore, naive LCA on the parent table) on the real code; '
              'the hypotheses of the theorems (q-gram bound, exactness of the bounded kernels) are checked on every pair met',
 'level_text': 'Proved for all inputs on the Lean model of the REPAIRED loops: findClosests_lossless (any data base size, lengths, counts, distances; '
               'candidates scanned by non-increasing shared 4-mers and satisfying the q-gram bound: FindClosests of obitag and obitag2 returns the least LCS '
               'distance over ALL references and exactly the references at that distance, all ties, each once, = bruteClosests; bruteClosests_spec says what '
               'that is), findClosests_empty (empty data base: index-out-of-range panic), index_is_lca (well-formed taxonomy, same hypotheses on the '
               'candidates of the indexed reference, which is one of the references: IndexSequence succeeds and every recorded distance d is mapped to the '
               'taxon whose ancestors are exactly the common ancestors of the taxa of ALL references within d), index_lookup_is_lca (no distance is missing: '
               'for EVERY observed distance D below the length of the indexed sequence the entry found by the downward scan of Identify - largest recorded '
               'distance <= D - is the LCA of the taxa of all references within D), assigned_is_ancestor (whatever the candidate data: the taxon assigned by '
               'Identify / BestConsensus is an ancestor-or-self of the taxon of every reference returned by the search; identity < 0.5 gives the root) and '
               'assigned_is_ancestor_of_every_best (with findClosests_lossless: of every reference at minimal distance in the whole data base). Counterexample '
               'theorems for the unrepaired rules, by evaluation of the loops on the abstract data of the failing corpus cases: '
               'findClosests_unrepaired_loses_tie (D14), indexSequence_unrepaired_skips (D15). The q-gram lemma is PROVED (deepening round): qgram4 / '
               'qgram4_acgt / qgram4_acgt_ali (for sequences over a,c,g,t of at most 65538 letters: an alignment with s matches and l columns leaves at least '
               'l-3-4(l-s) shared 4-mers, by induction on the alignment), hence findClosests_lossless_acgt, index_is_lca_acgt, index_lookup_is_lca_acgt, '
               'assigned_is_ancestor_of_every_best_acgt hold WITHOUT the QGramBound hypothesis; slack_nonneg makes the harness qg/qgn check a theorem; '
               'qgram4_false_beyond_uint16: beyond 65538 letters the uint16 counters of Count4Mer wrap and the bound is false (boundary defect shared with C19 '
               'finding C19-count4-uint16).',
 'level_note': 'Trusted: Lean kernel; the transcription Model/Tag.lean; Model/Kmer.lean (Count4Mer, C19) and Model/Tax.lean + Lemmas/Tax.lean (C14). The LCS '
               'kernels are not modelled here (C09): the loops are read with FastLCSScore(.., e) = the unbounded answer when alilength-lcs <= e and -1 '
               'otherwise, D1Or0 = 0/1 exactly when the unbounded distance is 0/1. The real banded kernel also answers some pairs ABOVE the bound (always with '
               'alilength-lcs > e; ~60 answers per case in the quick run): both loops ignore such an answer exactly like -1, and the harness checks on every '
               'pair, for the bounds 2..5 and d-2..d+3, that no answer at or below the bound is ever wrong (hyp.bounded-lcs, hyp.d1or0). The candidate order '
               '(unstable sort.Sort) is a parameter; the driver rejects (bad-data) an order that is not a permutation sorted by non-increasing count. Floats: '
               'bestId is kept as the pair (lcs, alilength); identity >= 0.5 is read 2*lcs >= alilength. Tied by correspondence only: bestId / bestmatch, the '
               'fallback branches of the selection loop of Identify (no recorded distance <= the observed one: upward scan to 1000, else the Go loop spins = '
               'outcome hang of the model; never reached on an index holding the distance 0), the text format taxid@name@rank of the entries, Common4Mer. Not '
               'covered: the second (family) stage and the exact-match table of obitag2.Identify, the cluster construction of obireffamidx, geometric '
               'indexing, the lazy construction of indices shared between workers (concurrency), entries for distances >= the length of the indexed sequence '
               '(never recorded by the code: d < old with old = lseq).',
 'trusted_base': LEAN_TB + ['extract/ (__single_base_code__ table of Encode4mer)',
 'obialign.FastLCSScore without bound as the definition of the LCS distance (C09 proves it is the (LCS, shortest alignment) pair)',
 'naive oracles of the harness (ancestor sets on the parent table, multiset intersection of 4-letter windows)',
 'IEEE-754 double division of integers below 2^26 is injective on reduced fractions (bestId comparisons read on integer pairs)'],
 'modelled': 'pkg/obikmer counting.go (Common4Mer; Count4Mer/Encode4mer from C19), pkg/obitools/obitag/obitag.go (FindClosests, Identify), '
             'pkg/obitools/obitag2/obitag.go (FindClosests, BestConsensus), pkg/obitools/obirefidx/obirefidx.go (IndexSequence; famlilyindexing.go calls the '
             'same function), pkg/obitax/lca.go (TaxNode.LCA, from C14) - as repaired by notes/patches/C15-findclosests-wordmin-best-length, '
             'C15-obitag2-candidate-cap, C15-indexsequence-break-threshold',
 'assumptions': ['QGramBound: a candidate within d differences of the scanned sequence shares at least max(lengths)-3-4d 4-mers with it (hypothesis of '
                 'findClosests_lossless and index_is_lca; true for words over a c g t by the q-gram lemma, not proved here; FALSE with IUPAC ambiguity codes, '
                 'which Encode4mer counts as a while FastLCSScore matches them: sequences are assumed to be over a c g t)',
                 'the bounded kernels never return a wrong answer at or below their bound (C09: fastLCS_sound + correspondence); answers above the bound are '
                 'harmless',
                 'the candidate list is a permutation of the references sorted by non-increasing shared 4-mer count (what obiutils.IntOrder + Reverse produce)',
                 'well-formed taxonomy rooted at taxid 1 containing the taxon of every reference (obitag discards the others when loading)',
                 'the indexed sequence is one of the references (distance 0 to itself); lengths below 2^26']}
