from common import LEAN_TB

CFG = {'lean_modules': ['ObiVerif.Props.C15'],
 'gen': True,
 'thorough_seeds': 8,
 'rule': 'cases = id3 Q refs taxids taxonomy heads counts (obitag2.CLIAssignTaxonomy on a data base prepared with the real SetFamily / IndexSequence as '
         'obireffamidx does, the query pushed through the returned iterator: exact-match table, two-stage Identify; a case in which Identify would dereference '
         'nil inside a worker goroutine - no cluster head, family of the consensus without sequences - is predicted with the real public pieces and answered '
         'panic without running the pipeline, counted id3:predicted-panic); sl1|sl2 Q refs taxids taxonomy given-indices (obitag.Identify / obitag2 '
         'FindClosests+BestConsensus on references carrying GIVEN obitag_ref_index maps: the selection loop with its fallback branches, blank / malformed / '
         "unknown-taxid entries, keys 999..1002 and 2000, empty map, no index (log.Fatalf), non-termination observed through the loop's own debug line: a "
         "logrus hook counts 'Problem in identification line' and ends the goroutine after 64 repetitions = outcome hang, no timeout involved); cw A B (shared "
         '4-mers of two sequences); fc1|fc2 Q refs (obitag / obitag2 FindClosests); ix s refs taxids taxonomy (obirefidx.IndexSequence of reference s); '
         'id1|id2 Q refs taxids taxonomy (obitag.Identify; obitag2.FindClosests + BestConsensus on a data base indexed by IndexSequence); qg A n / qgn A k '
         '(q-gram slack of A against every word of length <= n, resp. every word at 1 or 2 single-base edits). Corpus: the failing instances found on the '
         'unrepaired code (tied shorter reference pruned; scan of a lineage level stopped by a long candidate; 1001 far candidates before a closer one, 1003 '
         'tied references), empty data base, identical references, three ties at distance 1, sequences shorter than 4 bases, identity exactly 0.5, distance = '
         'length of the reference. Random: a base sequence of 1..100 bases (alphabet acgt or ac), 1..41 references = variants of it or of one another (copy, '
         '0..5 substitutions spread 4 apart - fewest shared 4-mers per difference -, bases appended/removed at an end, random edits, prefix + long unrelated '
         'tail, both, unrelated), query = variant of the base or of a reference; taxonomy = 1..12 nodes rooted at taxid 1 (uniform, chain, star, deep), '
         'reference taxa at random depth; 1500 (quick) / 5000 per seed (thorough). Exhaustive: qg for every A of length <= 3 against every B of length <= 5 '
         '(quick); thorough, partitioned over the 8 seeds: every A of length <= 5 against every B of length <= 6 (plus samples of length 6 and 7; short words '
         'only test the bound at distance 0: the neighbourhood cases qgn on 8..28 bases are the ones where it is tight), and every query over {a,c} of length '
         '8..10 against one reference set over {a,c}. non-trivial = distinct well-formed case with a non-empty data base. Deepening round 2: ix prints the '
         "TEXT of the entries (taxid@name@rank, names of taxa divisible by 5 contain '@'); id1/id2 are recomputed by the model on the text of the indices with "
         'the verbatim loop; corpus + ~8% of the random cases are sl1/sl2; per random case 1/30 each: query shorter than 4 bases, a reference tripled '
         '(identical references with independent taxa), ambiguity codes in the query or a reference (IUPAC: outside the assumptions of the losslessness '
         'theorems; model and code are compared only when the real kernels behave as the model reads them; oracle failures ARE reported, with the signature '
         'suffix .iupac = known finding C15-iupac-prefilter), six one-substitution variants of one reference (ties on the shared count = unstable candidate '
         'order, and on the distance). Branch statistics: fc:best-at-threshold (a best reference sharing exactly |q|-3-4d 4-mers), fc:best-in-count-tie, '
         'fc:query<4, sl:hang/panic/fatal/assigned; ~9% of the random acgt cases are id3 (a third with the query equal to a reference; random cluster-head '
         'flags and counts); statistics id3:exact-hit / family-stage / no-family / identity<0.5',
 'technique': 'Lean 4 theorems on transcriptions of the two pruned search loops over abstract candidate data (lengths, shared 4-mer counts, unbounded LCS '
              'answers), for any number of references and any sorted candidate order; the taxonomy part on top of the C14 lemmas; differential correspondence '
              'of the model (shared 4-mer counts recomputed from the sequences, LCS answers and candidate order taken from the real kernel / sort) with the '
              'real obitag, obitag2, obirefidx code; brute-force oracle (all-pairs unbounded FastLCSScore, naive LCA on the parent table) on the real code; '
              'the hypotheses of the theorems (q-gram bound, exactness of the bounded kernels) are checked on every pair met; (round 2) the selection loop of '
              'Identify/BestConsensus transcribed statement by statement on the text of the entries and proved equal to a closed form for all indices / '
              'distances / texts, then to the numeric layer on well-formed indices (refinement)',
 'level_text': 'Proved for all inputs on the Lean model of the REPAIRED loops: findClosests_lossless (any data base size, lengths, counts, distances; '
               'candidates scanned by non-increasing shared 4-mers and satisfying the q-gram bound: FindClosests of obitag and obitag2 returns the least LCS '
               'distance over ALL references and exactly the references at that distance, all ties, each once, = bruteClosests; bruteClosests_spec says what '
               'that is), findClosests_empty (empty data base: index-out-of-range panic), index_is_lca (well-formed taxonomy, same hypotheses on the '
               'candidates of the indexed reference, which is one of the references: IndexSequence succeeds and every recorded distance d is mapped to the '
               'taxon whose ancestors are exactly the common ancestors of the taxa of ALL references within d), index_lookup_is_lca (no distance is missing: '
               'for EVERY observed distance D below the length of the indexed sequence the entry found by the downward scan of Identify - largest recorded '
               'distance <= D - is the LCA of the taxa of all references within D), assigned_is_ancestor (whatever the candidate data: the taxon assigned by '
               'Identify / BestConsensus is an ancestor-or-self of the taxon of every reference returned by the search; identity < 0.5 gives the root) and '
               'assigned_is_ancestor_of_every_best (with findClosests_lossless: of every reference at minimal distance in the whole data base). Counterexample '
               'theorems for the unrepaired rules, by evaluation of the loops on the abstract data of the failing corpus cases: '
               'findClosests_unrepaired_loses_tie (D14), indexSequence_unrepaired_skips (D15). The q-gram lemma is PROVED (deepening round): qgram4 / '
               'qgram4_acgt / qgram4_acgt_ali (for sequences over a,c,g,t of at most 65538 letters: an alignment with s matches and l columns leaves at least '
               'l-3-4(l-s) shared 4-mers, by induction on the alignment), hence findClosests_lossless_acgt, index_is_lca_acgt, index_lookup_is_lca_acgt, '
               'assigned_is_ancestor_of_every_best_acgt hold WITHOUT the QGramBound hypothesis; slack_nonneg makes the harness qg/qgn check a theorem; '
               'qgram4_false_beyond_uint16: beyond 65538 letters the uint16 counters of Count4Mer wrap and the bound is false (boundary defect shared with C19 '
               'finding C19-count4-uint16). ROUND 2 (all for unbounded inputs, no new hypothesis): selection_loop_closed_form (the verbatim loop selLoop on '
               'ANY text index = selSpec with 3 or more units of fuel; never undecided: the Go loop ends within 3 outer iterations or repeats one for ever), '
               "entry_text_roundtrip (Split(..,'@')[0] + Atoi of Sprintf('%d@%s@%s') give the taxid back for any name/rank, '@' included), "
               'selection_wellformed (text layer + Atoi + Taxon = selectEntry on indices of well-formed entries, every distance, fallback and spin included), '
               'selection_spins_iff (the loop spins IFF no recorded distance is <= max(D,1001); otherwise an entry is selected), selection_never_falls_back '
               '(under the hypotheses of index_is_lca and a non-empty indexed sequence: the index built by IndexSequence holds the distance 0, hence for EVERY '
               'observed distance the first downward scan succeeds - upward scan and spin unreachable - and verbatim text loop = numeric closed form = that '
               'entry), identify_text_refines (Identify run with the verbatim loop on the text of the indices written by IndexSequence = identify of the '
               'earlier theorems, NO hypothesis: assigned_is_ancestor* transfer to the text-parsing transcription), index_keys_decrease_along_lineage '
               '(recorded distances strictly decreasing in insertion order = no map entry overwritten, all < length of the sequence, recorded taxa a sub-list '
               'of the root-first lineage), findClosests_iupac_counterexample (RECORDED VIOLATION: with an ambiguity code - query ktagatak, three identical '
               'references atagatat at LCS distance 1 - under the answers the real D1Or0 gives on that case the loop returns one of the three tied references '
               'although the candidates are sorted and satisfy the q-gram bound; findClosestsK d1or0 = findClosests for all inputs), exact_table_is_lca + '
               "identify2_exact (obitag2 ExactTaxid entry = LCA of the taxa of ALL references holding the query's bytes, first such reference, summed counts; "
               'Identify returns it), common4mer_sum_min and common4_is_multiset_intersection (Common4Mer = sum over the 256 codes of the min of the two '
               'counters = multiset intersection of the 4-mer codes below 65539 letters, symmetric).',
 'level_note': 'Trusted: Lean kernel; the transcriptions Model/Tag.lean and Model/TagSel.lean; Model/Kmer.lean (Count4Mer, C19) and Model/Tax.lean + '
               'Lemmas/Tax.lean (C14). The LCS kernels are not modelled here (C09): the loops are read with FastLCSScore(.., e) = the unbounded answer when '
               'alilength-lcs <= e and -1 otherwise, D1Or0 = 0/1 exactly when the unbounded distance is 0/1 (both checked by the harness on every pair of a c '
               'g t words: hyp.bounded-lcs, hyp.d1or0; answers of the banded kernel above the bound are ignored by both loops exactly like -1). The candidate '
               'order (unstable sort.Sort) is a parameter; the driver rejects (bad-data) an order that is not a permutation sorted by non-increasing count. '
               'Floats: bestId is the pair (lcs, alilength); identity >= 0.5 is read 2*lcs >= alilength. MODEL REPAIRED in round 2 (read from the code, then '
               'confirmed by the sl cases): after a failed upward scan the second outer iteration scans downwards from d = 1001, so the key 1001 IS found '
               "(selectEntry had 'hang' there). Still tied by correspondence only: bestId / bestmatch; the map[string]interface{} / map[string]string forms of "
               'the obitag_ref_index attribute (indices read back from a file) and negative keys are outside the model (keys are naturals). An LCA error '
               'inside the consensus fold (different roots) is not modelled faithfully (Go continues with a nil taxon; ill-formed taxonomies are outside the '
               "theorems). The exact-match table (exactEntry) and the two stages of obitag2.Identify (identify2: cluster heads, TaxonAtRank('family'), family "
               'slice, reffamidx_in) are now TIED by the id3 cases (real CLIAssignTaxonomy through its iterator; no hook needed); theorems on them: '
               'exact_table_is_lca, identify2_exact only - the ancestor statement for the two-stage branch is checked by the id3 oracle (ancestor-or-self of '
               'every best reference of the list searched last), not proved; no losslessness is claimed for the two-stage search as a whole (by design it only '
               'looks at cluster heads, then at one family). Not covered: the cluster construction of obireffamidx, geometric indexing, the lazy construction '
               'of indices shared between workers (concurrency), entries for distances >= the length of the indexed sequence (never recorded: d < old with old '
               '= lseq; an observed distance equal to that length - identity exactly 0.5 - reads the largest recorded key). IUPAC ambiguity codes: the full '
               'losslessness theorems (findClosests_lossless*, index_is_lca*, assigned_is_ancestor_of_every_best*) are proved for inputs over a c g t; with an '
               'ambiguity code in the query or a reference QGramBound and the kernel readings are false (Encode4mer counts the code as a, D1Or0 compares '
               'bytes, FastLCSScore matches codes) and the property - which quantifies over every query and data base - is VIOLATED by the code: recorded as '
               'open known finding C15-iupac-prefilter (harness signatures *.iupac; corpus case fc1 ktagatak atagatat x3; model-side counterexample '
               'findClosests_iupac_counterexample with D1Or0 as a parameter of findClosestsK). IUPAC cases on which the kernels do not behave as the model '
               'reads them are not compared with the model (printed as iupac-kernel-hyp ..., bad-op on both sides), their oracle failures are reported.',
 'trusted_base': LEAN_TB + ['extract/ (__single_base_code__ table of Encode4mer)',
                  'obialign.FastLCSScore without bound as the definition of the LCS distance (C09 proves it is the (LCS, shortest alignment) pair)',
                  'naive oracles of the harness (ancestor sets on the parent table, multiset intersection of 4-letter windows)',
                  'IEEE-754 double division of integers below 2^26 is injective on reduced fractions (bestId comparisons read on integer pairs)'],
 'modelled': 'pkg/obikmer counting.go (Common4Mer; Count4Mer/Encode4mer from C19), pkg/obitools/obitag/obitag.go (FindClosests, Identify), '
             'pkg/obitools/obitag2/obitag.go (FindClosests, BestConsensus), pkg/obitools/obirefidx/obirefidx.go (IndexSequence; famlilyindexing.go calls the '
             'same function), pkg/obitax/lca.go (TaxNode.LCA, from C14) - as repaired by notes/patches/C15-findclosests-wordmin-best-length, '
             'C15-obitag2-candidate-cap, C15-indexsequence-break-threshold; round 2: the selection loop of obitag.Identify / obitag2.BestConsensus verbatim on '
             "the text of the entries (Model/TagSel.lean: selLoop, selectText, identifyText), fmt.Sprintf('%d@%s@%s') / strings.Split / strconv.Atoi on "
             'entries, log.Fatalf of BestConsensus on a missing index; obitag2.CLIAssignTaxonomy exact-match table and obitag2.Identify two stages '
             '(exactEntry, identify2 - tied by id3); findClosestsK: FindClosests with the answers of D1Or0 as a parameter',
 'assumptions': ['QGramBound: a candidate within d differences of the scanned sequence shares at least max(lengths)-3-4d 4-mers with it (hypothesis of '
                 'findClosests_lossless and index_is_lca; true for words over a c g t by the q-gram lemma, not proved here; FALSE with IUPAC ambiguity codes, '
                 'which Encode4mer counts as a while FastLCSScore matches them: sequences are assumed to be over a c g t in the theorems; the violation with '
                 'ambiguity codes is the open known finding C15-iupac-prefilter)',
                 'the bounded kernels never return a wrong answer at or below their bound (C09: fastLCS_sound + correspondence); answers above the bound are '
                 'harmless',
                 'the candidate list is a permutation of the references sorted by non-increasing shared 4-mer count (what obiutils.IntOrder + Reverse produce)',
                 'well-formed taxonomy rooted at taxid 1 containing the taxon of every reference (obitag discards the others when loading)',
                 'the indexed sequence is one of the references (distance 0 to itself); lengths below 2^26',
                 'selection loop: index keys are natural numbers (IndexSequence records alilength-lcs >= 0), entry texts are ASCII in the harness; a spin of '
                 'the Go loop is observed as > 64 repetitions of its debug line (the model proves the outcome is decided within 3 iterations)']}
