from common import LEAN_TB

CFG = {'lean_modules': ['ObiVerif.Props.C06', 'ObiVerif.Props.C06I'],
 'gen': False,
 'thorough_seeds': 8,
 'rule': 'cases = (mode mem|disk, chunk count in {1,2,3,7,16,100} or any 1..N+1, workers 1..16, input batch size, --no-singleton, NA value in {"NA","","x1"}, 0..2 category keys, '
         '0..2 merged_ keys, optional obidemerge key, multiset of 0..120 records over 1..6 distinct sequences with duplicates): counts absent/1/2..30, category and '
         'merge attributes present / absent / equal to the NA string / already merged on input (merged_<k> maps of 0..3 entries as StatsOnValues, map[string]int or '
         'map[string]interface{} with int or float64 weights; in half of the multisets consistent with the count, as a previous obiuniq leaves them), integer-valued '
         'attribute n_lib, unrequested merged_ maps; every multiset is run in 3 input orders x configurations. Attribute values contain space , ; : = { } [ ] \' and a '
         'non-ASCII letter but never " nor \\ (escaped quotes in JSON headers are property C02\'s defect, the on-disk mode re-reads FASTA files written by the toolkit). '
         '`dispatch` cases: the chunk files WriterDispatcher/Distribute(HashClassifier) leave at the moment ISequenceChunkOnDisk starts reading them (small cases '
         'repeated 25 times, the outcome depends on goroutine scheduling). `stage` cases: the real ISequenceSubChunk (one worker, one SequenceClassifier or '
         'AnnotationClassifier object) on a history of 1..6 batches of 0..170 records: sub-batches in push order, then the codes the classifier gives the records of '
         'the last coded batch and Value(code) of each (state across Reset). Every 20th multiset has > 100 classes, every 20th is almost dereplicated already '
         '(4N sequences for N records), thorough: > 10000 classes; corpus: arrival orders around a Reset boundary with one category (mem/disk, ns 0/1). Third pass: `dist` cases (the real Distribute(HashClassifier(c), s) with batch size s in {0,1,2,3,5,7,5000, 1..N+1}: the batches every output delivers, in order), '
         '`chunk mem|disk` cases (the real ISequenceChunk / ISequenceChunkOnDisk with CLIBatchSize s: the chunks pushed, ids in order; disk: in push order = lexical order of chunk_<code>.fastx, chunk counts 13/100/1000 so that it is not the numerical order, ids sorted inside a chunk, re-read records compared with the written ones), '
         '`chunk diskfail` (TMPDIR missing / a regular file: outcome must be err), `pipe` cases (the transition system of the goroutines under a random schedule with bursts, 1..6 workers, against the real obiuniq), '
         '`idem` cases (obiuniq of (obiuniq of the first k records ++ the others) on the real code, mem and disk), count=0 corpus ([0], [0,0], [0,3]: observation, model only), '
         '`big` cases (generated from a spec: few classes / all distinct / heavy skew; quick 5e3..3e4 records, thorough 1e5..1e6 records in memory and 1e5..2e5 on disk, 1..16 workers). non-trivial = distinct well-formed case with at least 2 records',
 'technique': 'third pass: loop-level transcription of Distribute / ISequenceChunk / ISequenceChunkOnDisk with invariant proof (DistInv) that discharges ChunksOK, small-step '
              'transition system of the goroutines of IUniqueSequence with counting invariant (Pipe.Inv), both executed by the driver against the real code (dist / chunk / pipe cases); '
              'Lean 4 theorems on a functional model of IUniqueSequence (hash chunks -> sub-chunks by sequence -> recursive sub-chunks by category -> '
              'BioSequenceSlice.Merge) for every input list, every permutation of it and every chunk function + differential correspondence with the real '
              'obichunk.IUniqueSequence / obidemerge worker (memory and disk, 1..16 workers) and with the real ISequenceSubChunk + classifier objects (stage cases) '
              '+ recount oracle written with Go maps; loop-level transcription (classifier tables, Reset, coding loop, parametric unstable sort, cut loop, one chain per '
              'worker) proved to refine the functional model and executed next to it on every case (2 sorts, 2 chunk assignments; any difference = LAYERS-DIFFER)',
 'level_text': 'Third pass (Props/C06.lean, last section; details and limits in level_note): distribute_exact, chunks_ok_mem, chunks_ok_disk (under RoundTrip of the file layer), '
               'disk_mkdir_error, pipeline_delivers, pipeline_progress, pipeline_refines (no hypothesis about chunking or scheduling left for the memory mode), '
               'zero_count_not_conserved, zero_count_order_dependent; Props/C06I.lean: uniq_idempotent (uniq (uniq xs ++ ys) ~ uniq (xs ++ ys) up to ObsEq, both directions), class_summary. Proved for all inputs with counts >= 1 (Props/C06.lean): uniq_keys (without --no-singleton the keys of the output are duplicate-free and are exactly '
               'the keys of the input), uniq_count (count = sum over the class of the key), uniq_merged (every requested merged_<k> map exists and gives per value the '
               'summed contribution of the class: the weight in the record\'s own merged_<k> map if it has one, else its count on its value or NA), '
               'uniq_annotations (an annotation is kept iff all members carry it with that value; id/sequence are those of a member), uniq_total (total conserved), '
               'uniq_noSingleton + uniq_total_noSingleton (--no-singleton removes exactly the outputs of count 1 = classes of total 1; total minus one per such class), '
               'uniq_perm (for every permutation of the input and every pair of chunk functions each output of one run has an output with equal key, count, merged_ '
               'weights and annotation set in the other run), demerge_spec / demerge_counts (obidemerge yields one record per entry of merged_<k> with that value and '
               'that count, the weights being the summed contributions), demerge_uniq (for -m k alone, k not a category: dereplicating the demerged output again, with any '
               'chunk function, yields for the key of every first-round output a record with the same merged_<k> weights and count = sum of the weights; hypotheses: '
               'the map is non-empty with entries >= 1). Loop level (Model/UniqLoop.lean): classifier_exact (SequenceClassifier/AnnotationClassifier: inside a batch, from any '
               'state before the Reset, equal values <=> equal codes), hash_same_chunk (HashClassifier: same sequence => same chunk; every theorem holds for every chunk '
               'function, i.e. nothing else is needed), subChunkL_refines (Reset + coding loop + ANY sort that permutes and orders by code + cut loop yield the classes of '
               'subChunk up to member order), uniqL_isOutput / uniqL_keys / uniqL_total and uniqL_refines (for every such sort, every assignment of the hash chunks to any '
               'number of worker chains, every chunk and record arrival order: the outputs of the loop-level pipeline and of the functional model correspond one to one '
               'up to ObsEq, with and without --no-singleton; so all theorems above hold for the loop-level transcription). The model is tied to the code by running both on the same case lines: the canonical result '
               '(records sorted; key, count, kept annotations, requested merged_ maps) must agree byte for byte, in memory and on disk, for every worker count.',
 'level_note': 'THIRD PASS, proved now (Props/C06.lean, bottom): distribute_exact (Distribute loop by loop - slices map, push at len == batchsize, final flush - for every batch size '
               'and every partition of the input into batches: distinct codes, the output of a code delivers exactly the records of that code in input order, no empty batch), '
               'chunks_ok_mem (the chunks the transcribed ISequenceChunk builds, pushed in ANY order (Go map range) and shared out between the workers in any way, satisfy ChunksOK: '
               'the hypothesis of uniqL_refines is a theorem), chunks_ok_disk (ISequenceChunkOnDisk: one file per code holding the formatted batches in push order, files visited in '
               'lexical name order, Load leaving the records of a file in any order (LoadOK; observed on the code: the reader cuts the file before its last record and Load appends the '
               'batches in arrival order, stat chunk:disk:reordered-by-load) - ChunksOK holds whenever the file layer satisfies RoundTrip (read (write batches) = the records); '
               'disk_mkdir_error (no temp dir: the result is the error), pipeline_delivers / pipeline_progress (Model/UniqSteps.lean: chunk channel shared by n workers, per-worker '
               'pushes on iUnique interleaved, merge stage: every reachable final state has given every chunk to exactly one worker and delivered a permutation of uniqL; no deadlock with n >= 1), '
               'pipeline_refines (composition: for every sort, batch size, batch partition, chunk push order, worker count and interleaving the delivered records correspond one to '
               'one up to ObsEq to uniq, and the total count is conserved), zero_count_not_conserved / zero_count_order_dependent (why counts >= 1 is needed: decide on two inputs). '
               'STILL PARTIAL / TIED ONLY: (a) RoundTrip is a hypothesis of chunks_ok_disk: its instance for the FASTA + JSON-header layer is C02\'s write_read_fasta_many_json, but the '
               'embedding of Uniq.Rec into Header.Record JMems (count, attributes, merged_ maps as JSON members; Go strings as bytes) and the proof that it has a left inverse were NOT '
               'written (time): the on-disk file layer is tied by the chunk disk cases (every re-read record compared with the written one: oracle chunk.reread) and the uniq disk '
               'cases; the driver executes the identity layer (idLayer_roundTrip). (b) a worker of the transition system computes what its chain pushes when it sees the end of the '
               'chunk channel and then pushes batch by batch: the interleaving BETWEEN chunk stage, workers and merge stage is arbitrary, the pipelining INSIDE a chain (a sequence of '
               'single-goroutine stages linked by FIFO channels) is not re-modelled: it is C03\'s loop_stage_correct (a single-loop stage delivers its big-step result under every '
               'interleaving); termination (a bound on the number of steps) is not proved, only deadlock freedom. (c) idempotence IS a theorem (Props/C06I.lean uniq_idempotent: for all chunk functions of the three runs, counts >= 1, --no-singleton off, the outputs of '
               'uniq (uniq xs ++ ys) and of uniq (xs ++ ys) correspond one to one up to ObsEq; class_summary: the class of a key among the outputs of a first run has the total, the '
               'merged_ contributions and the common annotations of the class among its inputs); it is tied by the idem cases (model flags NOT-IDEMPOTENT, oracle idem.differs on the real '
               'code). With --no-singleton the statement is false (the first run removes records for good) and is not claimed. (d) the big cases (1e5..1e6 records) do not '
               'run the list model: the driver recomputes classes / total / max from the generator spec with counters; the recount oracle checks every output record of the real code. '
               '(e) negative counts are not representable (Nat) and not generated; count=0 is observed on [0], [0,0], [0,3] (code and model agree: a count-0 record comes out with count 1). '
               '(f) taxid: BioSequence.Merge has no taxid-specific branch (taxid is an ordinary annotation: kept iff all members agree) - covered by uniq_annotations. '
               'EARLIER NOTES: Trusted: Lean kernel; the transcription Model/Uniq.lean. The functional model has no goroutines: the independence from worker count, memory/disk mode and '
               'the scheduling is *proved* only in the form "the result does not depend on the order of the input nor on the chunk function" (uniq_perm), which covers every '
               'intra-class order the unstable sort.Sort of ISequenceSubChunk and the arrival order can produce; that the concurrent pipeline delivers every batch exactly '
               'once was only exercised by the harness until the third pass (now pipeline_delivers, with the limits of (b) above). ISequenceSubChunk IS now modelled loop by loop '
               '(Model/UniqLoop.lean: encode/decode/maxcode incl. AnnotationClassifier.Reset leaving maxcode, coding loop, sort as a parameter quantified over every '
               'permutation ordered by code, cut loop, state threaded over the batches of a stage, one chain per worker) and proved to refine the functional model '
               '(uniqL_refines); not proved: that the sub-batches leave in order of first appearance (order of classes is not claimed by the property; it is compared '
               'in the stage cases), and that Go\'s sort.Sort is a ValidSorter (trusted: permutation ordered by Less). Distribute/ISequenceChunk[OnDisk] were '
               'modelled by their result until the third pass (now Model/UniqChunk.lean, see the top of this note). Observed, outside the property: '
               'AnnotationClassifier.Value(code) after a Reset panics or names the wrong value (maxcode is not reset while decode is truncated; model and code agree on '
               'it in the stage cases; obiuniq never calls Value on it); with count=0 records (outside the quantifier) the merged count depends on member order '
               '(SetCount clamps intermediate sums), so they are not generated. The FASTA/JSON round trip of the on-disk mode is property '
               'C02; here it is covered by correspondence only. The representative (id, unrequested merged_ maps, qualities) and the output order are not claimed.',
 'trusted_base': LEAN_TB + ['Go channel semantics as rendered by Pipe.Step (a chunk sent on the shared channel is received by exactly one of the Split() readers)',
                            'filepath.WalkDir visits names in lexical order (chunk disk cases compare the push order)',
                            'recount oracle of harness/c06.go (Go maps)', 'sort.Sort returns a permutation of its input ordered by Less (ValidSorter)', 'hash/crc32.ChecksumIEEE = bitwise CRC-32 of Model/Uniq.lean (checked by the dispatch cases)',
                            'os temp directory semantics for the on-disk mode',
                            'github.com/goccy/go-json (its unsynchronised lazy decoder cache is warmed up single-threaded in the harness: concurrent first use by the '
                            'header-parsing workers kills about one fresh process in 10^4 with a nil dereference in internal/decoder/map.go — library defect, not C06)'],
 'modelled': 'third pass: pkg/obiiter/distribute.go Distribute (loop level), pkg/obichunk/chunks.go ISequenceChunk, chunk_on_disk.go ISequenceChunkOnDisk (tempDir error, '
             'one file per code, find order, Load; file layer as a parameter), the goroutines of unique.go IUniqueSequence as a transition system (Model/UniqSteps.lean); loop level: pkg/obiseq/class.go SequenceClassifier/AnnotationClassifier (encode, decode, maxcode; Code, Value, Reset, Clone), pkg/obichunk/subchunks.go '
             'ISequenceSubChunk.ff statement by statement, the per-worker chains of IUniqueSequence.ff; functional level: pkg/obiseq/merge.go (StatsOn, StatsPlusOne, StatsOnValues.Merge, BioSequence.Merge, BioSequenceSlice.Merge), pkg/obiseq/class.go (HashClassifier, '
             'SequenceClassifier, AnnotationClassifier as equality of values), pkg/obichunk (ISequenceChunk[OnDisk] as grouping by hash code, ISequenceSubChunk, the ff '
             'closure of IUniqueSequence incl. the singleton shortcut and --no-singleton), pkg/obiiter/merge.go (IMergeSequenceBatch), pkg/obitools/obidemerge '
             '(MakeDemergeWorker)',
 'assumptions': ['on-disk mode: the file layer round-trips the records (RoundTrip; C02) and the temporary directory exists',
                 'a worker chain is a deterministic function of the chunks it receives (C03 loop_stage_correct for each single-loop stage)',
                 'counts >= 1 and weights of input merged_ maps >= 1 (SetCount turns 0 into 1)',
                 'category / merge keys are plain annotation keys (not id, sequence, qualities, count, definition, nor merged_*), descriptors without ":" (weight = count)',
                 'an attribute key always carries values of one Go type (the model compares the fmt.Sprint rendering); merged_<k> annotations are maps of integers',
                 'attribute values without " and \\ in the generator (C02 defect under repair); sequences over acgt, 1..6 bases',
                 'the round trip obiuniq -m k | obidemerge -d k | obiuniq -m k is claimed for k not among the categories and input records whose merged_<k> map, if any, sums to their count']}
