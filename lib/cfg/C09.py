from common import LEAN_TB

CFG = {'lean_modules': ['ObiVerif.Props.C09'],
 'gen': True,
 'thorough_seeds': 8,
 'rule': 'cases = samerow x (all 256 bytes x against all 256 bytes y through the kernel on one-base sequences); lcs A B e egf fill: every pair of '
         'words over {a,c,g,t} of length <= 3 (quick) / <= 4 (thorough, partitioned over the 8 seeds) x bounds -1..4 (endgapfree: -1..2), nil or '
         'poisoned scratch buffer; lcsall / d1all: one A of length 5 (thorough: every one; quick: a sample) or 6 (sample) against EVERY word of '
         'length <= 5 / 6, results folded into a checksum, the oracle run on every pair; random pairs to 500 bases, plain or with IUPAC codes '
         '(rates 1/3, 1/8, 1/20), B an edited copy of A (0..24 edits) or independent, bounds -1, 0..5 and around the number of edits, buffer nil / '
         'filled with 0, 2^64-1, 2^32, 2^33-1, 2^48-1; every case is also re-run on the real code with a buffer reused across all calls and with the '
         'arguments exchanged; lcsseq: HISTORIES of 2..7 calls on ONE scratch buffer that starts empty (deterministic ladder for every bound 0..14, '
         'both modes: narrowest band (length difference = bound, width 2e+5) then widest band (equal lengths, width 4e+5) and back; 700 (thorough '
         '8 x 4000) random histories mixing lengths 0..90, bounds -1 / 0..15 / around the edits, pure length differences, both modes, long pair then '
         'short pair), the model threading the buffer (re-allocation iff cap < 2*width, stale content kept) through the same history, every call '
         'also compared on the real code with a fresh buffer; a Go panic inside the kernel is caught per call and reported as a failing input; '
         'd1 on close pairs (0..2 edits, runs of equal symbols frequent); lcslong: 13 (thorough 16) pairs in compact form with lengths below, at '
         'and above the sentinel length 30000 (one sequence of 29990..40000 bases against 0..2 bases; two sequences of 9000..20000 bases with '
         'narrow bands, both modes), nil and reused buffer, arguments exchanged, naive full-matrix oracle; every lcs answer is also checked '
         'for the range of its third result (end); THIRD PASS: samerow also checks every one of the 256 x 256 byte pairs against the documented behaviour of '
         '_samenuc outside the IUPAC alphabet (non-letter = itself only, non-IUPAC letter = nothing) and for symmetry; 200 (thorough 8 x 1500) pairs over '
         'ALL kinds of bytes (IUPAC both cases, e/x/z, - . * digits, control and high bytes, case-flipped copies), both modes, d1 too, the naive DP '
         'oracle now running on them with the documented compatibility; lcslong + 11 frontier cases (|A| = 30000 exactly; explicit bound >= |A| > 30000; both '
         'sequences 32001 / 32767 long with a narrow band, |a|+|b| = 65534; endgapfree with both > 30000) with analytic oracles where the full matrix '
         'is too large; non-trivial = distinct well-formed case',
 'technique': 'Lean 4 theorems (table lemma by decide over the table regenerated from the source; packed-cell arithmetic on UInt64; inductions on the '
              'banded matrix and on prefix/suffix stripping; REFINEMENT proofs: loop invariants of the index loops of D1Or0, and of the two-row '
              'anti-diagonal buffer of FastLCSEGFScoreByte against the cells of the banded matrix, by induction over the outer loop; THIRD PASS: lower-bound invariant over in-band end-gap-free paths (optimality of endgapfree=true), '
              'shape invariant of the band (interior cells in-band, border cells _setout, all realised) giving the true length frontier) + differential '
              'correspondence of the model layers (verbatim loops, structural for BOTH modes, buffer threaded through histories of calls) with the real kernels + '
              'naive full-matrix / Levenshtein oracles on the real code',
 'level_text': 'Proved for all inputs: iupac_table_is_bitset (the regenerated _iupac table is the IUPAC bit-set table; with the unrepaired value '
               "_iupac['v']=13 the build fails), samenuc_iff_sets_intersect; cell_order / cell_ops (uint64 comparison of packed cells = lexicographic "
               '(score, shorter length), out < in, codec round trip, _incpath/_incscore/_setout act field-wise, for scores < 65536 and lengths < 65535 - '
               'sharpness shown); d1or0_spec (verdict 0 iff equal, 1 iff Levenshtein distance exactly 1 with position and symbols reproducing the edit, '
               'else (-1,-1,0,0)) and d1or0_symm, for all byte sequences; lcsDP_is_lcs (textbook recurrence = optimum over all alignments, any '
               'compatibility relation); fastLCS_sound (every answer of the banded kernel, any bound, is the score and length of an actual alignment - '
               'never spurious; |a|+|b| < 30000 because the sentinel _notavail is the length 30000); fastLCS_exact (FULL: whenever the differences of '
               'the optimum do not exceed the bound, or no bound is given, the banded kernel returns exactly (LCS, shortest alignment) - '
               'band-containment argument), fastLCS_beyond (otherwise none or an answer itself beyond the bound), fastLCS_exact_cover, '
               'fastLCS_decides_bound, fastLCS_exact_partial, all for |a|+|b| < 30000. REFINEMENT (new, all inputs, no length bound): '
               'd1or0_verbatim_refines (the index loops of D1Or0 with their early exits never leave the slices, terminate, and return what '
               'prefix/suffix stripping returns) hence d1or0_verbatim_spec / d1or0_verbatim_symm ON THE VERBATIM TRANSCRIPTION; '
               'fastLCS_verbatim_refines (FastLCSEGFScoreByte with endgapfree=false - two anti-diagonal rows in one buffer, xs/xf index arithmetic, '
               'packed cells, sentinels, _setout, every slice access bounds-checked - never panics and returns exactly what the banded matrix by rows '
               'returns, for every bound and EVERY initial buffer content) hence fastLCS_verbatim_sound / _exact / _beyond / '
               'fastLCSScore_verbatim_exact / fastLCS_verbatim_never_panics on the verbatim transcription; fastLCS_scratch_independent and '
               'fastLCS_history_independent (endgapfree=false: the answer of a call does not depend on the capacity or content of the scratch buffer; '
               'a history of calls on one buffer in any order gives the answers of fresh calls - every cell read was written in the same call). '
               'BOTH MODES (endgapfree=false and true), all inputs, no length bound: fastLCS_anymode_scratch_independent (the verbatim kernel never '
               'panics - no slice access out of range - and returns ONE (score, length, end) for every scratch buffer: nil, pre-allocated with any '
               'stale word, or the caller buffer of any capacity and content; relational invariant over two runs) and '
               'fastLCS_anymode_history_independent (any history of calls of either mode on one buffer, any order, any initial buffer = the fresh '
               'answers). ENDGAPFREE = TRUE (second deepening): specification EgfAli/EgfOpt (an alignment of a FACTOR of the longer sequence with the whole of the shorter one: the overhangs of the longer sequence are free, read off the code - FastLCSEGFScore has no caller), structural layer bandEGF (banded matrix by rows with bandCellE); fastLCSEGF_verbatim_refines / fastLCSEGF_buffer_refines / fastLCSEGFScore_verbatim_refines (all inputs, no length bound, every bound and every scratch buffer: the verbatim kernel with endgapfree=true never panics and returns exactly (score, length) of bandEGF, and 0 <= end <= max(|a|,|b|); EvenOK/OddOK invariant machinery re-used on cellME); fastLCSEGF_sound / fastLCSEGF_verbatim_sound (|a|+|b| < 30000: an answer is the score and length of an actual end-gap-free alignment - never spurious); fastLCSEGF_exact_partial (hence dominated by the end-gap-free optimum). SENTINEL: lcs_sentinel_role (below length 30000 _out < _notavail < every real in-band cell; from 30001 on a real score-0 cell loses against _notavail), fastLCS_length_bound_needed (for EVERY A with 30000 < |A| <= 65534 the verbatim kernel answers (0,30000,0) for A against the empty sequence where the optimum is (0,|A|): the length hypothesis of fastLCS_exact cannot be dropped - the model has the real uint64 / 16-bit field widths, which is why the refinement theorems need no length bound: both layers wrap alike). CALLERS: d1or0_caller_swap (obiclean records makeEdge(.., pos, a2, a1) after D1Or0(son, father): (pos, a2, a1) is the edit turning the father into the son), fastLCSScore_caller_decides (obiclean/obitag accept a pair iff lcs >= 0 and alilength - lcs <= e: iff the optimum has at most e differences, and then the difference count is exact), lpath_isout_eq_decode. THIRD PASS. ENDGAPFREE = TRUE, EXACTNESS (was partial): fastLCSEGF_exact (FULL: with no bound, or whenever l - s of the end-gap-free optimum (s, l) does not exceed the bound, the kernel returns exactly (s, l); optimum = most matches then fewest columns over alignments of a factor of the longer sequence with the whole shorter one), fastLCSEGF_exact_cover (min(|a|,|b|) <= s + e suffices), fastLCSEGF_unbounded (no bound: an answer always, and it is the optimum - which therefore exists), fastLCSEGF_beyond (otherwise not found or a pair itself beyond the bound), fastLCSEGF_decides_bound, fastLCSEGF_verbatim_exact / fastLCSEGFScore_verbatim_exact (on the verbatim kernel / exported wrapper, any scratch buffer), all for |a|+|b| < 30000. TRUE LENGTH FRONTIER of endgapfree=false: LenOK := |a|+|b| <= 65534 and (both sequences <= 30000, or explicit bound e <= 14999); under LenOK fastLCS_sound_long, fastLCS_exact_long (full statement), fastLCS_beyond_long, fastLCS_verbatim_exact_long / _sound_long, fastLCSScore_caller_decides_long (the old hypothesis |a|+|b| < 30000 is a special case: lenOK_of_sum); beyond it the kernel is wrong: fastLCS_length_bound_needed (no bound) and fastLCS_length_bound_needed_explicit (EVERY A with 30000 < |A| <= 65534 against the empty sequence, every bound e >= |A|: (0,30000)). BYTES: samenuc_symm_all_bytes (all 256 x 256), samenuc_non_letter (a byte that is not a letter matches exactly itself), samenuc_non_iupac_letter (e f i j l o p q x z, either case - list decided on the regenerated table - match NOTHING, not even themselves). SYMMETRY OF THE KERNEL: fastLCS_symm_unequal (different lengths, both modes, every bound, no length bound), fastLCS_symm_within (within LenOK and the bound). CALLERS: d1_zero_imp_lcs_full (identical sequences of self-matching symbols: D1Or0 = 0 and FastLCSScore = (n, n)). STILL PARTIAL / NOT PROVED: the endgapfree=true theorems keep |a|+|b| < 30000 (the shape invariant was done for endgapfree=false only; harness case with both > 30000 agrees); the VALUE of the third result end is tied by correspondence only (its range is proved); symmetry for EQUAL lengths beyond the bound (transposed matrix) is tied by the harness only; endgapfree=false with a sequence longer than 30000 and an explicit bound 15000 <= e < |A|, and |a|+|b| > 65534, are neither proved nor refuted.',
 'level_note': 'Trusted: Lean kernel; the transcriptions in Model/Lcs.lean and Model/LcsBuf.lean (the latter only splits the former at the buffer: '
               'fastLCSEGFScoreByte_eq_runFrom proves fastLCSEGFScoreByte = setup followed by runFrom on its fill buffer); the extractor (literals of '
               '_iupac). The verbatim layers (index loops of D1Or0; two anti-diagonal rows in one buffer with the xs/xf index arithmetic of '
               'FastLCSEGFScoreByte, endgapfree=false) are now PROVED equal to the structural layers (d1F; bandLCS) the property theorems were stated '
               'on, so every C09 theorem holds of the verbatim transcription (vm_C09 still answers layer-mismatch if the executed layers ever '
               'differed). NOT proved: the meaning of end (no caller uses it; only 0 <= end <= max length is proved); endgapfree=true beyond |a|+|b| < 30000; endgapfree=false beyond LenOK other than the refuted families (sequence > 30000 with no bound or a bound >= its length); equal-length symmetry beyond the bound. New lemma files of the third pass: Lemmas/LcsEgfOpt.lean (EIn, cellME_lb, EgfAli.toEIn, bandEGF_exact / _within_is_opt / _beyond / _unbounded), Lemmas/LcsLong.lean (RealC, bandCell_real, bandCell_lb_long, LenOK, bandLCS_*_long, bandLCS_long_row0_bound), Lemmas/LcsBytes.lean. KNOWN LIMIT of the real code (finding C09-len30000, theorem fastLCS_length_bound_needed, lcslong cases): with a sequence longer than 30000 the alignment length is understated (c x30005+a against a: (1,30001) instead of (1,30006)); the model reproduces these answers; the oracle deviation is reported under the signature lcslong.sentinel-length (the finding IS listed in known_findings.json: the lcslong cases print KNOWN-FINDING); the buffer model identifies the caller\'s slice with its cap-long backing array (len < cap callers are not '
               'distinguished - the code only uses cap and re-slices).',
 'trusted_base': LEAN_TB + ['extract/ (go/ast literal extraction of _iupac)', 'naive full-matrix LCS (specified IUPAC compatibility) and Levenshtein oracles in the harness'],
 'modelled': 'pkg/obialign fastlcsegf.go (_iupac, _samenuc, FastLCSEGFScoreByte in BOTH modes incl. the buffer re-allocation test cap < 2*width and the reuse of '
             'the caller buffer across calls, FastLCSScore, FastLCSEGFScore), fastlcs.go (encodeValues, decodeValues, _incpath, _incscore, _setout, '
             '_empty/_out/_notavail, _lpath, _isout), is_d0_or_d1.go (D1Or0); the conventions of the callers obiclean/graph.go (D1Or0(son, father) + '
             'makeEdge(.., a2, a1); FastLCSScore + lali - lcs <= step) and obitag.go (FastLCSScore + alilength - lcs) as theorems',
 'assumptions': ['endgapfree=false: LenOK (|a|+|b| <= 65534 and (both <= 30000 or explicit bound <= 14999)) for the exactness/soundness theorems - the true frontier of '
                 'the sentinel length 30000 and the 16-bit length field; endgapfree=true: |a| + |b| < 30000; the refinement and '
                 'buffer-independence theorems need no length bound',
                 'symbols outside the IUPAC alphabet: the property does not say what matches; the model follows the code (letters that are not IUPAC '
                 'codes match nothing, not even themselves; other bytes match iff equal - now theorems samenuc_non_letter / samenuc_non_iupac_letter) and the harness '
                 'oracle uses that documented behaviour',
                 'D1Or0 is given the stored (lower-cased) sequences of the BioSequence objects',
                 'a scratch buffer is used by one goroutine at a time (as all callers do: one buffer per worker)',
                 'endgapfree=true: the specification (free overhangs of the LONGER sequence, the first argument when the lengths are equal) is '
                 'read off the code - FastLCSEGFScore has no caller in the code base that could pin another meaning']}
