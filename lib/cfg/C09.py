from common import LEAN_TB

CFG = {'lean_modules': ['ObiVerif.Props.C09'],
 'gen': True,
 'thorough_seeds': 8,
 'rule': 'cases = samerow x (all 256 bytes x against all 256 bytes y through the kernel on one-base sequences); lcs A B e egf fill: every pair of '
         'words over {a,c,g,t} of length <= 3 (quick) / <= 4 (thorough, partitioned over the 8 seeds) x bounds -1..4 (endgapfree: -1..2), nil or '
         'poisoned scratch buffer; lcsall / d1all: one A of length 5 (thorough: every one; quick: a sample) or 6 (sample) against EVERY word of '
         'length <= 5 / 6, results folded into a checksum, the oracle run on every pair; random pairs to 500 bases, plain or with IUPAC codes '
         '(rates 1/3, 1/8, 1/20), B an edited copy of A (0..24 edits) or independent, bounds -1, 0..5 and around the number of edits, buffer nil / '
         'filled with 0, 2^64-1, 2^32, 2^33-1, 2^48-1; every case is also re-run on the real code with a buffer reused across all calls and with the '
         'arguments exchanged; d1 on close pairs (0..2 edits, runs of equal symbols frequent); non-trivial = distinct well-formed case',
 'technique': 'Lean 4 theorems (table lemma by decide over the table regenerated from the source; packed-cell arithmetic on UInt64; inductions on the '
              'banded matrix and on prefix/suffix stripping) + differential correspondence of two model layers (verbatim loops, structural) with the '
              'real kernels + naive full-matrix / Levenshtein oracles on the real code',
 'level_text': 'Proved for all inputs: iupac_table_is_bitset (the regenerated _iupac table is the IUPAC bit-set table; with the unrepaired value '
               "_iupac['v']=13 the build fails), samenuc_iff_sets_intersect; cell_order / cell_ops (uint64 comparison of packed cells = lexicographic "
               '(score, shorter length), out < in, codec round trip, _incpath/_incscore/_setout act field-wise, for scores < 65536 and lengths < 65535 - '
               'sharpness shown); d1or0_spec (verdict 0 iff equal, 1 iff Levenshtein distance exactly 1 with position and symbols reproducing the edit, '
               'else (-1,-1,0,0)) and d1or0_symm, for all byte sequences; lcsDP_is_lcs (textbook recurrence = optimum over all alignments, any '
               'compatibility relation); fastLCS_sound (every answer of the banded kernel, any bound, is the score and length of an actual alignment - '
               'never spurious; |a|+|b| < 30000 because the sentinel _notavail is the length 30000); fastLCS_exact_partial (exactly (LCS, shortest '
               'alignment) when no bound is given or when the band covers the matrix). fastLCS_exact (FULL: whenever the differences of the optimum do not exceed the bound, or no bound is given, the banded kernel '
               'returns exactly (LCS, shortest alignment) - band-containment argument), fastLCS_beyond (otherwise none or an answer itself beyond the bound), '
               'fastLCS_exact_cover, fastLCS_decides_bound, all for |a|+|b| < 30000. PARTIAL: endgapfree=true (FastLCSEGFScore) and the refinement between '
               'the verbatim loop layer and the structural layer are tied by correspondence and oracle only.',
 'level_note': 'Trusted: Lean kernel; the transcriptions in Model/Lcs.lean; the extractor (literals of _iupac). The theorems about D1Or0 and the LCS '
               'kernel are stated on structural layers (d1F: prefix/suffix stripping; bandLCS: banded matrix by rows with the packed words, band limits, '
               'sentinels and _setout of the code); the verbatim layers (index loops of D1Or0; two anti-diagonal rows in one buffer with the xs/xf index '
               'arithmetic of FastLCSEGFScoreByte) are NOT proved equal to them in Lean: both layers are executed on every correspondence case against '
               'the real code (vm_C09 answers layer-mismatch if they differ) - tie = both layers validated differentially. Independence of the scratch '
               'buffer content is checked on the real code (nil / poisoned / reused), not proved.',
 'trusted_base': LEAN_TB + ['extract/ (go/ast literal extraction of _iupac)', 'naive full-matrix LCS (specified IUPAC compatibility) and Levenshtein oracles in the harness'],
 'modelled': 'pkg/obialign fastlcsegf.go (_iupac, _samenuc, FastLCSEGFScoreByte, FastLCSScore, FastLCSEGFScore), fastlcs.go (encodeValues, decodeValues, '
             '_incpath, _incscore, _setout, _empty/_out/_notavail), is_d0_or_d1.go (D1Or0)',
 'assumptions': ['|a| + |b| < 30000 for the LCS theorems (sentinel length 30000; 16-bit score/length fields)',
                 'symbols outside the IUPAC alphabet: the property does not say what matches; the model follows the code (letters that are not IUPAC '
                 'codes match nothing, not even themselves; other bytes match iff equal) and the oracle is silent on them',
                 'D1Or0 is given the stored (lower-cased) sequences of the BioSequence objects']}
