from common import LEAN_TB

CFG = {'lean_modules': ['ObiVerif.Props.C09'],
 'gen': True,
 'thorough_seeds': 8,
 'rule': 'placeholder',
 'technique': 'placeholder',
 'level_text': 'placeholder',
 'level_note': 'placeholder',
 'trusted_base': LEAN_TB,
 'modelled': 'placeholder',
 'assumptions': []}
