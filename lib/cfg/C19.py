from common import LEAN_TB

CFG = {'lean_modules': ['ObiVerif.Props.C19'],
 'gen': True,
 'thorough_seeds': 8,
 'rule': 'cases = (operation, parameters, sequences): e4 = Encode4mer on sequences of 0..300 bytes (plain bases, IUPAC letters, upper case, non-letters), '
         'every length 0..6 in the corpus; c4 = Count4Mer on a unit repeated n times (incl. 65539 x a); nk = NewKmerMap[Uint64|Uint128|Uint256] + '
         'NormalizedKmerSlice + KmerAsString for requested k = 2..W/2 (also 2k = W), dense and sparse (k made even/odd by the code), sequences shorter than / '
         'equal to / longer than k and longer than the machine word, with ambiguity codes, u, palindromic at-only sequences; g = MakeDeBruijnGraph(k), k = '
         '2..31 (+ 1 and 32), 1..5 reads derived from a template with substitutions, truncations, reads of exactly k bases, internal repeats (branches, '
         'cycles), 2-3 letter alphabets for dense small graphs, up to three ambiguity codes per read, counts 1..20, a few bytes outside the IUPAC table; the '
         'first corpus lines pin every defect found on the unchanged code; non-trivial = distinct well-formed case inside the domain of the word type (2k <= '
         'W)',
 'technique': 'Lean 4 theorems on executable models of the k-mer code (table facts decided over the tables regenerated from the source; word arithmetic, '
              'sliding-window and strand-symmetry laws by induction) + differential correspondence of the models with the real pkg/obikmer functions on the '
              'three obifp word types + independent oracles on the real code (naive 4-mer and canonical k-mer enumeration on strings and big integers, strand '
              'invariance by actually reverse-complementing, per-window IUPAC expansion for the weights, Kahn elimination for cycles, brute force over all '
              'walks and dynamic programming for the heaviest walk)',
 'level_text': 'Proved for all inputs on the models of the repaired code: encode4_exact (Encode4mer = the codes of the 4-mers in order, none below 4 bases, no '
               'panic); count4_mod (table cell = occurrences modulo 2^16) and count4_exact_partial (exact below 65539 bases) with count4_overflow as '
               'counterexample to the unrestricted statement; canon_exact (for every word width W, every k with 1 <= k and 2k <= W, dense or sparse, every '
               'byte sequence of any length: NewKmerMap does not panic and NormalizedKmerSlice returns, in order, for every window of k unambiguous bases, the '
               'smaller of the k-mer and its reverse complement, central base erased in sparse mode) and canon_strand_invariant (the reverse complement of a '
               'sequence gives the reversed list, hence the same multiset). For the De Bruijn graph (deepening round, all proved): push_weights / '
               'push_weights_iupac (any reads incl. IUPAC ambiguity codes: weight = sum of count x number of windows one of whose readings is the k-mer, '
               'readings over the regenerated table), hasCycle_iff (the DFS answers true iff the graph has a directed cycle, and its fuel never runs out), '
               'heaviest_is_walk, heaviest_terminates (fuel bound hpBound), heaviest_optimal (positive weights: no walk from a source is heavier; '
               'optimal_zero_weight_counterexample shows why counts >= 1 are needed), none_iff_cycle (no path returned iff the graph is cyclic), '
               'single_read_roundtrip / _plain (a single read without repeated (k-1)-mer is returned unchanged; roundtrip_counterexample: "no repeated k-mer" '
               'is not enough).',
 'level_note': 'Trusted: Lean kernel; the transcriptions Model/Kmer.lean and Model/DeBruijn.lean; obifp words are modelled as naturals below 2^W with '
               'LeftShift = (x * 2^n) mod 2^W, RightShift = x / 2^n, And/Or = Nat.land/lor, Not = 2^W-1-x, Sub panicking on underflow - the agreement of '
               'pkg/obifp with that arithmetic is property C20 (and is exercised here on Uint64/128/256 by the correspondence); the Go map of the graph is an '
               'association list; container/heap over UInt64Heap is modelled as extract-min of a multiset; LongestConsensus only with min_cov = 0 (the '
               'trimming branch uses floats); weights as naturals (no uint/int overflow).',
 'trusted_base': LEAN_TB + ['extract/ (go/ast literal extraction of iupac, revcompnuc, decode, __single_base_code__)',
 'naive string/big-integer k-mer references, Kahn and walk enumeration oracles in harness/c19.go',
 'C20 for the meaning of the obifp operations'],
 'modelled': 'pkg/obikmer encodefourmer.go (Encode4mer), counting.go (Count4Mer), kmermap.go (NewKmerMap parameters and masks, NormalizedKmerSlice, '
             'KmerAsString), debruijn.go (MakeDeBruijnGraph, Push, Weight, Nexts, Previouses, Heads, HasCycle, HaviestPath, DecodeNode, DecodePath, '
             'LongestConsensus with min_cov = 0) - as repaired by notes/patches/C19-*.diff',
 'assumptions': ['read counts >= 1 and total weights below 2^63',
                 'k >= 1; for the index 2k <= width of the word type; for the graph k <= 32 (property: 2..31)',
                 'bytes outside the IUPAC table are outside the contract of Push (modelled as the repaired code behaves: they end the enumeration of the read)',
                 'LongestConsensus is only modelled for min_cov = 0',
                 'HaviestPath on the empty graph panics in the code (log.Panicf "Cycle detected"); LongestConsensus guards it with "graph is empty"']}
