from common import LEAN_TB

CFG = {'lean_modules': ['ObiVerif.Props.C19'],
 'gen': True,
 'thorough_seeds': 8,
 'rule': 'cases = (operation, parameters, sequences): e4 = Encode4mer on sequences of 0..300 bytes (plain bases, IUPAC letters, upper case, non-letters), '
         'every length 0..6 in the corpus; c4 = Count4Mer on a unit repeated n times (incl. 65539 x a); nk = NewKmerMap[Uint64|Uint128|Uint256] + '
         'NormalizedKmerSlice + KmerAsString for requested k = 2..W/2 (also 2k = W), dense and sparse (k made even/odd by the code), sequences shorter than / '
         'equal to / longer than k and longer than the machine word, with ambiguity codes, u, palindromic at-only sequences; g = MakeDeBruijnGraph(k), k = '
         '2..31 (+ 1 and 32), 1..5 reads derived from a template with substitutions, truncations, reads of exactly k bases, internal repeats (branches, '
         'cycles), 2-3 letter alphabets for dense small graphs, up to three ambiguity codes per read, counts 1..20, a few bytes outside the IUPAC table; the '
         'first corpus lines pin every defect found on the unchanged code; deepening round 2: reads of exactly k, k+1, k+2 bases with ambiguity codes at the '
         'edges of the first/last window (k up to 32), bubbles / tips / several sources of equal weight, 20-300 reads per graph, nk at 2k = W, W-2, W-4 on '
         'the three word types with sequences of k-1, k, k+1 bases; gf = Push + FilterMinWeight(min, incl. negative and 0) + MaxWeight + Len + everything '
         'g shows on the filtered graph; gc = LongestConsensus(id, min_cov > 0) for 21 fixed values (dyadic, 0.1, 1/3, next-after 0.5, 1e-300, smallest '
         'subnormal, > 1) and random ones; km = NewKmerMap(refs, k, sparse, maxocc in -1..4) + Len + Query + FilterMinCount on 64/128/256-bit words, query '
         'fresh or itself a reference; deepening round 3: km with limits 0..13 that drop some k-mers and keep others, every km case run twice with opposite allocation orders of the '
         'sequences (address ranks reversed); gc corpus with weights 2^52-1, 2^52, 2^52+1, 2^53+1; every acyclic g/gf case asks HaviestPath again twice and twice more on the graph rebuilt from the reads in '
         'the opposite order; non-trivial = distinct well-formed case inside the domain of the word type (2k <= W)',
 'technique': 'Lean 4 theorems on executable models of the k-mer code (table facts decided over the tables regenerated from the source; word arithmetic, '
              'sliding-window and strand-symmetry laws by induction) + differential correspondence of the models with the real pkg/obikmer functions on the '
              'three obifp word types + independent oracles on the real code (naive 4-mer and canonical k-mer enumeration on strings and big integers, strand '
              'invariance by actually reverse-complementing, per-window IUPAC expansion for the weights, Kahn elimination for cycles, brute force over all '
              'walks and dynamic programming for the heaviest walk; for min_cov: 53-bit big.Float recomputation of the threshold for every value Mode can return, '
              'trimmed consensus must be one of the references and a substring of the full consensus; for the index: set of matched references from naive '
              'canonical k-mers, strand invariance of Query by actually reverse-complementing the query; round 3: Len and the reported counts (shared+1) recomputed naively with the occurrence limit and a query that '
              'is a reference; answers of Query under two allocation orders must be equal; single read returned iff no repeated (k-1)-mer, else cycle + error; '
              'HaviestPath repeated / on the reversed read order must return the same path; run-to-run differences of LongestConsensus (Mode ties) and of the unused MaxPath are counted)',
 'level_text': 'Proved for all inputs on the models of the repaired code: encode4_exact (Encode4mer = the codes of the 4-mers in order, none below 4 bases, no '
               'panic); count4_mod (table cell = occurrences modulo 2^16) and count4_exact_partial (exact below 65539 bases) with count4_overflow as '
               'counterexample to the unrestricted statement; canon_exact (for every word width W, every k with 1 <= k and 2k <= W, dense or sparse, every '
               'byte sequence of any length: NewKmerMap does not panic and NormalizedKmerSlice returns, in order, for every window of k unambiguous bases, the '
               'smaller of the k-mer and its reverse complement, central base erased in sparse mode) and canon_strand_invariant (the reverse complement of a '
               'sequence gives the reversed list, hence the same multiset). For the De Bruijn graph (deepening round, all proved): push_weights / '
               'push_weights_iupac (any reads incl. IUPAC ambiguity codes: weight = sum of count x number of windows one of whose readings is the k-mer, '
               'readings over the regenerated table), hasCycle_iff (the DFS answers true iff the graph has a directed cycle, and its fuel never runs out), '
               'heaviest_is_walk, heaviest_terminates (fuel bound hpBound), heaviest_optimal (positive weights: no walk from a source is heavier; '
               'optimal_zero_weight_counterexample shows why counts >= 1 are needed), none_iff_cycle (no path returned iff the graph is cyclic), '
               'single_read_roundtrip / _plain (a single read without repeated (k-1)-mer is returned unchanged; roundtrip_counterexample: "no repeated k-mer" '
               'is not enough). Deepening round 2 (all proved, all inputs): heap_refines_multiset (the verbatim transcription of container/heap up/down/Push/Pop over '
               'UInt64Heap keeps the heap order; Push adds exactly x; Pop removes exactly one element, a minimum) + heap_fuel_adequate; heaviest_transcription '
               '(HaviestPath / LongestConsensus on that binary heap = the sorted-list models, every graph and fuel) and heaviestH_correct (nil iff cycle, walk '
               'from a source, optimality, termination restated on the transcription, which is what the driver runs); consensus_of_multiset (pushing the same '
               'reads in another order gives the same map, HasCycle, path and consensus: the association list is a map; Lemmas/DeBruijnOrder.lean: any two '
               'lists holding the same map give the same results, i.e. Go map iteration order is unobservable in these queries); max_weight_spec, '
               'filter_min_weight_spec (exactly the nodes of weight >= min keep their weight; WF, distinct keys and positivity are preserved, so the path theorems '
               'apply after filtering); for min_cov > 0: trim_spec (complete characterisation of path[from:to], incl. the slice panic when every node is below the '
               'threshold), consensus_cov_spec (result = decoding of the sub-walk between the first and last node reaching the threshold; panic otherwise), '
               'cov_threshold_exact (the float threshold equals floor(mode*min_cov+1/2) when min_cov = a/2^s or an integer and mode*a+2^(s-1) < 2^53; then <= mode '
               'if min_cov <= 1), consensus_cov_no_panic_partial (no panic for min_cov <= 1 under that no-rounding hypothesis), mode_cands_spec, '
               'mode_tie_counterexample (the outcome depends on Go map iteration order inside obistats.Mode when two weights are equally frequent; min_cov = 2 '
               'panics). k-mer index proper: index_exact (without occurrence limit the list under k-mer x is the references in order, each repeated count x times), '
               'query_exact (query not in the index: reference j is reported iff it shares a canonical k-mer occurrence, with the value shared+1 - the code counts '
               'one too many -, independent of the address order), query_strand_invariant. Deepening round 3 (all proved, all inputs): rounding_monotone (the modelled '
               'round-to-nearest-even is monotone on every grid 2^e x N and never crosses a representable value K x 2^f, K <= 2^53, from either side), cov_threshold_le_mode '
               '(threshold <= mode for EVERY float min_cov = m x 2^-s <= 1 and every mode < 2^52) and consensus_cov_no_panic (the full no-panic theorem: no rounding '
               'hypothesis left; only mode < 2^52), cov_threshold_above_mode_counterexample (the bound is sharp: mode = 2^52+1, min_cov = 1 gives mode+1 and the real code '
               'panics); single_read_roundtrip_iff / _acgt (a single read of plain bases comes back unchanged IFF no (k-1)-mer is repeated; a repeated one closes the '
               'cycle x_i -> ... -> x_(j-1) -> x_i, HasCycle is true and the result is the error, for every fuel); canon_full_width (2k = W, any even k) with the boundary '
               'configurations of the three word types; push_weights_cut (a read a ++ [b] ++ c with b outside the IUPAC table counts exactly as a), '
               'win_count_by_membership (a window counts once whatever the number of its readings equal to x); heaviest_tie_break_deterministic (equal-weight paths: the '
               'one returned is a function of the map word -> weight, any two iteration orders of the Go map give the same path and consensus, on the binary-heap '
               'transcription); index_limited_exact (limit M >= 0: a k-mer is indexed, with its complete list, iff it occurs fewer than M times in the references), '
               'query_any_exact (query fresh OR itself a reference: j reported iff j is not the query and shares a k-mer occurrence, value shared+1, for every injective address '
               'rank), query_limited_exact (the same with the limit), query_strand_invariant_any.',
 'level_note': 'Trusted: Lean kernel; the transcriptions Model/Kmer.lean and Model/DeBruijn.lean; obifp words are modelled as naturals below 2^W with '
               'LeftShift = (x * 2^n) mod 2^W, RightShift = x / 2^n, And/Or = Nat.land/lor, Not = 2^W-1-x, Sub panicking on underflow - the agreement of '
               'pkg/obifp with that arithmetic is property C20 (and is exercised here on Uint64/128/256 by the correspondence); the Go map of the graph is an '
               'association list (proved order-independent: consensus_of_multiset); weights as naturals (no uint/int overflow). min_cov: the three float64 '
               'operations are modelled exactly as round-to-53-bits-ties-to-even of the exact result with unbounded exponent (no overflow; the multiplication and '
               'the addition rounded separately = amd64 GOAMD64=v1; an FMA-fusing target agrees whenever cov_threshold_exact applies); obistats.Mode is a parameter '
               'of the model ranging over modeCands - on a tie the driver accepts the outcome observed on the real code iff it is one of the candidates (the harness '
               'shows the run-to-run difference on the real code: gc:run-to-run-difference-observed). Query is modelled as repaired by C19-query-self-last (the unrepaired '
               'code reported the query sequence itself iff its address was the largest of the matched ones); the model still sorts by the address ranks of the real run, '
               'query_any_exact / query_limited_exact prove the answer independent of them. Domain limit proved sharp: node weights >= 2^52 (cov_threshold_above_mode_counterexample). '
               'Not modelled, no theorem: KmerMatch.Max, KmerMatch.Sequences (obikmersim match: the order of the matched sequences is the iteration order of a Go map), '
               'MaxHead/MaxNext/MaxPath/BestConsensus/LongestPath/WeightMode/WeightMean/WeightSpectrum/HammingDistance (called by no command; MaxPath differs run to run '
               'when two heads have the same weight: stat g:MaxPath-run-to-run-difference), Gml/WriteGml (obiconsensus --save-graph only; node ids follow map order, floats). '
               'Which of several equally heavy paths is returned is proved deterministic but has no closed-form characterisation beyond the example. The float model has an '
               'unbounded exponent (no overflow/subnormal result: mode x min_cov + 0.5 lies in [0.5, 2^63)).',
 'trusted_base': LEAN_TB + ['extract/ (go/ast literal extraction of iupac, revcompnuc, decode, __single_base_code__)',
 'naive string/big-integer k-mer references, Kahn and walk enumeration oracles, big.Float threshold reference in harness/c19.go',
 'C20 for the meaning of the obifp operations'],
 'modelled': 'pkg/obikmer encodefourmer.go (Encode4mer), counting.go (Count4Mer), kmermap.go (NewKmerMap parameters and masks, NormalizedKmerSlice, '
             'KmerAsString), debruijn.go (MakeDeBruijnGraph, Push, Weight, Nexts, Previouses, Heads, HasCycle, HaviestPath, DecodeNode, DecodePath, '
             'LongestConsensus with min_cov = 0 and > 0, Len, MaxWeight, FilterMinWeight, UInt64Heap + container/heap up/down/Push/Pop), kmermap.go (Push, the '
             'indexing loop and final filter of NewKmerMap, Len, Query, FilterMinCount), obistats.Mode (as the set of its possible answers) - as repaired by '
             'notes/patches/C19-*.diff (six patches, incl. C19-query-self-last)',
 'assumptions': ['read counts >= 1 and total weights below 2^63',
                 'k >= 1; for the index 2k <= width of the word type; for the graph k <= 32 (property: 2..31)',
                 'bytes outside the IUPAC table are outside the contract of Push (modelled as the repaired code behaves: they end the enumeration of the read)',
                 'min_cov finite, > 0, mode x min_cov below 2^63; float multiplication and addition not fused; no-panic statement: node weights below 2^52',
                 'Query: distinct sequences have distinct addresses (rank injective on the references)',
                 'HaviestPath on the empty graph panics in the code (log.Panicf "Cycle detected"); LongestConsensus guards it with "graph is empty"']}
