from common import LEAN_TB

CFG = {'lean_modules': ['ObiVerif.Props.C19', 'ObiVerif.Props.C19Glue'],
 'gen': True,
 'thorough_seeds': 8,
 'rule': 'cases = (operation, parameters, sequences): e4 = Encode4mer on sequences of 0..300 bytes (plain bases, IUPAC letters, upper case, non-letters), '
         'every length 0..6 in the corpus; c4 = Count4Mer on a unit repeated n times (incl. 65539 x a); nk = NewKmerMap[Uint64|Uint128|Uint256] + '
         'NormalizedKmerSlice + KmerAsString for requested k = 2..W/2 (also 2k = W), dense and sparse (k made even/odd by the code), sequences shorter than / '
         'equal to / longer than k and longer than the machine word, with ambiguity codes, u, palindromic at-only sequences; g = MakeDeBruijnGraph(k), k = '
         '2..31 (+ 1 and 32), 1..5 reads derived from a template with substitutions, truncations, reads of exactly k bases, internal repeats (branches, '
         'cycles), 2-3 letter alphabets for dense small graphs, up to three ambiguity codes per read, counts 1..20, a few bytes outside the IUPAC table; the '
         'first corpus lines pin every defect found on the unchanged code; deepening round 2: reads of exactly k, k+1, k+2 bases with ambiguity codes at the '
         'edges of the first/last window (k up to 32), bubbles / tips / several sources of equal weight, 20-300 reads per graph, nk at 2k = W, W-2, W-4 on '
         'the three word types with sequences of k-1, k, k+1 bases; gf = Push + FilterMinWeight(min, incl. negative and 0) + MaxWeight + Len + everything '
         'g shows on the filtered graph; gc = LongestConsensus(id, min_cov > 0) for 21 fixed values (dyadic, 0.1, 1/3, next-after 0.5, 1e-300, smallest '
         'subnormal, > 1) and random ones; km = NewKmerMap(refs, k, sparse, maxocc in -1..4) + Len + Query + FilterMinCount on 64/128/256-bit words, query '
         'fresh or itself a reference; deepening round 3: km with limits 0..13 that drop some k-mers and keep others, every km case run twice with opposite allocation orders of the '
         'sequences (address ranks reversed); gc corpus with weights 2^52-1, 2^52, 2^52+1, 2^53+1; every acyclic g/gf case asks HaviestPath again twice and twice more on the graph rebuilt from the reads in '
         'the opposite order; wave 3: conc = 4 bundles (quick; 6 per seed in thorough, 16 goroutines x 10 rounds) of 8-10 sub-cases e4 / c4 (6-40 kb) / nk on 1.5-3 kb / g, gf on 14-28 reads of 150-300 bases / '
         'kq (one index of 16-36 references shared, 8-14 queries: fresh records, long records, references themselves) run alone then from 8 goroutines x 6 rounds released together, '
         'each goroutine its own records, buffers, tables, indexes and graphs; thorough first seed: 3 bundles replayed through a go build -race build; '
         'fourth pass, histories on ONE object: gh = one DeBruijnGraph, 3-14 steps p:<read>:<count> | f:<min> | q (MaxWeight, Len, weight table with Nexts/Previouses, HasCycle, HaviestPath, '
         'LongestConsensus(id, 0)) | c:<min_cov> in any order and repeated, every answer after every prefix compared with the functional model applied step by step; generator (363 quick / 1500 x 8 thorough): '
         'amplicon + low-count chimera closing a cycle, a query, a filter above the chimera count, a query (cycle seen by a query then removed: ~180 per quick run), the cycle coming back heavier, weights crossing the '
         'threshold by re-pushing between filters, the empty graph after a filter (negative / huge threshold) then re-push, runs of 2-4 filters, random step sequences, k = 2..31 (+32), 2-letter alphabets, ambiguity codes, reads shorter than / of exactly k bases; '
         'kh = one KmerMap[Uint64|128|256] (NewKmerMap(nil)), 3-12 steps Push(seq, maxocc) | Query(fresh record or the j-th pushed record itself) + FilterMinCount on the returned KmerMatch + Query again, incl. a query on the empty index and an occurrence limit reached during the history; '
         'non-trivial = distinct well-formed case inside the domain of the word type (2k <= W)',
 'technique': 'Lean 4 theorems on executable models of the k-mer code (table facts decided over the tables regenerated from the source; word arithmetic, '
              'sliding-window and strand-symmetry laws by induction) + differential correspondence of the models with the real pkg/obikmer functions on the '
              'three obifp word types + independent oracles on the real code (naive 4-mer and canonical k-mer enumeration on strings and big integers, strand '
              'invariance by actually reverse-complementing, per-window IUPAC expansion for the weights, Kahn elimination for cycles, brute force over all '
              'walks and dynamic programming for the heaviest walk; for min_cov: 53-bit big.Float recomputation of the threshold for every value Mode can return, '
              'trimmed consensus must be one of the references and a substring of the full consensus; for the index: set of matched references from naive '
              'canonical k-mers, strand invariance of Query by actually reverse-complementing the query; round 3: Len and the reported counts (shared+1) recomputed naively with the occurrence limit and a query that '
              'is a reference; answers of Query under two allocation orders must be equal; single read returned iff no repeated (k-1)-mer, else cycle + error; '
              'HaviestPath repeated / on the reversed read order must return the same path; run-to-run differences of LongestConsensus (Mode ties) and of the unused MaxPath are counted; '
              'fourth pass, histories: oracles on the real object at every query step: the same query twice in a row (hist.query-not-repeatable), a FRESH real graph holding the real object\'s own weight table '
              '(each k-mer pushed as a read of k bases with its weight as count, in both key orders) must give the same answers (hist.stale-answer), topological elimination on the table (hist.hascycle, hist.none-iff-cycle), '
              'table after each mutator recomputed from the table before (hist.push.weights, hist.filter.value), a second real object given the mutators only, runs of pushes reversed and runs of filters collapsed, must end with the same answers (hist.metamorphic); '
              'for the index: kh.query-not-repeatable (Query again after FilterMinCount on the first answer), kh.stale-answer (fresh index, same pushes, never queried); '
              'wave 3, concurrent use: the conc op answers with the sub-cases run alone (recomputed by the sequential model: no new proof obligation) and demands that answer from every call made by g '
              'goroutines at the same time, in a child process so that a Go runtime fatal error (concurrent map writes) is reported as conc.crash with the failing input; Index4mer and Common4Mer '
              'checked against the alone answer; race detector replay in the thorough tier)',
 'level_text': 'Proved for all inputs on the models of the repaired code: encode4_exact (Encode4mer = the codes of the 4-mers in order, none below 4 bases, no '
               'panic); count4_mod (table cell = occurrences modulo 2^16) and count4_exact_partial (exact below 65539 bases) with count4_overflow as '
               'counterexample to the unrestricted statement; canon_exact (for every word width W, every k with 1 <= k and 2k <= W, dense or sparse, every '
               'byte sequence of any length: NewKmerMap does not panic and NormalizedKmerSlice returns, in order, for every window of k unambiguous bases, the '
               'smaller of the k-mer and its reverse complement, central base erased in sparse mode) and canon_strand_invariant (the reverse complement of a '
               'sequence gives the reversed list, hence the same multiset). For the De Bruijn graph (deepening round, all proved): push_weights / '
               'push_weights_iupac (any reads incl. IUPAC ambiguity codes: weight = sum of count x number of windows one of whose readings is the k-mer, '
               'readings over the regenerated table), hasCycle_iff (the DFS answers true iff the graph has a directed cycle, and its fuel never runs out), '
               'heaviest_is_walk, heaviest_terminates (fuel bound hpBound), heaviest_optimal (positive weights: no walk from a source is heavier; '
               'optimal_zero_weight_counterexample shows why counts >= 1 are needed), none_iff_cycle (no path returned iff the graph is cyclic), '
               'single_read_roundtrip / _plain (a single read without repeated (k-1)-mer is returned unchanged; roundtrip_counterexample: "no repeated k-mer" '
               'is not enough). Deepening round 2 (all proved, all inputs): heap_refines_multiset (the verbatim transcription of container/heap up/down/Push/Pop over '
               'UInt64Heap keeps the heap order; Push adds exactly x; Pop removes exactly one element, a minimum) + heap_fuel_adequate; heaviest_transcription '
               '(HaviestPath / LongestConsensus on that binary heap = the sorted-list models, every graph and fuel) and heaviestH_correct (nil iff cycle, walk '
               'from a source, optimality, termination restated on the transcription, which is what the driver runs); consensus_of_multiset (pushing the same '
               'reads in another order gives the same map, HasCycle, path and consensus: the association list is a map; Lemmas/DeBruijnOrder.lean: any two '
               'lists holding the same map give the same results, i.e. Go map iteration order is unobservable in these queries); max_weight_spec, '
               'filter_min_weight_spec (exactly the nodes of weight >= min keep their weight; WF, distinct keys and positivity are preserved, so the path theorems '
               'apply after filtering); for min_cov > 0: trim_spec (complete characterisation of path[from:to], incl. the slice panic when every node is below the '
               'threshold), consensus_cov_spec (result = decoding of the sub-walk between the first and last node reaching the threshold; panic otherwise), '
               'cov_threshold_exact (the float threshold equals floor(mode*min_cov+1/2) when min_cov = a/2^s or an integer and mode*a+2^(s-1) < 2^53; then <= mode '
               'if min_cov <= 1), consensus_cov_no_panic_partial (no panic for min_cov <= 1 under that no-rounding hypothesis), mode_cands_spec, '
               'mode_tie_counterexample (the outcome depends on Go map iteration order inside obistats.Mode when two weights are equally frequent; min_cov = 2 '
               'panics). k-mer index proper: index_exact (without occurrence limit the list under k-mer x is the references in order, each repeated count x times), '
               'query_exact (query not in the index: reference j is reported iff it shares a canonical k-mer occurrence, with the value shared+1 - the code counts '
               'one too many -, independent of the address order), query_strand_invariant. Deepening round 3 (all proved, all inputs): rounding_monotone (the modelled '
               'round-to-nearest-even is monotone on every grid 2^e x N and never crosses a representable value K x 2^f, K <= 2^53, from either side), cov_threshold_le_mode '
               '(threshold <= mode for EVERY float min_cov = m x 2^-s <= 1 and every mode < 2^52) and consensus_cov_no_panic (the full no-panic theorem: no rounding '
               'hypothesis left; only mode < 2^52), cov_threshold_above_mode_counterexample (the bound is sharp: mode = 2^52+1, min_cov = 1 gives mode+1 and the real code '
               'panics); single_read_roundtrip_iff / _acgt (a single read of plain bases comes back unchanged IFF no (k-1)-mer is repeated; a repeated one closes the '
               'cycle x_i -> ... -> x_(j-1) -> x_i, HasCycle is true and the result is the error, for every fuel); canon_full_width (2k = W, any even k) with the boundary '
               'configurations of the three word types; push_weights_cut (a read a ++ [b] ++ c with b outside the IUPAC table counts exactly as a), '
               'win_count_by_membership (a window counts once whatever the number of its readings equal to x); heaviest_tie_break_deterministic (equal-weight paths: the '
               'one returned is a function of the map word -> weight, any two iteration orders of the Go map give the same path and consensus, on the binary-heap '
               'transcription); index_limited_exact (limit M >= 0: a k-mer is indexed, with its complete list, iff it occurs fewer than M times in the references), '
               'query_any_exact (query fresh OR itself a reference: j reported iff j is not the query and shares a k-mer occurrence, value shared+1, for every injective address '
               'rank), query_limited_exact (the same with the limit), query_strand_invariant_any. Wave 3 (concurrent use) adds no theorem: an oracle on the real code, see the note. '
               'Fourth pass (histories on one object, all proved, all histories): query_after_history (for every history of pushes with counts >= 1, filters and queries in any order from MakeDeBruijnGraph(k), 1 <= k <= 32: the observation of a query is the answer of the state '
               'reached by the mutators alone, and equals the answer - map, HasCycle, Len, MaxWeight, HaviestPath, LongestConsensus(id,0), outcomes of LongestConsensus(id,min_cov) - of the FRESH graph rebuilt from the weight table by pushing every k-mer as a read of k bases, '
               'which is what the harness builds from the real table), history_metamorphic (a run of pushes may be permuted inside any history, two filters in a row = one filter with the larger uint threshold fmax, queries can be deleted: same final map and answers), '
               'index_query_after_history (KmerMap: the observation of Query + FilterMinCount is a function of the index reached by the pushes; a query leaves the state unchanged; a run of Push with one limit from the empty index is the indexing loop of NewKmerMap). '
               'Lemmas/DeBruijnHist.lean: Graph.Inv preserved by every step, after_equiv, pushes_perm_from (any reachable base state), fresh_equiv, answer_equiv, filterMinWeight_filterMinWeight.',
 'level_note': 'Trusted: Lean kernel; the transcriptions Model/Kmer.lean and Model/DeBruijn.lean; obifp words are modelled as naturals below 2^W with '
               'LeftShift = (x * 2^n) mod 2^W, RightShift = x / 2^n, And/Or = Nat.land/lor, Not = 2^W-1-x, Sub panicking on underflow - the agreement of '
               'pkg/obifp with that arithmetic is property C20 (and is exercised here on Uint64/128/256 by the correspondence); the Go map of the graph is an '
               'association list (proved order-independent: consensus_of_multiset); weights as naturals (no uint/int overflow). min_cov: the three float64 '
               'operations are modelled exactly as round-to-53-bits-ties-to-even of the exact result with unbounded exponent (no overflow; the multiplication and '
               'the addition rounded separately = amd64 GOAMD64=v1; an FMA-fusing target agrees whenever cov_threshold_exact applies); obistats.Mode is a parameter '
               'of the model ranging over modeCands - on a tie the driver accepts the outcome observed on the real code iff it is one of the candidates (the harness '
               'shows the run-to-run difference on the real code: gc:run-to-run-difference-observed). Query is modelled as repaired by C19-query-self-last (the unrepaired '
               'code reported the query sequence itself iff its address was the largest of the matched ones); the model still sorts by the address ranks of the real run, '
               'query_any_exact / query_limited_exact prove the answer independent of them. Domain limit proved sharp: node weights >= 2^52 (cov_threshold_above_mode_counterexample). '
               'Not modelled, no theorem: KmerMatch.Max, KmerMatch.Sequences (obikmersim match: the order of the matched sequences is the iteration order of a Go map), '
               'MaxHead/MaxNext/MaxPath/BestConsensus/LongestPath/WeightMode/WeightMean/WeightSpectrum/HammingDistance (called by no command; MaxPath differs run to run '
               'when two heads have the same weight: stat g:MaxPath-run-to-run-difference), Gml/WriteGml (obiconsensus --save-graph only; node ids follow map order, floats). '
               'Which of several equally heavy paths is returned is proved deterministic but has no closed-form characterisation beyond the example. The float model has an '
               'unbounded exponent (no overflow/subnormal result: mode x min_cov + 0.5 lies in [0.5, 2^63)). '
               'Histories: the real structs hold NO cached answer today (DeBruijnGraph: kmersize, kmermask, prevc, prevg, prevt, graph; KmerMap: index, Kmersize, kmermask, leftMask, rightMask, sparseMask, SparseAt; KmerMatch is a map owned by the caller), '
               'so there is no cache to transcribe: the model of the object is the state machine Graph.apply / Graph.trace (Model/DeBruijnHist.lean) and query_after_history / history_metamorphic are the specification that the gh / kh operations enforce on the real object '
               '(by correspondence after every prefix, and by the fresh-graph and second-object oracles on the real code); a future cached field is caught by these oracles (seeded C19-m5: HasCycle memo not dropped by FilterMinWeight -> hist.stale-answer, hist.hascycle, hist.none-iff-cycle, hist.metamorphic and 158 correspondence differences) but is not proved absent. '
               'On a Mode tie the c step of gh is compared with the fresh graph only when the mode of the path weights is unique (stat gh:cov-mode-tie otherwise; the model still checks that the outcome is one of the candidates). Histories interleave one goroutine only. '
               'Concurrency: the theorems are about ONE call; what runs concurrently in the commands (read in pkg/obitools): obitag / obitag2 workers (MakeIWorker x CLIParallelWorkers) call '
               'Count4Mer(record, nil, nil) - buffer and table of the call - then Common4Mer against the shared read-only reference tables; obipairing / obikmersim-align workers call Index4mer on the '
               'index and buffer of the arena OF THE WORKER and FastShiftFourMer -> Encode4mer(record, nil); obikmersim workers share ONE KmerMap[Uint128] built before they start and call Query '
               '(-> NormalizedKmerSlice(record, nil)), FilterMinCount, Len, Sequences on the KmerMatch of the call (with --self a record is also a reference, handled by one worker); obirefidx fills its '
               'tables from one goroutine; obiconsensus calls BuildConsensus from ONE goroutine (one DeBruijnGraph per call, never shared) - the g / gf sub-cases of conc run independent graphs from '
               'several goroutines, which is the library contract of a per-call object, not something a command does today. Shared by everything: the package tables __single_base_code__, iupac, '
               'revcompnuc, decode (read only). No theorem covers interleavings: the conc op is an oracle only (alone answer = the sequential model; equality under g goroutines is observed, '
               'not proved). It cannot see a lazily initialised table published without synchronisation (the alone run initialises it first) nor state shared between a sequence record and itself.',
 'trusted_base': LEAN_TB + ['extract/ (go/ast literal extraction of iupac, revcompnuc, decode, __single_base_code__)',
 'naive string/big-integer k-mer references, Kahn and walk enumeration oracles, big.Float threshold reference in harness/c19.go',
 'C20 for the meaning of the obifp operations',
 'harness/c19_conc.go (goroutine fan-out, child process, parsing of the race detector report)',
 'harness/c19_hist.go (fresh graph from the table, second object, Kahn on the table, window expansion after a push)'],
 'modelled': 'pkg/obikmer encodefourmer.go (Encode4mer), counting.go (Count4Mer), kmermap.go (NewKmerMap parameters and masks, NormalizedKmerSlice, '
             'KmerAsString), debruijn.go (MakeDeBruijnGraph, Push, Weight, Nexts, Previouses, Heads, HasCycle, HaviestPath, DecodeNode, DecodePath, '
             'LongestConsensus with min_cov = 0 and > 0, Len, MaxWeight, FilterMinWeight, UInt64Heap + container/heap up/down/Push/Pop), kmermap.go (Push, the '
             'indexing loop and final filter of NewKmerMap, Len, Query, FilterMinCount), obistats.Mode (as the set of its possible answers); the objects as state machines under histories of Push / FilterMinWeight / queries and Push / Query / FilterMinCount (Model/DeBruijnHist.lean) - as repaired by '
             'notes/patches/C19-*.diff (six patches, incl. C19-query-self-last)',
 'assumptions': ['read counts >= 1 and total weights below 2^63',
                 'k >= 1; for the index 2k <= width of the word type; for the graph k <= 32 (property: 2..31)',
                 'bytes outside the IUPAC table are outside the contract of Push (modelled as the repaired code behaves: they end the enumeration of the read)',
                 'min_cov finite, > 0, mode x min_cov below 2^63; float multiplication and addition not fused; no-panic statement: node weights below 2^52',
                 'Query: distinct sequences have distinct addresses (rank injective on the references)',
                 'HaviestPath on the empty graph panics in the code (log.Panicf "Cycle detected"); LongestConsensus guards it with "graph is empty"']}


# ---- glue pass (commands obikmersimcount / obikmermatch; harness/c19_glue.go, Model/KmerSim.lean, Props/C19Glue.lean)
CFG['rule'] += ('; glue pass: ks = the COMMANDS obikmersimcount / obikmermatch in process through their real path: argv -> obioptions.GenerateOptionParser(CountOptionSet | MatchOptionSet) '
    '(long names or the aliases -k -S -m -M -s -r, options absent = defaults, negative values as --name=-1, --max-cpu 2..5, --batch-size 1..2000), references read from a FASTA file by CLIReference, reads read from a file by '
    'obiconvert.CLIReadBioSequences or given as batches, NilIBioSequence with --self as main.go does, CLILookForSharedKmers / CLIAlignSequences, annotations of the records written; '
    'generator (242 quick / ~650 x 8 thorough): EVERY requested k 2..64 x sparse/dense (126 cases) + 0, 1, 65, 66, 70, each with 3-9 references (a duplicated reference, references shorter than / of exactly k bases, '
    'ambiguity codes, upper case) and 8-14 reads always with their reverse complement: one window of a reference, one base short, three windows with the central base of the middle one changed (only the sparse k-mer survives), '
    'unrelated, chimera of two references, a whole reference, two separate windows (shared = 2); random: k biased to 30..34, 62..64 and the default, --min-shared-kmers d/-1/0..6, --max-kmers d/-1/0..8, --self, 20% obikmermatch; '
    'three pinned lines first (64 --sparse: the defect of the unchanged code; 63 --sparse; 32 --sparse with reads of exactly 33 bases)')
CFG['technique'] += ('; glue pass: model of the glue (Model/KmerSim.lean) composed with the kernel theorems into cli_* theorems; correspondence on the annotations of every record; oracle = brute force on the raw strings '
    '(big-integer canonical k-mers of the EFFECTIVE size, occurrence limit, shared occurrences, the rule shared+1 >= min), independent of the index, of the word type and of the glue: cli.match-count, cli.kmer-size, cli.sparse-flag, '
    'cli.strand (read vs its reverse complement), cli.records (one record per read, none unexpected), cli.match.id / cli.match.count-inconsistent (obikmermatch), cli.kmer-too-wide')
CFG['level_text'] += (' Glue pass (Props/C19Glue.lean, all proved, all inputs): newKmerMap_fields (any width / requested size: the index works on the type-argument width with k = effK, odd sparse / even dense), '
    'cli_word_holds_kmer (for EVERY command line: when the command gets past the index construction the word is 128 bits, the size is the one NewKmerMap derived - not the requested one - and 2 x size <= 128; stated over the real derivation newKmerMap 128 (uint(_KmerSize)) _Sparse), '
    'cli_accepts + cli_requested_range (every --kmer-size 2..64 sparse or not except 64 --sparse is accepted with valid masks; 64 --sparse and 66 are refused: evaluated), '
    'cli_kmersim_exact (obikmersimcount writes one record per read, in order - the references themselves with --self - with obikmer_match_count = number of references other than the read sharing >= 1 and >= min-1 canonical k-mer occurrences of the effective size '
    'on the raw strings, k-mers reaching --max-kmers ignored; obikmer_kmer_size = effective size; obikmer_sparse_kmer = mode; any address order), cli_reads (no read dropped, --self = the references under their own identity), '
    'cli_kmersim_strand_invariant (reads replaced by their reverse complements: same records), cli_kmermatch_candidates (obikmermatch: the candidates given to the aligner are exactly those references, each once, and their number is obikmer_match_count). '
    'Lemmas/KmerSim.lean: kmQuery_nodup (the KmerMatch is a map), candidates_length (Len after FilterMinCount = number of references satisfying the lookup characterisation), shared_eq_spec / sharedLim_eq_spec (word-level statistic = string-level statistic).')
CFG['level_note'] += (' Glue: obikmersimcount / obikmermatch, command line to bytes: (1) option variables and getters --kmer-size/-k (30, uint()), --sparse, --min-shared-kmers (1), --max-kmers (-1), --self, --reference: TIED through the real parser (both spellings, defaults), modelled as Opts; '
    '(2) CLIReference (ExpandListOfFiles, ReadSequencesBatchFromFiles.Load): tied (one FASTA file; several reference files / --no-order not exercised: the count does not depend on the order of the references, cli_kmersim_exact for every rank); '
    '(3) NewKmerMap[Uint128](refs, uint(CLIKmerSize()), CLISparseMode(), CLIMaxKmerOccurs()): word width and effective k MODELLED + PROVED (cli_word_holds_kmer) + tied for every k 2..64 x sparse; '
    '(4) checkKmerSize (patch C19-kmersim-kmer-too-large; Fatalf after the index is built): modelled, tied (fatal for 64 --sparse, 65 --sparse, 66, 70); '
    '(5) choice of the reads, main.go (NilIBioSequence iff --self) + IBatchOver(references): modelled (queries, cli_reads); the three lines of main.go are REPLICATED in the harness, not executed (the binary is not run); '
    '(6) MakeCountMatchWorker (Query, FilterMinCount, Len, three annotations): modelled + proved + tied; MakeIWorker x CLIParallelWorkers + FilterEmpty: tied (2-5 workers, batches of 1..2000: every read comes out once), order of the output not compared (records matched by id); '
    '(7) MakeKmerAlignWorker: candidate selection and obikmer_match_count modelled + proved (cli_kmermatch_candidates) + tied (count of the written records, obikmer_match_id among the candidates, each once); which candidates pass the alignment filter '
    '(ReadAlign, BuildQualityConsensus, identity >= 0.8) is property C08 code: data for the model (obs mask), not modelled; the order of the records of one read follows Go map iteration (KmerMatch.Sequences); --delta / --penality-scale / --gap-penality / --fast-absolute only parsed; '
    '(8) CLIWriteBioSequences: not run (the records are read from the iterator the command functions return). '
    'Observation outside C19 statement: --min-shared-kmers m keeps the references with shared+1 >= m, i.e. m-1 shared occurrences (m = 1 and m = 2 select the same references; stat ks:min-shared-off-by-one-visible counts the reads on which the documented reading would differ). '
    'Sizes below 2: 0 / 1 dense give no k-mer (kmersize 0), 1 sparse the empty k-mer (everything of >= 1 base matches): model = code, outside the property; negative --kmer-size becomes a huge uint: not exercised. '
    'obiconsensus (BuildConsensus and callers) glue, read but NOT covered by this pass: --kmer-size (-1 = estimated as longest repeated suffix + 1 through obisuffix), --low-coverage -> min_cov, --save-graph (Gml, fasta of the pack), --no-singleton / --unique (obiuniq after), --cluster; '
    'CLIOBIMinion: Load, SeqBySamples (records with stats on the sample key enter every sample they have), per sample BuildDiffSeqGraph (D1Or0 / FastLCSScore: C13), MinionDenoise (degree > 4: BuildConsensus of neighbours + self) / MinionClusterDenoise (heads); '
    'BuildConsensus: 0 reads -> error, 1 read -> copy flagged obiconsensus_consensus=false, loop MakeDeBruijnGraph(k) + Push all + HasCycle -> k++ with NO upper bound (beyond k = 32 the uint64 word no longer holds the k-mer: kmermask all ones; it ends when k exceeds every read: empty graph, error "graph is empty"), '
    'LongestConsensus(id, min_cov), annotations; on error the callers fall back to a copy of the vertex. The kernel calls it makes are the g / gf / gc / gh operations; the loop, the estimate of k and the fall-back are neither modelled nor tied.')
CFG['modelled'] += ('; glue pass: pkg/obitools/obikmersim options.go (option variables, getters), obikmersim.go (CLILookForSharedKmers, CLIAlignSequences up to the aligner, MakeCountMatchWorker, candidate selection of MakeKmerAlignWorker, checkKmerSize) '
    'and the choice of the reads of cmd/obitools/obikmersimcount|obikmermatch/main.go - as repaired by notes/patches/C19-kmersim-kmer-too-large.diff (seventh patch)')
CFG['assumptions'] += ['glue: --max-kmers absent, -1 or >= 0 (below -1 nothing is indexed); effective k-mer size >= 1 for the cli_* count theorems; one reference file']
CFG['trusted_base'] += ['harness/c19_glue.go (argv construction, FASTA files, brute-force expectation on strings; replicates the NilIBioSequence / --self lines of main.go)',
                        'pkg/obitools/obikmersim/verif_hooks_c19.go (VerifResetOptions: initial values of the option variables)']

# ---- short glue pass: obikmermatch under concurrent use (harness/c19_match.go, `kmc` clause of Driver/C19.lean; seeded C07-m6)
CFG['rule'] += ('; kmc = obikmermatch under concurrent use: options through the real parser, references through the real CLIReference, ONE index + ONE MakeKmerAlignWorker closure built as '
    'CLIAlignSequences builds them; alone answers = that worker called on one read after the other (every record kept whole: consensus, qualities, every annotation), result line = the ks match '
    'line of the distinct reads (recomputed by KmerSim.cliAlignCandidates); then r rounds in a child process, each round (A) the real CLIAlignSequences and (B) the same pipeline '
    '(IBatchOver -> MakeIWorker x CLIParallelWorkers -> FilterEmpty) on the worker and references of the alone phase, over rep shuffled copies of reads of BOTH strands of the same 2-6 close references, '
    '8-12 workers (12-16 thorough), batches of 1-6 reads, an observer goroutine reading the references meanwhile; oracles conc.differs (read by read against the alone answers: missing / duplicated record, match id, orientation, '
    'candidate list, consensus, any annotation), conc.reference-modified (the shared references against their original bytes during and after every round and after the sequential phase), conc.crash, '
    'cli.match.alone-differs (CLIAlignSequences on one batch vs the worker called read by read); quick 2 cases x 3 rounds x ~250 reads (~1.3 s), thorough 4 cases x 6 rounds x ~600 reads per seed')
CFG['level_note'] += (' obikmermatch concurrency inventory (kmc): CLIAlignSequences builds ONE KmerMap[Uint128] and ONE closure MakeKmerAlignWorker, handed to MakeIWorker x CLIParallelWorkers (= --max-cpu; '
    'every worker goroutine calls the same closure on the reads of its batches). SHARED by the workers: the KmerMap (read only after NewKmerMap) and the REFERENCE RECORDS it points to - KmerMatch.Sequences() returns the stored '
    'pointers, and ReadAlign (Index4mer on the read, FastShiftFourMer / Encode4mer on the reference, seqB.ReverseComplement(false) = fresh copy), BuildQualityConsensus (Sequence(), Qualities() of the reference or of its fresh reverse complement) '
    'read their bytes without any lock; with --self a reference is also a query record (not exercised by kmc: self = 0); the default quality slice (patch C07-default-qualities-race); the score tables of obialign (_InitDNAScoreMatrix, once). '
    'PER CALL: the arena (MakePEAlignArena(150,150)), the shift map, the KmerMatch, the k-mer buffer (nil), the result slice, the reverse complement of the reference, the consensus record. '
    'Tied by the kmc oracle only (observed for the schedules that occur, not proved): no theorem says that the worker leaves the references untouched; the Lean model has immutable references, so a regression that mutates a shared '
    'reference and restores it (seeded C07-m6: in-place ReverseComplement around BuildQualityConsensus, sequentially exact) is invisible to the model and to every sequential case and is caught by kmc alone '
    '(validated: conc.differs + conc.reference-modified on both quick cases of seeds 1-3 on the seeded tree, quiet on the unchanged tree). A read whose alone answer is not reproducible (stat kmc:alone-unstable, never seen) is left out of the comparison. '
    'Not covered: --self under concurrent use, references with qualities (FASTA only), the writer of the command, several reference files.')
CFG['trusted_base'] += ['harness/c19_match.go (replicates the five lines of CLIAlignSequences that build the index and the worker, to keep a handle on the references; round A runs the real function)']

# ---- short glue pass: the obiconsensus command level (harness/c19_cons.go, Model/Consensus.lean, Lemmas/Consensus.lean, Props/C19Cons.lean)
CFG['lean_modules'] += ['ObiVerif.Props.C19Cons']
CFG['rule'] += ('; cons = the real obiconsensus.BuildConsensus(seqs, id, kopt, 0, false, "") on one pack of reads (125 quick / 715 x 8 thorough): 15 pinned lines (0 reads, 1 read, a cycle at every size up to the longest read + 1 -> error, '
    'chimera forcing 3 -> 5, every read shorter than k, reads of exactly k bases, an empty read with and without the estimate, periodic reads taking the loop through 33..41, --kmer-size 31 rising above 32, ambiguity codes and upper case), '
    'then clean amplicon of 25-65 bases + 1-4 low-count variants (substitution, ambiguity code, truncation), amplicon + chimera end-of-amplicon ++ start-of-amplicon closing a cycle at small k (kopt 2..9, 29..33 or estimated), '
    'kopt around the read length (reads of exactly k, k-1, k+1 bases, all shorter), periodic reads (unit 1-3 bases, cycles at every size, up to beyond 32), 0 / 1 read, empty reads, dense graphs on 2-3 letters; a third of the packs shuffled')
CFG['technique'] += ('; obiconsensus pass: model of BuildConsensus and of the choice of MinionDenoise on top of the graph model, cli_* theorems composed from hasCycle_iff / heaviestH_correct / push_weights; correspondence on outcome, k-mer size, consensus, weight, max occurrence, graph size; '
    'oracle = brute-force graph on strings (IUPAC readings per window, Kahn elimination, dynamic programming for the heaviest walk from a source) at every size of the sequence of trials from the option or from a naive longest-repeated-substring estimate: '
    'cons.kmer-size (the annotation is the smallest acyclic size of the trials), cons.not-a-walk / cons.not-heaviest (k <= 32), cons.weight, cons.annotation, cons.fallback (error iff that graph is empty), cons.single, cons.noseq')
CFG['level_text'] += (' obiconsensus pass (Props/C19Cons.lean, all proved, all inputs): consensus_loop_terminates (the k-mer size loop of BuildConsensus, which has no bound in the code, ends for every pack and every starting size within maxLen + 2 - k0 trials at a size k0 <= k <= max(k0, longest read + 1), '
    'k being the smallest size of the trials k0, k0+1, ... whose graph has no directed cycle: at longest read + 1 Push ignores every read and the empty graph is acyclic), cli_consensus_exact (>= 2 reads, --low-coverage 0: BuildConsensus = LongestConsensus of the graph of ALL the reads, each pushed once with its count, '
    'at that k; annotations kmer_size = k, weight = sum of the counts, kmer_max_occur = MaxWeight, graph sizes = Len; the empty graph is the error "graph is empty" i.e. the fall-back of the caller), cli_consensus_heaviest_partial (1 <= k <= 32, counts >= 1: the graph has the weights of push_weights, the answer is the decoding of a walk from a node without predecessor that no such walk outweighs), '
    'consensus_above_32_counterexample (evaluated: --kmer-size 33 returns a + the last 32 bases of the read instead of the read), cli_denoise_vertex (MinionDenoise writes a consensus iff the vertex has more than 4 neighbours and BuildConsensus(neighbours ++ [vertex]) succeeded; otherwise the sequence of the vertex flagged false, weight 1).')
CFG['level_note'] += (' obiconsensus glue (short pass; supersedes the "read but NOT covered" list above for BuildConsensus): (1) 0 reads -> error, 1 read -> copy flagged false: modelled + tied; (2) kmer_size < 0 -> estimate = 1 + longest substring occurring twice in one read, max over the reads (obisuffix on each read alone): modelled BY ITS SPECIFICATION (lrs), tied (33 quick cases) and checked against a naive oracle, the suffix sort itself is not transcribed; '
    'an EMPTY read makes slices.Max panic (stat cons:empty-read-estimate-panic; a record without base inside a pack: outside the contract, modelled as panic); (3) the loop MakeDeBruijnGraph(k) + Push all + HasCycle -> k++: modelled + PROVED to end (consensus_loop_terminates) + tied (trials 1 / 2-3 / >= 4 in the statistics); no upper bound in the code: it does go beyond 32 (periodic reads, a long chimera, or simply --kmer-size 40), '
    'where the uint64 word holds the last 32 bases, prevc/g/t = 0, Heads() is wrong and the consensus starts with k-32 spurious a - model = code there (tied), the heaviest-walk oracle is switched off (stat cons:k>32-consensus-not-a-heaviest-walk) and the theorem is _partial; PROPOSED FINDING (outside the k = 2..31 of the property): sig cons.k-above-32; '
    '(4) LongestConsensus(id, min_cov): min_cov = 0 only here (--low-coverage > 0 is the gc operation of the kernel; its pass-through from CLILowCoverage() is read, not tied); (5) annotations obiconsensus_consensus / _weight / _seq_length / _kmer_size / _kmer_max_occur / _filtered_graph_size / _full_graph_size (the two sizes are the same Len: nothing is filtered): modelled + tied; '
    '(6) --save-graph (fasta of the pack, Gml): not covered; (7) MinionDenoise: the choice degree > 4 / fall-back on error modelled + proved (cli_denoise_vertex), NOT tied; CLIOBIMinion (Load, SeqBySamples by the --sample attribute, BuildDiffSeqGraph = C13 kernels, --cluster, --unique / --no-singleton = obiuniq, the writer) and the option parser of obiconsensus: read, not modelled, not tied '
    '(a regression grouping by the wrong attribute is not seen). Observation: BuildConsensus pushes every read with its TOTAL Count(), not its count in the sample being denoised.')
CFG['modelled'] += '; obiconsensus pass: pkg/obitools/obiconsensus obiconsensus.go BuildConsensus (without --save-graph; the estimate by its specification) and the per-vertex choice of MinionDenoise'
CFG['assumptions'] += ['obiconsensus: --kmer-size >= 1 or negative (0 not exercised); --low-coverage 0; path theorems for a final k <= 32; no read without base when the size is estimated']
CFG['trusted_base'] += ['harness/c19_cons.go (string-level brute-force graph, Kahn, heaviest-walk DP, naive longest repeated substring)']
