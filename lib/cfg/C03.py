from common import LEAN_TB

CFG = {'lean_modules': ['ObiVerif.Props.C03'],
 'gen': False,
 'thorough_seeds': 8,
 'rule': 'cases = (combinator, parameters, input streams as arrival-ordered lists of numbered batches): random partitions of 0..40 records into 0..6 batches '
         '(sizes >= 0) in a random arrival order, 1..4 workers, empty first/middle streams for concat, a few histories with a gap (outside the contract), '
         'every arrival permutation of n<=5 batches in the thorough tier; non-trivial = distinct well-formed case (not bad-op)',
 'technique': 'Lean 4 theorems on functional models of the obiiter combinators for every batch partition and arrival permutation + differential correspondence '
              'with the real combinators driven in forced arrival orders + exactly-once/in-order oracle',
 'level_text': 'Each combinator (SortBatches, Rebatch, FilterEmpty, Concat, DivideOn, FilterOn, MakeISliceWorker, Distribute, PairTo, Pool, IBatchOver) is '
               'transcribed as a function on arrival-ordered batch lists; the theorems listed in the evidence state, for every partition into batches (empty '
               'ones included) and every arrival permutation, that the output is numbered 0,1,2,... and carries exactly the records it must, in input order. '
               'The transcription is tied to the real goroutine-based code by pushing the same arrival histories through real iterators and comparing the '
               'delivered (number, ids) lists; an oracle checks exactly-once/in-order/numbering directly on the real output.',
 'level_note': "Trusted: Lean kernel; the transcription (Model/Iter.lean). Partial: 'always terminates' — the functional model cannot deadlock; channel "
               'blocking, WaitAndClose and the shared finished flag of Split clones are exercised under a 5 s watchdog only. IFragments and '
               "IMergeSequenceBatch are not modelled here (fragmenting is covered by C11's oracle, merging by C06).",
 'trusted_base': LEAN_TB + ['Go channels/WaitGroup semantics (runtime)', 'obiseq.BioSequence identity carried by the id string'],
 'modelled': 'pkg/obiiter batchiterator.go (SortBatches, Concat, Pool, Rebatch, FilterEmpty, DivideOn, FilterOn, IBatchOver), workers.go (MakeISliceWorker), '
             'distribute.go (Distribute), paired.go (PairTo)',
 'assumptions': ['each upstream batch number is pushed once (Contract)', 'PairTo is used on streams with the same number of records']}
