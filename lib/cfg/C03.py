from common import LEAN_TB

CFG = {'lean_modules': ['ObiVerif.Props.C03', 'ObiVerif.Props.C03S'],
 'gen': False,
 'thorough_seeds': 8,
 'rule': 'cases = (combinator, parameters, input streams as arrival-ordered lists of numbered batches): random partitions of 0..40 records into 0..6 batches '
         '(sizes >= 0) in a random arrival order, 1..8 workers, empty first/middle streams for concat; worker-stage cases: per-record workers of fan-out 0..20 '
         '(constant or varying inside a batch, optionally failing records, breakOnError on/off) on batches of 0..4 (thorough: 1..12) records through '
         'SeqToSliceWorker / SeqToSliceConditionalWorker alone and through MakeIWorker / MakeIConditionalWorker / MakeISliceWorker / ChainWorkers (2..3 stages) with '
         '1..8 goroutines, every fan-out 0..20 x every batch size systematically; random pipelines of 3..4 stages; histories with a gap or a duplicated number '
         '(outside the contract: explicit outcomes in the statistics); every arrival permutation of n<=5 batches in the thorough tier; '
         'non-trivial = distinct well-formed case (not bad-op)',
 'technique': 'Lean 4 theorems on functional models of the obiiter combinators for every batch partition and arrival permutation, a verbatim model of the '
              'growth loop of the record-to-slice adapters, and a small-step transition system of the goroutines/channels of a worker stage + SortBatches '
              '(safety invariant, deadlock freedom, ranking function) + differential correspondence with the real combinators driven in forced arrival '
              'orders + exactly-once/in-order oracle with independent naive references',
 'level_text': 'Each combinator (SortBatches, Rebatch, FilterEmpty, Concat, DivideOn, FilterOn, MakeISliceWorker, Distribute, PairTo, Pool, IBatchOver, and now '
               'MakeIWorker, MakeIConditionalWorker, ChainWorkers with the adapters SeqToSliceWorker / SeqToSliceConditionalWorker, IFragments, '
               'IMergeSequenceBatch, LimitMemory/Speed, Load/Count/CompleteFileIterator, CopyTee, PairedWith) is transcribed as a function on arrival-ordered '
               'batch lists; the theorems of Props/C03.lean state, for every partition into batches (empty ones included) and every arrival permutation, that '
               'the output is numbered 0,1,2,... and carries exactly the records it must, in input order. New in this round: (12) the output-slice growth loop of '
               'the adapters is modelled cell by cell (len=cap slice, write index, slices.Grow with ANY capacity function g that gives a full non-empty slice more '
               'room) and proved equal to flatMap for every fan-out >= 0 and batch size, with breakOnError / failing records / the condition '
               '(seqToSlice_keeps_all, seqToSlice_flatMap, seqToSlice_breakOnError, seqToSliceCond_spec, chainWorkers_spec = composition, iWorker_spec, '
               'iWorker_breakOnError, iCondWorker_spec); (13) "always terminates": Model/ReseqSteps.lean is a transition system (producer, N workers sharing the '
               'input channel, SortBatches with its received map and next counter, the three WaitAndClose closers, consumer; channel capacity cap >= 0 with '
               'direct hand-off, cap = 0 being the unbuffered channels of the code) with reseqStage_safety (each batch at exactly one place in every reachable '
               'state, sent prefix = 0..next-1), reseqStage_progress (a non-final state always has an enabled step; every step decreases rank) and '
               'reseqStage_terminates_delivers (every execution has <= 8n+N+4 steps, a stuck execution is final, every final state has delivered 0..n-1 in '
               'order with nothing left anywhere, and this equals Iter.sortBatches / Reseq.run applied to the order in which the sorter received the batches) '
               '- for every N >= 1, cap >= 0, source order and scheduling; (14) fragments_spec, mergeBatches_spec, passThrough_spec, load_spec, load_perm, '
               'pairedWith_aligned. The transcription is tied to the real goroutine-based code by pushing the same arrival histories through real iterators '
               'and comparing the delivered (number, ids) lists; an oracle checks exactly-once/in-order/numbering directly on the real output.',
 'level_note': "Trusted: Lean kernel; the transcriptions (Model/Iter.lean, IterWorker.lean, IterMore.lean, ReseqSteps.lean). Partial: the small-step model covers "
               "ONE stage shape (source -> N workers -> SortBatches -> consumer); the other combinators' goroutines (Rebatch, Concat, Pool, DivideOn, Distribute, "
               "PairTo) are single producer loops over the same Push/Next/Done/WaitAndClose protocol and are exercised under a 5 s watchdog only; the ~1 ms polling "
               "loop of WaitAndClose and the pushBack flag are not modelled (WaitAndClose = 'all Done and channel empty -> close'). The transition system is a "
               "Prop-level model: it is not executed against the code (its big-step result is proved equal to the executable Reseq model, which is). "
               "SeqToSliceConditionalWorker is modelled as the code is: records that do not satisfy the condition are NOT delivered (no command uses "
               "MakeIConditionalWorker). IMergeSequenceBatch on an empty group panics inside a library goroutine (Merge indexes sequences[0]): explicit outcome of "
               "the model (mergeBatches_empty_group), recorded but not executed by the harness; groups come from the obiuniq chunker and are never empty. "
               "The geometry of the fragments (IFragments cut) is C11's subject: here only that each record gives >= 1 fragment and that the stage keeps "
               "numbering/order; the cut itself is compared with an independent reference in the harness. A nil worker / nil condition of the adapters "
               "(pass-through branches) is not modelled. Inputs outside the order contract (gap / duplicate number): model and code agree (SortBatches silently "
               "drops everything from the first missing number on; a duplicate replaces or is dropped) - explicit statistics, not a property claim.",
 'trusted_base': LEAN_TB + ['Go channels/WaitGroup semantics (runtime) as rendered by the Step relation of Model/ReseqSteps.lean',
                            'slices.Grow(s, cap(s)) gives a full non-empty slice strictly more room (hypothesis Grows g)',
                            'obiseq.BioSequence identity carried by the id string'],
 'modelled': 'pkg/obiiter batchiterator.go (SortBatches, Concat, Pool, Rebatch, FilterEmpty, DivideOn, FilterOn, IBatchOver, Load, Count, CompleteFileIterator; '
             'Push/Next/Done/WaitAndClose/Split as a transition system), workers.go (MakeISliceWorker, MakeIWorker, MakeIConditionalWorker), distribute.go (Distribute), '
             'paired.go (PairTo, PairedWith), fragment.go (IFragments), merge.go (IMergeSequenceBatch), pipe.go (CopyTee), limitmemory.go, speed.go (pass-through); '
             'pkg/obiseq worker.go (SeqToSliceWorker, SeqToSliceConditionalWorker, ChainWorkers)',
 'assumptions': ['each upstream batch number is pushed once (Contract)', 'PairTo is used on streams with the same number of records',
                 'IMergeSequenceBatch receives non-empty groups', 'at least one worker goroutine (N >= 1)']}
