from common import LEAN_TB

CFG = {'lean_modules': ['ObiVerif.Props.C03', 'ObiVerif.Props.C03S', 'ObiVerif.Props.C03P'],
 'gen': False,
 'thorough_seeds': 8,
 'rule': 'cases = (combinator, parameters, input streams as arrival-ordered lists of numbered batches): random partitions of 0..40 records into 0..6 batches '
         '(sizes >= 0) in a random arrival order, 1..8 workers, empty first/middle streams for concat; worker-stage cases: per-record workers of fan-out 0..20 '
         '(constant or varying inside a batch, optionally failing records, breakOnError on/off) on batches of 0..4 (thorough: 1..12) records through '
         'SeqToSliceWorker / SeqToSliceConditionalWorker alone and through MakeIWorker / MakeIConditionalWorker / MakeISliceWorker / ChainWorkers (2..3 '
         'stages) with 1..8 goroutines, every fan-out 0..20 x every batch size systematically; random pipelines of 3..4 stages; histories with a gap or a '
         'duplicated number (outside the contract: explicit outcomes in the statistics); every arrival permutation of n<=5 batches in the thorough tier; '
         'second/third round: DivideOn with the second output never consumed (divideabs: explicit outcome hang as soon as that output gets a batch) or '
         'consumed late and slowly (divideslow); nil worker / nil condition branches of the adapters (adaptnil, 7 variants); chains of 5..6 combinators with '
         '1..16 workers and a fast / slow / bursty consumer (pipec); streams of 2*10^4 (quick) / 10^5 (thorough) records through 5..6 stages (big); the real '
         'obiuniq chain in memory and on disk on streams holding empty batches (uniq, uniqdisk); instrumented SortBatches runs whose event log is replayed on '
         'the transition system (trace); every multi-input / multi-output combinator (Distribute with a slow client of the news channel, Pool, Concat, PairTo, '
         'PairedWith, CopyTee, DivideOn, IFragments, IMergeSequenceBatch) with slow / bursty / late consumers (mslow); the combinators of /repo 01cfd50 called '
         'on an iterator the caller keeps using, paired or not (keepiter); a structural check of the sources of pkg/obiiter (srccheck: no goroutine closure '
         'assigns the receiver / a parameter / a result of the method that starts it); thorough tier, first seed: 13 cases replayed through a `go build -race` '
         'build of the harness (race); non-trivial = distinct well-formed case (not bad-op)',
 'technique': 'Lean 4 theorems on functional models of the obiiter combinators for every batch partition and arrival permutation, a verbatim model of the '
              'growth loop of the record-to-slice adapters, and three small-step transition systems of the goroutines/channels — worker stage + SortBatches '
              '(Model/ReseqSteps), the generic single-loop stage instantiated with Rebatch, FilterEmpty, DivideOn, Distribute, CopyTee, Concat, PairTo, '
              'CompleteFileIterator and the one-push stages (Model/LoopSteps, LoopMachines), and Pool (Model/PoolSteps) — each with safety invariant, deadlock '
              'freedom, ranking function and delivery theorem + differential correspondence with the real combinators driven in forced arrival orders and '
              'consumer paces + exactly-once/in-order oracle with independent naive references + replay of instrumented SortBatches runs on the transition '
              'system + Go race detector (thorough)',
 'level_text': 'Each combinator (SortBatches, Rebatch, FilterEmpty, Concat, DivideOn, FilterOn, MakeISliceWorker, Distribute, PairTo, Pool, IBatchOver, and '
               'now MakeIWorker, MakeIConditionalWorker, ChainWorkers with the adapters SeqToSliceWorker / SeqToSliceConditionalWorker, IFragments, '
               'IMergeSequenceBatch, LimitMemory/Speed, Load/Count/CompleteFileIterator, CopyTee, PairedWith) is transcribed as a function on arrival-ordered '
               'batch lists; the theorems of Props/C03.lean state, for every partition into batches (empty ones included) and every arrival permutation, that '
               'the output is numbered 0,1,2,... and carries exactly the records it must, in input order. New in this round: (12) the output-slice growth loop '
               'of the adapters is modelled cell by cell (len=cap slice, write index, slices.Grow with ANY capacity function g that gives a full non-empty '
               'slice more room) and proved equal to flatMap for every fan-out >= 0 and batch size, with breakOnError / failing records / the condition '
               '(seqToSlice_keeps_all, seqToSlice_flatMap, seqToSlice_breakOnError, seqToSliceCond_spec, chainWorkers_spec = composition, iWorker_spec, '
               'iWorker_breakOnError, iCondWorker_spec); (13) "always terminates": Model/ReseqSteps.lean is a transition system (producer, N workers sharing '
               'the input channel, SortBatches with its received map and next counter, the three WaitAndClose closers, consumer; channel capacity cap >= 0 '
               'with direct hand-off, cap = 0 being the unbuffered channels of the code) with reseqStage_safety (each batch at exactly one place in every '
               'reachable state, sent prefix = 0..next-1), reseqStage_progress (a non-final state always has an enabled step; every step decreases rank) and '
               'reseqStage_terminates_delivers (every execution has <= 8n+N+4 steps, a stuck execution is final, every final state has delivered 0..n-1 in '
               'order with nothing left anywhere, and this equals Iter.sortBatches / Reseq.run applied to the order in which the sorter received the batches) '
               '- for every N >= 1, cap >= 0, source order and scheduling; (14) fragments_spec, mergeBatches_spec, passThrough_spec, load_spec, load_perm, '
               'pairedWith_aligned. The transcription is tied to the real goroutine-based code by pushing the same arrival histories through real iterators '
               'and comparing the delivered (number, ids) lists; an oracle checks exactly-once/in-order/numbering directly on the real output. Second and '
               'third rounds (Props/C03S.lean, Props/C03P.lean): (15) loop_stage_correct — ONE proof for the generic single-loop stage (a loop goroutine '
               'between nin inputs and nout outputs, producers, closers, consumers, lazily opened outputs announced on a news channel, channels of any '
               'capacity, cap = 0 being the code): safety (pushes done so far ++ big-step run of the loop on what is still upstream = big-step run from the '
               'start; what was pushed on j = delivered j ++ channel j), every step decreases rank, no deadlock when every output is consumed, every ended '
               'execution has delivered the big-step pushes in order; instantiated: rebatch_stage (delivered = Iter.rebatch), filterEmpty_stage, divide_stage, '
               'distribute_stage (the loop never pushes on an output it has not announced), tee_stage, map_complete_stage, concat_zip_stage (Concat of any '
               'number of inputs, the zip loop of PairTo with its log.Fatalf state); loop_deterministic; divide_absent_consumer_blocks and '
               'absent_consumer_blocks_every_output: with unbuffered channels an output nobody consumes blocks ALL outputs for ever (same outcome `hang` shown '
               'on the real DivideOn by the divideabs cases; every caller in /repo consumes every output); (16) pool_stage_correct: Pool with N goroutines '
               'sharing the counter: every numbered batch at exactly one place and the numbered batches = Iter.pool of the numbering order, no deadlock, <= '
               '3n+N+1 steps, every ended execution has delivered numbers 0..n-1 each once and exactly the records of all inputs; poolRun_is_execution: the '
               'executable round-robin run the driver compares with Iter.pool is an execution of the relation; (17) adapters_nil_branches, '
               'chainWorkers_nil_branches: the nil worker / nil condition branches of SeqToSliceWorker / SeqToSliceConditionalWorker / ChainWorkers (tied by '
               'the adaptnil cases).',
 'level_note': 'Trusted: Lean kernel; the transcriptions (Model/Iter.lean, IterWorker.lean, IterMore.lean, ReseqSteps.lean, LoopSteps.lean, LoopMachines.lean, '
               'PoolSteps.lean, ReseqTrace.lean). Proved for all inputs / schedulings / capacities: everything listed in level_text. Partial / tied only: (a) '
               'the transition systems are Prop-level models of the goroutines; they are tied to the code three ways, none of which is a proof about Go: the '
               'big-step results are proved equal to the executable functional models that the harness compares with the real combinators (divide / distribute '
               '/ pool also run their machine in the driver: `machine-differs` on any difference); instrumented runs of the real SortBatches (harness-side '
               'pushers and consumer log b/e/d/q/x events around the real channel operations; SortBatches itself cannot be instrumented add-only) are replayed '
               'by Model/ReseqTrace.check on the model state with the very functions the Step relation uses — the replay function itself is NOT proved sound '
               "w.r.t. Step (trusted checker); consumers of every pace (fast / slow / bursty / late / absent) are sampled, not enumerated. (b) Pool's model "
               'folds each input (producer + channel) into the list its goroutine reads; the per-input monotonicity of the new numbers is an oracle of the '
               'harness (pool.stream-order), not a theorem. (c) FilterOn / FilterAnd = worker stage (N Split() clones, Props/C03 section 13 shape) followed by '
               'Rebatch (rebatch_stage): the composition of two proved stages is not itself a transition system. (d) the ~1 ms polling loop of WaitAndClose '
               "and the pushBack flag are not modelled (WaitAndClose = 'all Done and channel empty -> close'). (e) SeqToSliceConditionalWorker is modelled as "
               'the code is: records that do not satisfy the condition are NOT delivered (no command uses MakeIConditionalWorker). (f) IMergeSequenceBatch on '
               'an empty group panics inside a library goroutine (Merge indexes sequences[0]): explicit outcome of the model (mergeBatches_empty_group). '
               'Reachability examined in the third round: the only caller is obichunk.IUniqueSequence (obiuniq, obicleandb); in memory ISequenceChunk pushes a '
               'chunk only if len > 0 and Distribute creates a class only for a record; ISequenceSubChunk forwards batches of length <= 1 unchanged and builds '
               'groups of >= 1 record, the recursion pushes only batches of length >= 2; on disk every chunk file is created for a record and every reader '
               'rejects or drops records without sequence (checked on the binaries: FASTA drops, EMBL / GenBank stop with an error), so a chunk re-read from '
               'disk is never empty: not reachable from a command; the uniq / uniqdisk cases drive the real chain on streams holding empty batches (oracle: no '
               'empty batch, one variant per sequence, counts). (g) /repo 01cfd50 (`iterator = iterator.SortBatches()` written by the goroutine while the '
               "method reads iterator.IsPaired()): the receiver is a value, so the caller's variable cannot change and both values carry the same flag — the "
               'regression changes no delivered record; it is caught structurally (srccheck, every run) and by the race detector (race cases, thorough tier '
               "and change-directed escalation); keepiter checks what the caller can observe. (h) The geometry of the fragments (IFragments cut) is C11's "
               'subject. Inputs outside the order contract (gap / duplicate number): model and code agree (SortBatches silently drops everything from the '
               'first missing number on; a duplicate replaces or is dropped) - explicit statistics, not a property claim.',
 'trusted_base': LEAN_TB + [
                  'Go channels/WaitGroup/atomic counter semantics (runtime) as rendered by the Step relations of Model/ReseqSteps.lean, LoopSteps.lean, '
                  'PoolSteps.lean',
                  'slices.Grow(s, cap(s)) gives a full non-empty slice strictly more room (hypothesis Grows g)',
                  'obiseq.BioSequence identity carried by the id string',
                  'the trace replay function Model/ReseqTrace.check (executable, not proved sound w.r.t. Step)',
                  'Go race detector and go/parser (harness side)'],
 'modelled': 'pkg/obiiter batchiterator.go (SortBatches, Concat, Pool, Rebatch, FilterEmpty, DivideOn, FilterOn, IBatchOver, Load, Count, '
             'CompleteFileIterator; Push/Next/Done/WaitAndClose/Split as transition systems: worker stage + SortBatches, single-loop stage, Pool), workers.go '
             '(MakeISliceWorker, MakeIWorker, MakeIConditionalWorker), distribute.go (Distribute), paired.go (PairTo, PairedWith), fragment.go (IFragments), '
             'merge.go (IMergeSequenceBatch), pipe.go (CopyTee), limitmemory.go, speed.go (pass-through); pkg/obiseq worker.go (SeqToSliceWorker, '
             'SeqToSliceConditionalWorker, ChainWorkers)',
 'assumptions': ['each upstream batch number is pushed once (Contract)',
                 'PairTo is used on streams with the same number of records',
                 'IMergeSequenceBatch receives non-empty groups (shown unreachable otherwise, level_note f)',
                 'at least one worker goroutine (N >= 1) in a worker stage',
                 'every output of a multi-output combinator is consumed (necessary: absent_consumer_blocks_every_output)']}
