from common import LEAN_TB

CFG = {'lean_modules': ['ObiVerif.Props.C07'],
 'gen': True,
 'thorough_seeds': 8,
 'rule': 'cases = all 256 bytes through nucComplement; every string of length <=2 (quick) / <=3 (thorough) over the 19-symbol alphabet; every (from,to) window '
         'incl. out-of-range, linear and circular, of four sequences; random sequences to 500 bases with qualities; position-bearing annotations under rc / '
         'subsequence; random histories of new/copy/rc/rc-in-place/sub/set/recycle on up to 6 objects; non-trivial = distinct well-formed case whose input '
         'byte survives lower-casing',
 'technique': 'Lean 4 theorems (table lemmas by decide over tables regenerated from the source; algebraic laws by induction) + differential correspondence of '
              'the model with the real obiseq methods, including object histories + naive-implementation oracle',
 'level_text': 'Complement involution and agreement of the three complement tables are decided over tables regenerated from /repo on every run; rc∘rc = id, '
               'the in-place two-index loop = reverse∘map complement, rc of a subsequence = mirrored subsequence of rc, circular subsequence = window of s++s, '
               'the coordinate transforms of position-bearing annotations and the frame property of object histories (an operation changes only its target) '
               'are proved for all sequences, lengths and windows on the Lean model (see evidence for the list actually proved). The model is tied to '
               'ReverseComplement / Subsequence / Copy / Recycle by running both on the same lines, object histories included.',
 'level_note': 'Trusted: Lean kernel; transcription Model/SeqOps.lean; extractor (literals only). The sync.Pool of byte slices is not modelled as a heap: '
               "absence of aliasing in the real code is observed through object histories (every operation's effect on every other live object is compared) — "
               'partial for real concurrent reuse.',
 'trusted_base': LEAN_TB + ['extract/ (go/ast literal extraction of _revcmpDNA, revcompnuc, LX_BIO_CDNA_ALPHA)', 'naive reverse complement / window oracles in the harness'],
 'modelled': 'pkg/obiseq revcomp.go (nucComplement, ReverseComplement loop, _revcmpMutation), subseq.go (Subsequence, _subseqMutation), value semantics of '
             'Copy/Recycle',
 'assumptions': ['circular windows are given with to <= len (the code reduces larger values modulo len)']}
