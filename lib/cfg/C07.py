from common import LEAN_TB

CFG = {'lean_modules': ['ObiVerif.Props.C07'],
 'gen': True,
 'thorough_seeds': 8,
 'rule': 'cases = all 256 bytes through nucComplement; every string of length <=2 (quick) / <=3 (thorough) over the 19-symbol alphabet; every (from,to) window '
         'incl. out-of-range, linear and circular, of four sequences; random sequences to 500 bases with qualities; position-bearing annotations under rc / '
         'subsequence; random histories of new/copy/rc/rc-in-place/sub/set/recycle on up to 6 objects; heap histories (new/copy/rc/rci/sub/set/recycle/mapset/'
         'setqual/setfeat/scratch, lengths 0,1,299..301,1024,1025, from=to, to=len, full circular windows, 4-28 steps quick, 100-160 steps for 1 in 10 in thorough) '
         'compared with the heap model run under three pool policies + value semantics; mutator histories (every mutator of BioSequence: Write/WriteByte/'
         'WriteString/Clear/Join(inplace)/SetQualities/WriteQualities/SetAttribute(pairing_mismatches)/SetId/Sequence()[i]=) where after EVERY step the reverse '
         'complement of every live object is asked again and compared with the naive one of its current bases, qualities and pairing_mismatches; whole objects '
         '(rcw/subw: bases + qualities + 0-4 pairing_mismatches entries, keys well-formed, longer, exactly 13 bytes, symbols outside the alphabet, shorter than 13 '
         'bytes, colliding; positions inside and outside; linear, circular and wrapping windows) compared with Model/SeqAnnot.lean, with the oracles rc(rc x)=x and '
         'rc(sub x)=sub\'(rc x) on the whole object evaluated on the real code; joinrc (Join then ReverseComplement, receiver with/without qualities); annkinds (Copy / '
         'rc / sub / circular sub of an object carrying 14 kinds of annotation values: every value of the result edited in place, result recycled, buffers '
         're-allocated, both directions); non-trivial = distinct well-formed case whose input byte survives lower-casing',
 'technique': 'Lean 4 theorems (table lemmas by decide over tables regenerated from the source; algebraic laws by induction) + differential correspondence of '
              'the model with the real obiseq methods, including object histories + naive-implementation oracle',
 'level_text': 'Complement involution and agreement of the three complement tables are decided over tables regenerated from /repo on every run; rc∘rc = id, '
               'the in-place two-index loop = reverse∘map complement, rc of a subsequence = mirrored subsequence of rc, circular subsequence = window of s++s, '
               'the coordinate transforms of position-bearing annotations and the frame property of object histories (an operation changes only its target) '
               'are proved for all sequences, lengths and windows on the Lean model (see evidence for the list actually proved). NEW: a HEAP model of the byte-slice '
               'pool (Model/SeqHeap.lean: backing arrays, slice variables, sync.Pool of ADDRESSES of slice variables, capacity rules 0 / <=1024 / New=300, poison on '
               'recycle, append growth) with the theorems, for EVERY decision of sync.Pool and of append: heap_run_inv (every reachable state satisfies the '
               'invariant), no_shared_buffer (two live slice fields never show the same array, and no pooled slice shows the array of a live object), heap_frame '
               '(an operation leaves every object other than its target unchanged: bases, qualities, features, annotations), heap_no_alias (whole histories). '
               'The model is tied to ReverseComplement / Subsequence / Copy / Recycle / SetQualities / SetFeatures / GetSlice / RecycleSlice by running both on '
               'the same lines, object histories included, with recycled buffers poisoned, backing arrays of all live slices compared pairwise after every step '
               '(hook VerifRawSlices) and the rc law re-evaluated on the real code on the current content of every live object after every step. '
               'ROUND 2: (1) REFINEMENT PROVED: heap_step_refines / heap_run_refines (Lemmas/SeqHeapRefine.lean): for every operation, every pool/append decision and '
               'every heap satisfying the invariant, the outcome of SeqHeap.step observed on EVERY object (bases, qualities, features, annotations; or the error) equals '
               'SeqHeap.vstep on the previous observation; whole histories by induction (errors included), so value-level laws hold of the heap transcription: heap_rc_rc, '
               'heap_rc_sub (cut-then-rc = rc-then-cut-mirrored, qualities included) for all histories and pool decisions. Recycle in the heap model now follows the '
               'current Go code (slices moved to locals whose addresses are pooled: the arrays of a recycled object ARE handed out again). (2) whole-object model '
               'Model/SeqAnnot.lean (bases, qualities, pairing_mismatches as a map, other annotations): cc_fixed_iff (over all 256 bytes: double complement fixes exactly '
               'the 19-symbol alphabet), revcmpKey_involutive_iff_alphabet (key rewriting is an involution exactly on keys >= 13 bytes whose symbols are in the alphabet), '
               'revcmpKey_panics_iff (< 13 bytes), revcmpKey_no_collision, rcW_rcW (rc(rc x) = x on bases, qualities, keys and positions, no panic), subseqPos_revcmpPos '
               '(position transforms of cut-then-mirror and mirror-then-cut agree). (3) setFeaturesOld_breaks: counterexample theorem for the OLD SetFeatures (pool holds '
               'the address of the live field, invariant lost, next NewBioSequence writes into b.feature: "ttttttttrce 1..8"). (4) join_then_rc_panics (known finding).',
 'level_note': 'Trusted: Lean kernel; transcriptions Model/SeqOps.lean, Model/SeqHeap.lean, Model/SeqAnnot.lean; extractor (literals only). Heap model: invariant, frame AND '
               'effect of every operation are now proved for all histories and all pool decisions (step_refines: heap step = value semantics vstep on every object); the '
               'driver still runs the heap under three pool policies + vstep and prints MODEL-DIVERGES (now a redundant execution of the theorem). Well-behaved histories '
               'only (a name is bound once; a recycled object is never used again: such lines are bad-op on both sides). The heap model describes SetQualities/SetFeatures/'
               'Recycle AS REPAIRED (notes/patches/C07-pool-keeps-address-of-live-field.diff, C05-pool-field-pointer.diff); Heap.setFeaturesOld / recycleObjOld keep the old '
               'code; setFeaturesOld_breaks is the counterexample theorem. In the heap model ReverseComplement/Subsequence keep the annotations as they are (map-valued '
               'annotations only); the rewriting of pairing_mismatches is in the separate whole-object VALUE model Model/SeqAnnot.lean (tied by rcw/subw cases), not in the '
               'heap histories. STILL PARTIAL: rc(sub x) = sub\'(rc x) on the whole object is proved for bases+qualities (vrun_rc_sub/heap_rc_sub, linear windows) and '
               'for the position transform of one entry (subseqPos_revcmpPos); the statement for the whole pairing_mismatches map (filter/map over the entries, the '
               'empty-map case) and for wrapping circular windows is NOT proved, it is an oracle on the real code (subw.rc-mirror, linear + circular + wrapping). '
               'Copy independence for the non-map annotation kinds (nested maps, slices, StatsOnValues, arrays, map[string]interface{}) is oracle-only (annkinds); in the '
               'models annotations are values. Ill-formed keys: < 13 bytes = panic (modelled, proved); symbols outside the alphabet = rewritten but not restored '
               '(proved); two keys rewritten to the same key = result depends on Go map order (both sides print `collision`). subW assumes qualities absent or as long as '
               'the sequence. Concurrency itself (several goroutines) is not modelled: the oracle `ch` covers any item or none being returned by Get, which is what another '
               'goroutine can cause, but not a data race on one sequence. Mutator histories (`mut`) and annkinds are oracle-only (the model answers ok). Join '
               '(pkg/obiseq/join.go is an anchored file, so Join is IN SCOPE): it does not extend the qualities, ReverseComplement then panics: reported as known finding '
               'C07-join-qualities (sig join.qualities-not-extended, joinrc cases; Lean join_then_rc_panics); in `mut` histories Join is still only asked of receivers '
               'without qualities. Features are not transformed by rc/sub in the code (Copy/rc keep them, Subsequence drops them): modelled as such.',
 'trusted_base': LEAN_TB + ['extract/ (go/ast literal extraction of _revcmpDNA, revcompnuc, LX_BIO_CDNA_ALPHA)', 'naive reverse complement / window oracles in the harness', 'pkg/obiseq/verif_hooks.go (VerifRawSlices)', 'whole-object oracles rcw.involution / subw.rc-mirror / annkinds.* in the harness'],
 'modelled': 'pkg/obiseq revcomp.go (nucComplement, ReverseComplement loop, _revcmpMutation), subseq.go (Subsequence, _subseqMutation), value semantics of '
             'Copy/Recycle; heap model of pool.go + biosequence.go (GetSlice/RecycleSlice/CopySlice, Copy, Recycle, SetQualities, SetFeatures, Write) proved to implement the value '
             'semantics; whole-object value model (Model/SeqAnnot.lean) of ReverseComplement+_revcmpMutation, Subsequence+_subseqMutation on the pairing_mismatches map, Join',
 'assumptions': ['circular windows are given with to <= len (the code reduces larger values modulo len)',
                 'heap model: no use after Recycle; one goroutine per sequence (the refinement theorem itself needs no assumption on the qualities; heap_rc_sub and the tie with the Go code need qualities absent or as long as the sequence)',
                 'whole-object laws: keys of pairing_mismatches at least 13 bytes long with symbols in the alphabet, positions within 1..len']}
