from common import LEAN_TB

CFG = {'lean_modules': ['ObiVerif.Props.C07'],
 'gen': True,
 'thorough_seeds': 8,
 'rule': 'cases = all 256 bytes through nucComplement; every string of length <=2 (quick) / <=3 (thorough) over the 19-symbol alphabet; every (from,to) window '
         'incl. out-of-range, linear and circular, of four sequences; random sequences to 500 bases with qualities; position-bearing annotations under rc / '
         'subsequence; random histories of new/copy/rc/rc-in-place/sub/set/recycle on up to 6 objects; heap histories (new/copy/rc/rci/sub/set/recycle/mapset/'
         'setqual/setfeat/scratch, lengths 0,1,299..301,1024,1025, from=to, to=len, full circular windows, 4-28 steps quick, 100-160 steps for 1 in 10 in thorough) '
         'compared with the heap model run under three pool policies + value semantics; mutator histories (every mutator of BioSequence: Write/WriteByte/'
         'WriteString/Clear/Join(inplace)/SetQualities/WriteQualities/SetAttribute(pairing_mismatches)/SetId/Sequence()[i]=) where after EVERY step the reverse '
         'complement of every live object is asked again and compared with the naive one of its current bases, qualities and pairing_mismatches; non-trivial = distinct well-formed case whose input '
         'byte survives lower-casing',
 'technique': 'Lean 4 theorems (table lemmas by decide over tables regenerated from the source; algebraic laws by induction) + differential correspondence of '
              'the model with the real obiseq methods, including object histories + naive-implementation oracle',
 'level_text': 'Complement involution and agreement of the three complement tables are decided over tables regenerated from /repo on every run; rc∘rc = id, '
               'the in-place two-index loop = reverse∘map complement, rc of a subsequence = mirrored subsequence of rc, circular subsequence = window of s++s, '
               'the coordinate transforms of position-bearing annotations and the frame property of object histories (an operation changes only its target) '
               'are proved for all sequences, lengths and windows on the Lean model (see evidence for the list actually proved). NEW: a HEAP model of the byte-slice '
               'pool (Model/SeqHeap.lean: backing arrays, slice variables, sync.Pool of ADDRESSES of slice variables, capacity rules 0 / <=1024 / New=300, poison on '
               'recycle, append growth) with the theorems, for EVERY decision of sync.Pool and of append: heap_run_inv (every reachable state satisfies the '
               'invariant), no_shared_buffer (two live slice fields never show the same array, and no pooled slice shows the array of a live object), heap_frame '
               '(an operation leaves every object other than its target unchanged: bases, qualities, features, annotations), heap_no_alias (whole histories). '
               'The model is tied to ReverseComplement / Subsequence / Copy / Recycle / SetQualities / SetFeatures / GetSlice / RecycleSlice by running both on '
               'the same lines, object histories included, with recycled buffers poisoned, backing arrays of all live slices compared pairwise after every step '
               '(hook VerifRawSlices) and the rc law re-evaluated on the real code on the current content of every live object after every step.',
 'level_note': 'Trusted: Lean kernel; transcriptions Model/SeqOps.lean and Model/SeqHeap.lean; extractor (literals only). Heap model: the frame/invariant '
               'part is proved for all histories and all pool decisions; the EFFECT of each operation on its target (heap step = value semantics vstep) is NOT '
               'proved, it is executed: the driver runs the heap under three pool policies and the value semantics and prints MODEL-DIVERGES when they differ. '
               'Well-behaved histories only (a name is bound once; a recycled object is never used again: such lines are bad-op on both sides). The heap model '
               'assumes qualities as long as the sequence (enforced on new/setqual). The model describes SetQualities/SetFeatures AS REPAIRED '
               '(notes/patches/C07-pool-keeps-address-of-live-field.diff); Heap.setFeaturesOld keeps the old code for reference, no counterexample theorem is '
               'proved about it (the failing history is in the harness corpus). Concurrency itself (several goroutines) is not modelled: the oracle `ch` '
               'covers any item or none being returned by Get, which is what another goroutine can cause, but not a data race on one sequence. Mutator '
               'histories (`mut`) are oracle-only (the model answers ok). Join does not extend qualities (ReverseComplement then panics): outside the '
               'property statement, Join is only exercised on receivers without qualities. _revcmpMutation key rewriting, features under rc/sub '
               '(not transformed by the code) and deep copy of non-map annotation kinds are tied by correspondence / not covered.',
 'trusted_base': LEAN_TB + ['extract/ (go/ast literal extraction of _revcmpDNA, revcompnuc, LX_BIO_CDNA_ALPHA)', 'naive reverse complement / window oracles in the harness', 'pkg/obiseq/verif_hooks.go (VerifRawSlices)'],
 'modelled': 'pkg/obiseq revcomp.go (nucComplement, ReverseComplement loop, _revcmpMutation), subseq.go (Subsequence, _subseqMutation), value semantics of '
             'Copy/Recycle',
 'assumptions': ['circular windows are given with to <= len (the code reduces larger values modulo len)',
                 'heap model: qualities have the length of the sequence; no use after Recycle; one goroutine per sequence']}
