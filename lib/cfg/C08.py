from common import LEAN_TB

CFG = {'lean_modules': ['ObiVerif.Props.C08'],
 'gen': True,
 'thorough_seeds': 8,
 'rule': 'cases = read pairs cut from one fragment with every overlap geometry (standard, B inside A, A inside B, identical starts, identical ends, overlap '
         '1..3, abutting / no overlap, B first), lengths 1..300 (reads <= 40 bases: op pe, the model runs the whole DP from the per-cell scores of the real '
         'scoring function — exact mode through the verbatim loop nests over a flat arena holding stale values; longer: op pl, the model replays the real '
         'path), qualities 0..93 in seven profiles (one made of the extremes 0, 1, 40, 93), substitutions / indels / IUPAC symbols injected, random / '
         'two-letter / homopolymer / tandem-repeat fragments, fast and exact x relative and absolute 4-mer score x delta 0,1,5 x 5 gap x 3 scale settings x '
         'min-overlap / min-identity thresholds, one alignment arena and one shift map shared by all cases of a run (small and large pairs interleaved: the '
         'arena shrinks and grows); op fm = one fill (left or right) + backtracking on the shared arena, score, path and BOTH complete flat matrices compared '
         'with the verbatim model and with the same fill on a fresh arena; op bt = _Backtracking alone on arbitrary valid path matrices (single and multi-base '
         'steps, the alternating matrices that fill the 2*(la+lb) cells of the path buffer completely) with path buffers of capacity 0, 1, la+lb, 2(la+lb)-1, '
         '2(la+lb), larger, all holding stale values; op cons = BuildQualityConsensus on random consuming paths (either sign at both ends, adjacent opposite '
         'runs, (0,0) pairs); hand-picked corpus with the witnesses of every repaired defect, the boundary cases of the column rule (each of the 15 symbols '
         'with quality 0, 1, 2, 90, 91, 93 opposite a leading / internal / trailing gap on either side; every ordered pair of symbols at equal qualities 0, 1, '
         '40, 93 with the stale qM/qm coming from nothing, from an unequal column, from a gap column; n opposite a base for every order of the qualities; '
         'mismatch qualities at the ends of the table), pairs whose quality-0 / quality-1 bases sit in the unpaired ends and opposite an internal indel, every '
         'pair of extreme qualities on overlaps of 18 / 1 / 0 / full and very unequal lengths, all-N and all-IUPAC reads, every min-overlap value around the '
         'real overlap x every min-identity value around 1; every annotation of the returned record (all keys, sorted; pairing_mismatches map; score_norm / '
         'paring_fast_score as exact thousandths) is part of the compared result of every pe / pl case; non-trivial = distinct well-formed case (not bad-op)',
 'technique': 'Lean 4 theorems on a model parametric in the score function and the gap penalty (floats never modelled), with a verbatim layer (flat '
              'column-major matrices, _SetMatrices/_GetMatrix/_GetMatrixFrom index arithmetic, the two loop nests) proved equal to the recurrence layer for '
              'every arena content + a third layer holding the path buffer of the arena written from its end (proved equal for every path matrix and every '
              'buffer content / capacity) + differential correspondence of the model (executed at the arena level in BOTH modes: flat matrices + path buffer '
              'with stale content) with the real PEAlign / fills (complete matrices) / BuildQualityConsensus / AssemblePESequences (record + all annotations) '
              '/ _Backtracking alone / FastShiftFourMer + independent O(n^2) dynamic program, naive 4-mer vote, column-wise consensus oracle and metamorphic '
              'option oracle (min-overlap, min-identity, withStats, fast annotations) run on the real code',
 'level_text': 'For every score function s(i,j), every gap penalty and all non-empty reads, on the Lean model: the fill matrices satisfy the three-way '
               'recurrence with the free end gaps of the scheme; _Backtracking on them terminates inside the matrix and its run-length path consumes both '
               'reads exactly (backtrack_consumes); the reported score is the score recomputed along that path (fill_score_is_path); no consuming path scores '
               'higher under the scheme (fill_optimal, full); the two fills transcribed verbatim as loop nests over the flat arena matrices, followed by '
               '_Backtracking on the flat path matrix, return exactly the recurrence-level result for EVERY previous content of the arena, also when the left '
               'fill runs over the matrices of the right fill as in exact mode (fills_verbatim_refine, fillLeftV_optimal, fillRightV_optimal: no index out of '
               'range, every cell rewritten before it is read); exact mode returns the better scheme with its own score and path, >= every consuming path '
               'under either scheme (pealign_exact); fast mode: the 4-mer vote returns the entry with the best score and the smallest shift among ties '
               '(vote_is_best), the same for every iteration order of the Go map (vote_order_independent: no determinism defect, ties are resolved by the '
               'shift, not by the map order) and always in range (vote_in_range, discharging the former hypothesis VoteInRange); with the repaired path '
               'extension the path consumes both reads and the reported score equals the score recomputed along the EXTENDED path under the scheme of the '
               'whole reads named by isLeft — left when the vote shift is positive, right otherwise — in the DP branch and in the identical-overlap branch '
               '(fast_path_consumes, fast_score_is_path, pealign_fast end to end); the unrepaired extension rule is refuted on a concrete input; '
               '_BuildAlignment: row A / row B are the reads seen through the positions of the path columns, restricted to their non-gap columns (by the path '
               'mask) they give back the reads, gaps exactly where the path says, every base once and in order (rows_content), for base rows and quality rows; '
               'the consensus has one base and one quality per path column and column k is consBase of the real (base, quality) of A and of B at the positions '
               'the path shows there (consensus_columns_real), the higher-quality base wins, IUPAC union on ties, gap columns keep the base '
               '(consensus_higher_quality_wins, consensus_gap_column decided over the regenerated tables); ali_length + seq_a_single + seq_b_single = length '
               'and mode <-> thresholds (stats_consistent); error-free reassembly: if the true path is the unique optimum up to alignment columns of the '
               'scheme kept, the returned path has its columns and the consensus is the consensus along the true path (errorfree_reassembly_columns; the '
               'former uniqueness on run-length lists could never hold), and the claim is refuted for repeats (errorfree_reassembly_repeat_false). Second '
               'round: (a) fast mode executes the verbatim fills: peAlignFastFromA (local loop nests over the flat arena) = peAlignFastFrom for every vote in '
               'range, delta and arena content (fast_verbatim_refines); (b) _Backtracking with its real path buffer — slice regrown to 2(la+lb) cells, written '
               "from its END with a decreasing index, result path[p:cap] — returns the list model's path for EVERY path matrix (also failing ones) and EVERY "
               'previous content / capacity of the buffer; no write is ever out of range, the path has at most 2(la+lb) entries (backtracking_buffer_refines); '
               'one fill, exact mode and fast mode on the whole arena (matrices + path buffer, all stale) equal the recurrence level (arena_refines) — this is '
               'what the driver executes; (c) error-free reassembly end to end: the consensus along the true path of reads cut from one fragment X++O++Y over '
               'the 15 IUPAC symbols, any qualities, IS the fragment, A first and B first (consensus_true_path_is_fragment); the decidable uniqueness '
               'hypothesis strictAlong (in every cell the true path enters, the candidate coming from the true path strictly beats the other candidates of the '
               'recurrence = the independent DP counts one optimal path) implies score(tp) = optimum and every consuming path scoring as much has the columns '
               'of tp (errorfree_unique_optimum); together: exact mode returns an alignment with the columns of the true path and BuildQualityConsensus along '
               'the RETURNED path spells the fragment (errorfree_reassembly_left, errorfree_reassembly_right; hypotheses: which scheme wins = comparison of '
               'two integers, strictAlong); closed condition: a table positive on the true diagonal and negative on every other pair of positions, gap penalty '
               "<= 0, makes the true path strict in the left matrix (errorfree_single_diagonal_strict, errorfree_reassembly_single_diagonal); the weaker 'the "
               "overlap occurs once' is refuted for positive-match / negative-mismatch tables (errorfree_overlap_once_insufficient); (d) the quality row: "
               'column k holds colQual of the (base, quality) of A and B the path shows there in the (qM, qm) state left by the first k columns, seq_ab_match '
               'counts the columns with equal symbols and two positive qualities (consensus_quality_columns); gap or quality-0 base on one side -> the other '
               'quality capped at 90; match -> sum capped at 90; mismatch at different qualities -> max - adj(min) in byte arithmetic capped at 90; mismatch '
               "at EQUAL qualities -> qM - adj(qm) of the state, independent of the column's own qualities (quality_rules); with the real table (adjAmd64, a "
               'literal the driver requires the harness data to equal, decided entry by entry): match = min 90 (qA+qB), mismatch = min 90 (qM + mmBonus qm), '
               'mmBonus = 0,10,7,6,5,4,3,3,2,2,2,1,1,1,1,1,1,0,... (quality_values); (e) obipairing: join mode = A, ten dots, B with qualities A, ten zeros, '
               'B, one quality per base, annotations exactly ali_length, mode=join, score, score_norm, seq_ab_match (join_record); alignment mode: ali_dir, '
               'ali_length, mode, pairing_mismatches iff a column holds two different symbols, paring_fast_* iff fast, score, score_norm, seq_a_single, '
               'seq_ab_match, seq_b_single (alignment_annotations); the two rounded ratios are printed as exact thousandths, never on a rounding boundary '
               '(ratio_rounding_exact). The model is tied to /repo by running both on the same lines every run (exported integer scores as data).',
 'level_note': "Still partial: (1) error-free reassembly: the property's claim is false as stated (repeats, strict containment: "
               "errorfree_reassembly_repeat_false, finding D16) and is proved under the decidable hypothesis strictAlong + 'which scheme wins'; the closed "
               'condition (only the true diagonal scores positively) is proved for the A-first geometry / left scheme only (B first: take strictAlong as '
               "hypothesis) and still needs 'the left scheme wins' as a hypothesis; it is far from necessary (real DNA always has single-base matches off the "
               "diagonal) — no closed necessary-and-sufficient condition exists (errorfree_overlap_once_insufficient); that strictAlong coincides with 'the "
               "independent DP counts one optimal path' is stated, not tied: the oracle (reassembly.exact whenever the count is 1) and the theorem use the two "
               "formulations side by side; fast mode reassembly ('true offset strict maximiser of the vote') stays oracle only; (2) the path buffer: modelled "
               'inside _Backtracking only; in the identical-overlap branch of fast mode the Go code builds the two-entry path with append(arena.path[:0], 0, '
               'partLen) and then extends it in place: the buffer is not modelled there, only the returned path; the aliasing of the returned path with the '
               "arena is not observable (the harness copies it); (3) Index4mer's 256 position lists are modelled by the double loop over both 4-mer lists "
               '(same multiset of (refpos, pos) pairs; only the per-shift counts matter, proved order-independent). Go int is modelled by Int: valid while '
               '|scores| stay far from 2^63 (the oracle checks the table entries used). (4) qualities: the adjustment table byte(log10(1-10^(-qm/30))*10+0.5) '
               'is data (the amd64 conversion of a negative float to byte: implementation-defined in Go); the driver refuses a table that differs from the '
               "literal adjAmd64. Observation, not a property violation: the correction is negative, so 'qM - correction' ADDS up to 10 to the higher quality "
               'on a mismatch (a mismatch column never gets less than the higher quality), and a mismatch at equal qualities gets the value computed from an '
               'earlier column (stale qM/qm; 0 when no earlier column had two different qualities) — the property only asks for one quality per column. (5) '
               "annotations: floats are compared as exact thousandths; on an exact rounding boundary of 1000*num/den both sides print '~' (6 of ~3700 quick "
               'cases); bases are assumed ASCII for the %c / ToUpper of the pairing_mismatches keys. Float equality of the relative 4-mer scores is modelled '
               'by exact cross-multiplication (ratios of integers < 2^20: exact in float64). Observation: in join mode AssemblePESequences drops the '
               'paring_fast_* and pairing_mismatches annotations (written on the consensus record that join mode discards).',
 'trusted_base': LEAN_TB + ['extract/ (go/ast literal extraction of _FourBitsBaseCode, _FourBitsBaseDecode, __single_base_code__)',
                  'pkg/obialign/verif_hooks_c08.go (exports _PairingScorePeAlign, the two tables, the observed gap penalty), pkg/obialign/verif_hooks_c08b.go '
                  '(one fill + backtracking, copies of the two flat arena matrices), pkg/obialign/verif_hooks_c08c.go (_Backtracking on a caller-supplied path '
                  'matrix and path buffer)',
                  'independent DP / naive vote / column oracle / option oracle in harness/c08.go',
                  'float comparisons of ratios of integers < 2^20 are exact (4-mer relative score, min identity)',
                  'the literal quality-adjustment table adjAmd64 in Model/PEAnnot.lean is compared with the table computed by the harness with the formula of '
                  'alignment.go on every case (mismatch = the case is refused)'],
 'modelled': 'pkg/obialign pairedendalign.go (_SetMatrices, _GetMatrix, _GetMatrixFrom, _FillMatrixPeLeftAlign, _FillMatrixPeRightAlign verbatim over the flat '
             'arena matrices in Model/PEFillV.lean and as one recurrence in Model/PEAlign.lean, PEAlign exact and fast at the three levels: recurrence, flat '
             'matrices (…A), whole arena with the path buffer (…B, Model/PEArena.lean)), backtracking.go (_Backtracking as a list in Model/PEAlign.lean and '
             'with its buffer written from the end in Model/PEBackV.lean), alignment.go (_BuildAlignment, BuildQualityConsensus with the mismatch statistics '
             'map in Model/PEAnnot.lean), pkg/obikmer encodefourmer.go (Encode4mer, Index4mer, FastShiftFourMer), pkg/obitools/obipairing pairing.go '
             '(AssemblePESequences with withStats: record and ALL annotations — mode, ali_dir, ali_length, score, score_norm and paring_fast_score as exact '
             'thousandths, seq_a_single, seq_b_single, seq_ab_match, pairing_mismatches, paring_fast_count/overlap; JoinPairedSequence)',
 'assumptions': ['reads are non-empty and lower-case (obiseq.SetSequence lower-cases), qualities 0..93 with len(qual) = len(seq)',
                 'the score tables are finite (|entry| < 2^40): int sums do not wrap',
                 'cap() of an arena slice is modelled by the size of the array handed to the fill (prepare)',
                 'bases are ASCII (the keys of pairing_mismatches are printed with %c and upper-cased)',
                 'float -> byte conversion of the negative quality correction as on amd64 (table compared on every case)']}
