from common import LEAN_TB

CFG = {'lean_modules': ['ObiVerif.Props.C08'],
 'gen': True,
 'thorough_seeds': 8,
 'rule': 'cases = read pairs cut from one fragment with every overlap geometry (standard, B inside A, A inside B, identical starts, identical ends, overlap '
         '1..3, abutting / no overlap, B first), lengths 1..300 (reads <= 40 bases: op pe, the model runs the whole DP from the per-cell scores of the real '
         'scoring function — exact mode through the verbatim loop nests over a flat arena holding stale values; longer: op pl, the model replays the real '
         'path), qualities 0..93 in seven profiles (one made of the extremes 0, 1, 40, 93), substitutions / indels / IUPAC symbols injected, random / '
         'two-letter / homopolymer / tandem-repeat fragments, fast and exact x relative and absolute 4-mer score x delta 0,1,5 x 5 gap x 3 scale settings x '
         'min-overlap / min-identity thresholds, one alignment arena and one shift map shared by all cases of a run (small and large pairs interleaved: the '
         'arena shrinks and grows); op fm = one fill (left or right) + backtracking on the shared arena, score, path and BOTH complete flat matrices compared '
         'with the verbatim model and with the same fill on a fresh arena; op bt = _Backtracking alone on arbitrary valid path matrices (single and multi-base '
         'steps, the alternating matrices that fill the 2*(la+lb) cells of the path buffer completely) with path buffers of capacity 0, 1, la+lb, 2(la+lb)-1, '
         '2(la+lb), larger, all holding stale values; op cons = BuildQualityConsensus on random consuming paths (either sign at both ends, adjacent opposite '
         'runs, (0,0) pairs); op fa = PEAlign in fast mode on a worker state with a history (4-mer index left by a previous forward read that holds the 4-mers '
         'of B at another offset — the seeded/C08-m1 shape —, path buffer of capacity 0..5 / 2(la+lb) / larger full of stale values, shifts map kept from case '
         'to case): result, vote, what is left in the shifts map and the WHOLE path buffer after the call compared with the model, same pair on a fresh arena; '
         'op cl = one pair through the real option parser (obioptions.GenerateOptionParser(obipairing.OptionSet) on a real argv: every pairing option alone in '
         'both spellings, thresholds around the real overlap / identity, random combinations) and the real worker IAssemblePESequencesBatch called with the '
         'CLI getters exactly as cmd/obitools/obipairing/main.go does, on a paired iterator whose batch holds a previous pair and the pair of the case, '
         'reverse read given as the sequencer gives it (the worker reverse-complements it), record and all annotations compared (data for the model computed '
         'from the INTENDED option values, not from the parsed ones); hand-picked corpus with the witnesses of every repaired defect, the boundary cases of '
         'the column rule (each of the 15 symbols with quality 0, 1, 2, 90, 91, 93 opposite a leading / internal / trailing gap on either side; every ordered '
         'pair of symbols at equal qualities 0, 1, 40, 93 with the stale qM/qm coming from nothing, from an unequal column, from a gap column; n opposite a '
         'base for every order of the qualities; mismatch qualities at the ends of the table), pairs whose quality-0 / quality-1 bases sit in the unpaired '
         'ends and opposite an internal indel, every pair of extreme qualities on overlaps of 18 / 1 / 0 / full and very unequal lengths, all-N and all-IUPAC '
         'reads, every min-overlap value around the real overlap x every min-identity value around 1; exact-mode pe cases carrying their fragment print, per '
         'scheme, the uniqueness hypothesis in both formulations (harness: the independent DP counts one optimal path and the true path reaches the optimum; '
         'model: strictAlong of the true path) and are compared; every consensus column where both reads are present is re-computed alone (oracle '
         'cons.qual-local); every score handed to the model and the gap penalty are checked against 2^20, the whole match / mismatch tables once per run; '
         'every annotation of the returned record (all keys, sorted; pairing_mismatches map; score_norm / paring_fast_score as exact thousandths) is part of '
         'the compared result of every pe / pl case; op conc (harness/c08_conc.go) = concurrent use: one line bundles 4..6 pairs of 100..300 bases (error-free, '
         'mutated, unrelated; B first / identical starts / standard) under one setting (exact and fast alternate, two cases with the defaults of obipairing); '
         'the result line is what the pairs answer one after the other on one worker state (PEAlign, BuildQualityConsensus, then the worker call '
         'AssemblePESequences(A, B.ReverseComplement(true), ..., inplace = true): recomputed by the model with the sequential pl clause); the oracle runs in a '
         'CHILD process of the harness, cold (its first PEAlign calls are the concurrent ones: one-time initialisation of the shared score tables): phase a = g '
         'goroutines (8 quick, 16 thorough) released together and staggered by 25 microseconds, each with its own arena and shifts map exactly as the worker '
         'closure creates them, r rounds (3 / 6) over the pairs, every answer must be the answer obtained alone (conc.differs / conc.panic); phase b = the real '
         'IAssemblePESequencesBatch with g workers on g*r batches of the pairs, every record must be the record assembled alone (conc.batch-differs / '
         'conc.batch-lost); a child killed by the Go runtime (concurrent map writes, index out of range in a worker goroutine) is reported with its input '
         '(conc.panic); thorough tier, first seed: two conc cases run through a go build -race child, a race report whose access lies in pkg/obialign, '
         'pkg/obikmer or pkg/obitools/obipairing is a failure (race.detector); 4 conc cases in quick (+0.4 s), 10 per seed in thorough; non-trivial = distinct '
         'well-formed case (not bad-op)',
 'technique': 'Lean 4 theorems on a model parametric in the score function and the gap penalty (floats never modelled), with a verbatim layer (flat '
              'column-major matrices, _SetMatrices/_GetMatrix/_GetMatrixFrom index arithmetic, the two loop nests) proved equal to the recurrence layer for '
              'every arena content + a third layer holding the path buffer of the arena written from its end (proved equal for every path matrix and every '
              'buffer content / capacity) + differential correspondence of the model (executed at the arena level in BOTH modes: flat matrices + path buffer '
              'with stale content) with the real PEAlign / fills (complete matrices) / BuildQualityConsensus / AssemblePESequences (record + all annotations) '
              '/ _Backtracking alone / FastShiftFourMer + independent O(n^2) dynamic program, naive 4-mer vote, column-wise consensus oracle and metamorphic '
              'option oracle (min-overlap, min-identity, withStats, fast annotations) run on the real code; third round: a fourth layer with everything a '
              'worker reuses (Model/PEFastArena.lean: Index4mer position lists, shifts map with its deletes, the path slice as a window of the arena buffer or '
              'a fresh array, append in place / reallocating) proved equal to the recurrence level for every history; transposition of fills (left scheme on '
              '(A,B) = right scheme on (B,A)) to carry the closed condition to the B-first geometry; potential-function invariants bounding the losing scheme; '
              'magnitude bound by induction over cells; command-line model (Model/PECli.lean) tied through the real parser and worker; wave 3: concurrent-use '
              'oracle (the model functions are pure: the answers of the pairs run alone are the reference for g workers running them at the same time)',
 'level_text': 'For every score function s(i,j), every gap penalty and all non-empty reads, on the Lean model: the fill matrices satisfy the three-way '
               'recurrence with the free end gaps of the scheme; _Backtracking on them terminates inside the matrix and its run-length path consumes both '
               'reads exactly (backtrack_consumes); the reported score is the score recomputed along that path (fill_score_is_path); no consuming path scores '
               'higher under the scheme (fill_optimal, full); the two fills transcribed verbatim as loop nests over the flat arena matrices, followed by '
               '_Backtracking on the flat path matrix, return exactly the recurrence-level result for EVERY previous content of the arena, also when the left '
               'fill runs over the matrices of the right fill as in exact mode (fills_verbatim_refine, fillLeftV_optimal, fillRightV_optimal: no index out of '
               'range, every cell rewritten before it is read); exact mode returns the better scheme with its own score and path, >= every consuming path '
               'under either scheme (pealign_exact); fast mode: the 4-mer vote returns the entry with the best score and the smallest shift among ties '
               '(vote_is_best), the same for every iteration order of the Go map (vote_order_independent: no determinism defect, ties are resolved by the '
               'shift, not by the map order) and always in range (vote_in_range, discharging the former hypothesis VoteInRange); with the repaired path '
               'extension the path consumes both reads and the reported score equals the score recomputed along the EXTENDED path under the scheme of the '
               'whole reads named by isLeft — left when the vote shift is positive, right otherwise — in the DP branch and in the identical-overlap branch '
               '(fast_path_consumes, fast_score_is_path, pealign_fast end to end); the unrepaired extension rule is refuted on a concrete input; '
               '_BuildAlignment: row A / row B are the reads seen through the positions of the path columns, restricted to their non-gap columns (by the path '
               'mask) they give back the reads, gaps exactly where the path says, every base once and in order (rows_content), for base rows and quality rows; '
               'the consensus has one base and one quality per path column and column k is consBase of the real (base, quality) of A and of B at the positions '
               'the path shows there (consensus_columns_real), the higher-quality base wins, IUPAC union on ties, gap columns keep the base '
               '(consensus_higher_quality_wins, consensus_gap_column decided over the regenerated tables); ali_length + seq_a_single + seq_b_single = length '
               'and mode <-> thresholds (stats_consistent); error-free reassembly: if the true path is the unique optimum up to alignment columns of the '
               'scheme kept, the returned path has its columns and the consensus is the consensus along the true path (errorfree_reassembly_columns; the '
               'former uniqueness on run-length lists could never hold), and the claim is refuted for repeats (errorfree_reassembly_repeat_false). Second '
               'round: (a) fast mode executes the verbatim fills: peAlignFastFromA (local loop nests over the flat arena) = peAlignFastFrom for every vote in '
               'range, delta and arena content (fast_verbatim_refines); (b) _Backtracking with its real path buffer — slice regrown to 2(la+lb) cells, written '
               "from its END with a decreasing index, result path[p:cap] — returns the list model's path for EVERY path matrix (also failing ones) and EVERY "
               'previous content / capacity of the buffer; no write is ever out of range, the path has at most 2(la+lb) entries (backtracking_buffer_refines); '
               'one fill, exact mode and fast mode on the whole arena (matrices + path buffer, all stale) equal the recurrence level (arena_refines) — this is '
               'what the driver executes; (c) error-free reassembly end to end: the consensus along the true path of reads cut from one fragment X++O++Y over '
               'the 15 IUPAC symbols, any qualities, IS the fragment, A first and B first (consensus_true_path_is_fragment); the decidable uniqueness '
               'hypothesis strictAlong (in every cell the true path enters, the candidate coming from the true path strictly beats the other candidates of the '
               'recurrence = the independent DP counts one optimal path) implies score(tp) = optimum and every consuming path scoring as much has the columns '
               'of tp (errorfree_unique_optimum); together: exact mode returns an alignment with the columns of the true path and BuildQualityConsensus along '
               'the RETURNED path spells the fragment (errorfree_reassembly_left, errorfree_reassembly_right; hypotheses: which scheme wins = comparison of '
               'two integers, strictAlong); closed condition: a table positive on the true diagonal and negative on every other pair of positions, gap penalty '
               "<= 0, makes the true path strict in the left matrix (errorfree_single_diagonal_strict, errorfree_reassembly_single_diagonal); the weaker 'the "
               "overlap occurs once' is refuted for positive-match / negative-mismatch tables (errorfree_overlap_once_insufficient); (d) the quality row: "
               'column k holds colQual of the (base, quality) of A and B the path shows there in the (qM, qm) state left by the first k columns, seq_ab_match '
               'counts the columns with equal symbols and two positive qualities (consensus_quality_columns); gap or quality-0 base on one side -> the other '
               'quality capped at 90; match -> sum capped at 90; mismatch at different qualities -> max - adj(min) in byte arithmetic capped at 90; mismatch '
               "at EQUAL qualities -> q - adj(q) of the column's own quality (quality_rules; repaired in round 3, see below); with the real table (adjAmd64, a "
               'literal the driver requires the harness data to equal, decided entry by entry): match = min 90 (qA+qB), mismatch = min 90 (qM + mmBonus qm), '
               'mmBonus = 0,10,7,6,5,4,3,3,2,2,2,1,1,1,1,1,1,0,... (quality_values); (e) obipairing: join mode = A, ten dots, B with qualities A, ten zeros, '
               'B, one quality per base, annotations exactly ali_length, mode=join, score, score_norm, seq_ab_match (join_record); alignment mode: ali_dir, '
               'ali_length, mode, pairing_mismatches iff a column holds two different symbols, paring_fast_* iff fast, score, score_norm, seq_a_single, '
               'seq_ab_match, seq_b_single (alignment_annotations); the two rounded ratios are printed as exact thousandths, never on a rounding boundary '
               '(ratio_rounding_exact). The model is tied to /repo by running both on the same lines every run (exported integer scores as data). Third round: '
               '(f) fast mode is history independent (fast_history_independent): PEAlign in fast mode on the whole worker state — 4-mer index left by ANY '
               'previous forward read (Index4mer empties all 256 cells: index_history_independent, cell c = positions of code c in the new read; the counting '
               'loop over the position lists = shiftCounts; the shifts map, empty at entry, is empty at exit), flat matrices and path buffer of ANY size / '
               'content — returns peAlignFastFrom on the vote fastShift; the path SLICE is modelled (fast_path_slice): window (*path)[p:cap] after '
               '_Backtracking, append(arena.path[:0], 0, partLen) in the identical-overlap branch (in place when the buffer has 2 cells, the second append in '
               'place when it has 4), path[0] += extra5 / path[len-2] += extra3 read and written THROUGH the buffer, append([]int{extra5,0}, path...) fresh: '
               'equal to extend3 (extend5 ...) for every buffer, no index out of range. (g) error-free reassembly: the closed condition for the B-first '
               'geometry / right scheme (errorfree_single_diagonal_strict_right, by transposition isFill_transpose / strictAlong_transpose); which scheme wins '
               'is PROVED under the closed condition (errorfree_which_scheme_wins: A first with an overhang and gap penalty < 0 -> right optimum < left '
               'optimum strictly; B first -> left <= right), giving end-to-end theorems without side hypothesis (errorfree_reassembly_closed_left, '
               'errorfree_reassembly_closed_right: exact mode returns an alignment whose consensus is the fragment; isLeft = (d > 0 or e > 0) for A first). '
               '(h) consensus qualities: one quality per column as a function of THAT column (consensus_quality_column_local: column k = colQual of the two '
               '(base, quality) pairs of column k, nothing else) — holds on the repaired code only (defect C08-consensus-quality-column, fixed: qM/qm were '
               'assigned only when the two qualities differ). (i) Go int: |M i j| <= (i+j)*B and |score of a consuming path| <= (la+lb)*B for scores and costs '
               'within +-B (score_abs_bound); with B = 2^20 and reads < 2^31 every cell and every intermediate value (diag+score, left+gap, top+gap, the '
               'running sum of the identical branch) is strictly inside (-2^62, 2^62) (int_model_valid): the Int model is valid for all lengths < 2^31. (j) '
               'obipairing command: defaults (cli_defaults), --fast-absolute and --delta have no action with --exact-mode '
               '(cli_exact_mode_ignores_fast_options), assemble vs join decided by --min-overlap / --min-identity only, monotone in --min-overlap '
               '(cli_assemble_or_join), annotation keys with --without-stat (cli_without_stat_keys).',
 'level_note': "Still partial: (1) error-free reassembly: the property's claim is false as stated (repeats, strict containment: "
               "errorfree_reassembly_repeat_false, finding D16); it is proved under the decidable hypothesis strictAlong + 'which scheme wins' "
               "(errorfree_reassembly_left/right) and, WITHOUT side hypothesis, under the closed condition 'only the true diagonal scores positively' for both "
               'geometries (errorfree_reassembly_closed_left needs gap penalty < 0; with gap penalty 0 the two schemes coincide and only the hypothesis form '
               'applies). The closed condition is far from necessary (real DNA always has single-base matches off the diagonal) — no closed '
               "necessary-and-sufficient condition exists (errorfree_overlap_once_insufficient); for general tables 'which scheme wins' remains a hypothesis "
               "(a comparison of two integers). That strictAlong coincides with 'the independent DP counts one optimal path (and the true path reaches the "
               "optimum)' is tied per case, per scheme (field sa= of every exact-mode pe case with its fragment: ~500 quick cases, both values occur), not "
               "proved as an equivalence (the direction strictAlong -> unique optimum is errorfree_unique_optimum). Fast mode reassembly ('true offset strict "
               "maximiser of the vote') stays oracle only: after the vote the local DP aligns A[startA:] / B[:partLen] and the claim needs the uniqueness "
               'hypothesis on that window. (2) the path slice: the returned path aliases the arena buffer in the real code; the model returns a copy (the '
               'harness copies it too): a caller that keeps the path across the next PEAlign is outside the model (AssemblePESequences consumes it at once). '
               'After slices.Grow the real capacity may exceed the requested one (size classes): the buffer is compared only when it was not regrown (183 of '
               '286 quick fa cases). (3) Index4mer: the index is 256 lists; cap < 256 allocates a new one; the per-cell capacity kept by [:0] is not modelled '
               '(not observable). The shifts map is a list in first-seen order; the vote is proved independent of the order. (4) Go int is modelled by Int: '
               'valid for reads < 2^31 and |scores|, |gap penalty| <= 2^20 (int_model_valid); the harness checks every score it hands over and the whole '
               'tables against 2^20 (real entries < 2^9). The products (j+1)*gapPenalty of the first row / column are covered by the cell bound. (5) '
               'qualities: the adjustment table byte(log10(1-10^(-qm/30))*10+0.5) is data (the amd64 conversion of a negative float to byte: '
               'implementation-defined in Go); the driver refuses a table that differs from the literal adjAmd64. Observation, not a property violation: the '
               "correction is negative, so 'qM - correction' ADDS up to 10 to the higher quality on a mismatch. (6) annotations: floats are compared as exact "
               "thousandths; on an exact rounding boundary of 1000*num/den both sides print '~'; bases are assumed ASCII for the %c / ToUpper of the "
               'pairing_mismatches keys. Float equality of the relative 4-mer scores is modelled by exact cross-multiplication (ratios of integers < 2^20: '
               'exact in float64). Observation: in join mode AssemblePESequences drops the paring_fast_* and pairing_mismatches annotations. (7) command '
               'level: the model covers the nine pairing options of options.go (both spellings), not the generic options of obioptions / obiconvert, not '
               'repeated options, not parse errors (the real parser exits the process); --gap-penality / --penality-scale enter only through the integer gap '
               'penalty and the column scores (data computed by the harness from the INTENDED values); file reading / pairing of the two files '
               '(CLIPairedSequence) and the writer are other properties; the cl op runs the worker with 2 workers on one batch (the conc op with 8 / 16 workers '
               'on 24 / 96 batches). Concurrency: obipairing (cmd main -> IAssemblePESequencesBatch, N = --max-cpu workers) and obitagpcr (same closure shape) '
               'run AssemblePESequences -> PEAlign (Index4mer, FastShiftFourMer, _FillMatrixPeLeftAlign / _FillMatrixPeRightAlign, _Backtracking) -> '
               'BuildQualityConsensus (_BuildAlignment) concurrently; obikmersim calls ReadAlign / BuildQualityConsensus the same way. PER WORKER (created inside '
               'the worker closure): the PEAlignArena (score and path matrices, path buffer, 4-mer index and its byte buffer, the four alignment rows) and the '
               'shifts map. SHARED: the score tables _NucPartMatch, _NucScorePartMatchMatch, _NucScorePartMatchMismatch (filled once behind sync.Once by the '
               'first caller, fix 4b389da, read-only afterwards), the literal tables _FourBitsBaseCode / _FourBitsBaseDecode / _FourBitsCount and the 4-mer code '
               'table of obikmer (read-only), the parameters captured by the closure (gap, scale, delta, thresholds, flags), the byte-slice and annotation pools '
               'of obiseq (sync.Pool: NewBioSequence, ReverseComplement(true), Recycle), the source iterator and the output iterator; the quality adjustment of '
               'a mismatch column is recomputed per column (no table in the code). The conc op shares exactly that; it is an oracle on the real code (scheduling '
               'is not modelled: the Lean side is the sequential model, whose functions share nothing by construction); seeded shared-state regressions caught '
               'with a failing input: arena hoisted out of the worker closure (phase b), package-level alignment rows in BuildQualityConsensus, package-level '
               'shifts map in FastShiftFourMer (runtime abort reported), initialised-flag set before the tables are filled without the Once (cold start), '
               'unsynchronised last-call memo in _PairingScorePeAlign. Not covered: a race that never changes an answer on amd64 is seen only by the -race child '
               '(thorough, first seed); obitagpcr and obikmersim pipelines themselves are not run.',
 'trusted_base': LEAN_TB + ['extract/ (go/ast literal extraction of _FourBitsBaseCode, _FourBitsBaseDecode, __single_base_code__)',
                  'pkg/obialign/verif_hooks_c08.go (exports _PairingScorePeAlign, the two tables, the observed gap penalty), pkg/obialign/verif_hooks_c08b.go '
                  '(one fill + backtracking, copies of the two flat arena matrices), pkg/obialign/verif_hooks_c08c.go (_Backtracking on a caller-supplied path '
                  'matrix and path buffer), pkg/obialign/verif_hooks_c08d.go (set / read the path buffer of an arena), '
                  'pkg/obitools/obipairing/verif_hooks_c08.go (reset of the option globals between two command lines)',
                  'independent DP / naive vote / column oracle / option oracle in harness/c08.go',
                  'float comparisons of ratios of integers < 2^20 are exact (4-mer relative score, min identity)',
                  'the literal quality-adjustment table adjAmd64 in Model/PEAnnot.lean is compared with the table computed by the harness with the formula of '
                  'alignment.go on every case (mismatch = the case is refused)',
                  "the harness's own reading of the obipairing options it generates (cliNaive) and its IUPAC reverse complement (input of the worker)",
                  'conc op: the Go scheduler actually overlapping the g workers (start barrier, 16 cores; seeded shared-state changes are caught in 2..4 of the 4 quick cases)'],
 'modelled': 'pkg/obialign pairedendalign.go (_SetMatrices, _GetMatrix, _GetMatrixFrom, _FillMatrixPeLeftAlign, _FillMatrixPeRightAlign verbatim over the flat '
             'arena matrices in Model/PEFillV.lean and as one recurrence in Model/PEAlign.lean, PEAlign exact and fast at the three levels: recurrence, flat '
             'matrices (…A), whole arena with the path buffer (…B, Model/PEArena.lean)), backtracking.go (_Backtracking as a list in Model/PEAlign.lean and '
             'with its buffer written from the end in Model/PEBackV.lean), alignment.go (_BuildAlignment, BuildQualityConsensus with the mismatch statistics '
             'map in Model/PEAnnot.lean), pkg/obikmer encodefourmer.go (Encode4mer, Index4mer, FastShiftFourMer), pkg/obitools/obipairing pairing.go '
             '(AssemblePESequences with withStats: record and ALL annotations — mode, ali_dir, ali_length, score, score_norm and paring_fast_score as exact '
             'thousandths, seq_a_single, seq_b_single, seq_ab_match, pairing_mismatches, paring_fast_count/overlap; JoinPairedSequence); third round: '
             'Model/PEFastArena.lean (Index4mer on the reused index, FastShiftFourMer over the position lists with its shifts map, PEAlign fast mode with the '
             'path slice: identical-overlap append into the arena buffer, in-place / reallocating extension), Model/PECli.lean (options.go: the nine pairing '
             'options, defaults, CLI getters; main.go: the call of IAssemblePESequencesBatch; AssemblePESequences with withStats = false)',
 'assumptions': ['reads are non-empty and lower-case (obiseq.SetSequence lower-cases), qualities 0..93 with len(qual) = len(seq)',
                 'column scores and gap penalty within +-2^20 and reads shorter than 2^31 (then no int64 wraps: int_model_valid); checked by the harness on '
                 'every score handed to the model and on the whole tables',
                 'cap() of an arena slice is modelled by the size of the array handed to the fill (prepare)',
                 'bases are ASCII (the keys of pairing_mismatches are printed with %c and upper-cased)',
                 'float -> byte conversion of the negative quality correction as on amd64 (table compared on every case)',
                 'the shifts map handed to PEAlign is empty (every call leaves it empty: index_history_independent; a panic in between is outside)']}
