from common import LEAN_TB

CFG = {'lean_modules': ['ObiVerif.Props.C08'],
 'gen': True,
 'thorough_seeds': 8,
 'rule': 'cases = read pairs cut from one fragment with every overlap geometry (standard, B inside A, A inside B, identical starts, identical ends, overlap '
         '1..3, abutting / no overlap, B first), lengths 1..300 (reads <= 40 bases: op pe, the model runs the whole DP from the per-cell scores of the real '
         'scoring function — exact mode through the verbatim loop nests over a flat arena holding stale values; longer: op pl, the model replays the real '
         'path), qualities 0..93 in seven profiles (one made of the extremes 0, 1, 40, 93), substitutions / indels / IUPAC symbols injected, random / '
         'two-letter / homopolymer / tandem-repeat fragments, fast and exact x relative and absolute 4-mer score x delta 0,1,5 x 5 gap x 3 scale settings x '
         'min-overlap / min-identity thresholds, one alignment arena and one shift map shared by all cases of a run (small and large pairs interleaved: the '
         'arena shrinks and grows); op fm = one fill (left or right) + backtracking on the shared arena, score, path and BOTH complete flat matrices compared '
         'with the verbatim model and with the same fill on a fresh arena; op cons = BuildQualityConsensus on random consuming paths (either sign at both '
         'ends, adjacent opposite runs, (0,0) pairs); hand-picked corpus with the witnesses of every repaired defect, every pair of extreme qualities on '
         'overlaps of 18 / 1 / 0 / full and very unequal lengths, all-N and all-IUPAC reads, every min-overlap value around the real overlap x every '
         'min-identity value around 1; non-trivial = distinct well-formed case (not bad-op)',
 'technique': 'Lean 4 theorems on a model parametric in the score function and the gap penalty (floats never modelled), with a verbatim layer (flat '
              'column-major matrices, _SetMatrices/_GetMatrix/_GetMatrixFrom index arithmetic, the two loop nests) proved equal to the recurrence layer for '
              'every arena content + differential correspondence of the model with the real PEAlign / fills (complete matrices) / BuildQualityConsensus / '
              'AssemblePESequences / FastShiftFourMer + independent O(n^2) dynamic program, naive 4-mer vote, column-wise consensus oracle and metamorphic '
              'option oracle (min-overlap, min-identity, withStats, fast annotations) run on the real code',
 'level_text': 'For every score function s(i,j), every gap penalty and all non-empty reads, on the Lean model: the fill matrices satisfy the three-way '
               'recurrence with the free end gaps of the scheme; _Backtracking on them terminates inside the matrix and its run-length path consumes both '
               'reads exactly (backtrack_consumes); the reported score is the score recomputed along that path (fill_score_is_path); no consuming path scores '
               'higher under the scheme (fill_optimal, full); the two fills transcribed verbatim as loop nests over the flat arena matrices, followed by '
               '_Backtracking on the flat path matrix, return exactly the recurrence-level result for EVERY previous content of the arena, also when the left '
               'fill runs over the matrices of the right fill as in exact mode (fills_verbatim_refine, fillLeftV_optimal, fillRightV_optimal: no index out of '
               'range, every cell rewritten before it is read); exact mode returns the better scheme with its own score and path, >= every consuming path '
               'under either scheme (pealign_exact); fast mode: the 4-mer vote returns the entry with the best score and the smallest shift among ties '
               '(vote_is_best), the same for every iteration order of the Go map (vote_order_independent: no determinism defect, ties are resolved by the '
               'shift, not by the map order) and always in range (vote_in_range, discharging the former hypothesis VoteInRange); with the repaired path '
               'extension the path consumes both reads and the reported score equals the score recomputed along the EXTENDED path under the scheme of the '
               'whole reads named by isLeft — left when the vote shift is positive, right otherwise — in the DP branch and in the identical-overlap branch '
               '(fast_path_consumes, fast_score_is_path, pealign_fast end to end); the unrepaired extension rule is refuted on a concrete input; '
               '_BuildAlignment: row A / row B are the reads seen through the positions of the path columns, restricted to their non-gap columns (by the path '
               'mask) they give back the reads, gaps exactly where the path says, every base once and in order (rows_content), for base rows and quality rows; '
               'the consensus has one base and one quality per path column and column k is consBase of the real (base, quality) of A and of B at the positions '
               'the path shows there (consensus_columns_real), the higher-quality base wins, IUPAC union on ties, gap columns keep the base '
               '(consensus_higher_quality_wins, consensus_gap_column decided over the regenerated tables); ali_length + seq_a_single + seq_b_single = length '
               'and mode <-> thresholds (stats_consistent); error-free reassembly: if the true path is the unique optimum up to alignment columns of the '
               'scheme kept, the returned path has its columns and the consensus is the consensus along the true path (errorfree_reassembly_columns; the '
               'former uniqueness on run-length lists could never hold), and the claim is refuted for repeats (errorfree_reassembly_repeat_false). The model '
               'is tied to /repo by running both on the same lines every run (exported integer scores as data).',
 'level_note': "Still partial: (1) error-free reassembly — proved only under the hypothesis 'the true path is the unique optimum up to columns of the scheme "
               "that is kept'; no closed condition in terms of the signs of the score table and the overlap length exists (errorfree_reassembly_repeat_false: "
               'a positive-on-matches table and an overlap of 2 of 4 bases of a homopolymer is beaten by the full diagonal); that the consensus along the true '
               'path spells the fragment is reduced to consensus_columns_real + consensus_gap_column but the final equality with the fragment is checked by '
               'the oracle (reassembly.exact / reassembly.fast whenever the true path is the unique optimum / the true offset is the strict maximiser of the '
               'vote); (2) fast mode: the local fills run by peAlignFastFrom are the recurrence-level fillLeft/fillRight (equal to the verbatim loop nests by '
               'fills_verbatim_refine, but the fast driver path does not execute the verbatim layer; op fm does on arbitrary sub-reads); (3) _Backtracking '
               "writes the path from the end of the arena buffer: modelled by prepending to a list; Index4mer's 256 position lists are modelled by the double "
               'loop over both 4-mer lists (same multiset of (refpos, pos) pairs; only the per-shift counts matter, proved order-independent). Go int is '
               'modelled by Int: valid while |scores| stay far from 2^63 (true once C08-logaddexp-nan is applied; the oracle checks the table entries used). '
               'The quality written on a quality tie between different bases uses the stale qM/qm of an earlier column (transcribed as is; the property does '
               'not constrain that value). Float equality of the relative 4-mer scores is modelled by exact cross-multiplication (ratios of integers < 2^20: '
               'exact in float64). Observation, not a property violation: in join mode AssemblePESequences drops the paring_fast_* annotations (they are '
               'written on the consensus record that join mode discards).',
 'trusted_base': LEAN_TB + [
                  'extract/ (go/ast literal extraction of _FourBitsBaseCode, _FourBitsBaseDecode, __single_base_code__)',
                  'pkg/obialign/verif_hooks_c08.go (exports _PairingScorePeAlign, the two tables, the observed gap penalty), pkg/obialign/verif_hooks_c08b.go '
                  '(one fill + backtracking, copies of the two flat arena matrices)',
                  'independent DP / naive vote / column oracle / option oracle in harness/c08.go',
                  'float comparisons of ratios of integers < 2^20 are exact (4-mer relative score, min identity)'],
 'modelled': 'pkg/obialign pairedendalign.go (_SetMatrices, _GetMatrix, _GetMatrixFrom, _FillMatrixPeLeftAlign, _FillMatrixPeRightAlign verbatim over the flat '
             'arena matrices in Model/PEFillV.lean and as one recurrence in Model/PEAlign.lean, PEAlign exact and fast), backtracking.go (_Backtracking), '
             'alignment.go (_BuildAlignment, BuildQualityConsensus without the mismatch statistics map), pkg/obikmer encodefourmer.go (Encode4mer, Index4mer, '
             'FastShiftFourMer), pkg/obitools/obipairing pairing.go (AssemblePESequences, JoinPairedSequence; score_norm and paring_fast_score, rounded '
             'floats, are not printed by the model; the paring_fast_* annotations are checked by the oracle)',
 'assumptions': ['reads are non-empty and lower-case (obiseq.SetSequence lower-cases), qualities 0..93 with len(qual) = len(seq)',
                 'the score tables are finite (|entry| < 2^40): int sums do not wrap',
                 'cap() of an arena slice is modelled by the size of the array handed to the fill (prepare)']}
