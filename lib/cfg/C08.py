from common import LEAN_TB

CFG = {'lean_modules': ['ObiVerif.Props.C08'],
 'gen': True,
 'thorough_seeds': 8,
 'rule': 'cases = read pairs cut from one fragment with every overlap geometry (standard, B inside A, A inside B, identical starts, identical ends, overlap '
         '1..3, abutting / no overlap, B first), lengths 1..300 (reads <= 40 bases: op pe, the model runs the whole DP from the per-cell scores of the real '
         'scoring function; longer: op pl, the model replays the real path), qualities 0..93 in six profiles, substitutions / indels / IUPAC symbols '
         'injected, random / two-letter / homopolymer / tandem-repeat fragments, fast and exact x relative and absolute 4-mer score x delta 0,1,5 x 5 gap '
         'x 3 scale settings x min-overlap / min-identity thresholds, one alignment arena and one shift map shared by all cases of a run; op cons = '
         'BuildQualityConsensus on random consuming paths (either sign at both ends, adjacent opposite runs, (0,0) pairs); hand-picked corpus with the '
         'witnesses of every repaired defect; non-trivial = distinct well-formed case (not bad-op)',
 'technique': 'Lean 4 theorems on a model parametric in the score function and the gap penalty (floats never modelled) + differential correspondence of the '
              'model with the real PEAlign / BuildQualityConsensus / AssemblePESequences / FastShiftFourMer + independent O(n^2) dynamic program, naive '
              '4-mer vote and column-wise consensus oracle run on the real code',
 'level_text': 'For every score function s(i,j), every gap penalty and all non-empty reads, on the Lean model: the fill matrices satisfy the three-way '
               'recurrence with the free end gaps of the scheme; _Backtracking on them terminates inside the matrix and its run-length path consumes both '
               'reads exactly (backtrack_consumes); the reported score is the score recomputed along that path (fill_score_is_path); no consuming path '
               'scores higher under the scheme (fill_optimal, full); exact mode returns the better scheme with its own score and path, >= every consuming '
               'path under either scheme (pealign_exact); fast mode with the repaired path extension consumes both reads for every vote result in range, '
               'every delta (fast_path_consumes) and the unrepaired rule is refuted on a concrete input; the consensus has one base and one quality per '
               'path column, the higher-quality base wins, IUPAC union on ties, gap columns keep the base (consensus_columns, '
               'consensus_higher_quality_wins, consensus_gap_column decided over the regenerated tables); ali_length + seq_a_single + seq_b_single = '
               'length and mode <-> thresholds (stats_consistent). The model is tied to /repo by running both on the same lines every run (exported '
               'integer scores as data).',
 'level_note': 'Not proved in Lean, checked by the oracles on the real code only: (1) in fast mode the reported score equals the score recomputed along '
               'the extended path under the global scheme; (2) the result of the 4-mer vote is in range (hypothesis VoteInRange of fast_path_consumes) '
               'and independent of the map iteration order; (3) error-free reassembly (checked whenever the true path is the unique optimum / the true '
               'offset is the strict maximiser of the vote); (4) the content of the gapped rows of _BuildAlignment (only their lengths are proved). '
               'left/right fills are modelled as one recurrence instantiated with per-row / per-column indel costs (first row and column as running '
               'sums) rather than as two loop nests. Go int is modelled by Int: valid while |scores| stay far from 2^63 (true once '
               'C08-logaddexp-nan is applied; the oracle checks the table entries used). The quality written on a quality tie between different '
               'bases uses the stale qM/qm of an earlier column (transcribed as is; the property does not constrain that value).',
 'trusted_base': LEAN_TB + ['extract/ (go/ast literal extraction of _FourBitsBaseCode, _FourBitsBaseDecode, __single_base_code__)',
                            'pkg/obialign/verif_hooks_c08.go (exports _PairingScorePeAlign, the two tables, the observed gap penalty)',
                            'independent DP / naive vote / column oracle in harness/c08.go',
                            'float comparisons of ratios of integers < 2^20 are exact (4-mer relative score, min identity)'],
 'modelled': 'pkg/obialign pairedendalign.go (_FillMatrixPeLeftAlign, _FillMatrixPeRightAlign, PEAlign exact and fast), backtracking.go (_Backtracking), '
             'alignment.go (_BuildAlignment, BuildQualityConsensus without the mismatch statistics map), pkg/obikmer encodefourmer.go (Encode4mer, '
             'Index4mer, FastShiftFourMer), pkg/obitools/obipairing pairing.go (AssemblePESequences, JoinPairedSequence; score_norm and '
             'paring_fast_score, rounded floats, are not printed)',
 'assumptions': ['reads are non-empty and lower-case (obiseq.SetSequence lower-cases), qualities 0..93 with len(qual) = len(seq)',
                 'the score tables are finite (|entry| < 2^40): int sums do not wrap',
                 'the 4-mer vote result satisfies VoteInRange (checked on every fast case through the correspondence: the model would report a panic)']}
