from common import LEAN_TB

CFG = {'lean_modules': ['ObiVerif.Props.C12'],
 'gen': True,
 'thorough_seeds': 8,
 'rule': 'cases = (sample sheet, read): sheets rendered in the old ngsfilter text or in CSV with @param lines (1-3 markers, plain or IUPAC primers, tag '
         'lengths 0/3..9 per side, asymmetric and absent tags, shared tags between samples, strict/hamming/indel, spacers 0..3 (unequal on the two sides), tag '
         'delimiters, rescue indels, primer budgets 0..4 and -e override, global / forward_ / reverse_ / per-primer parameter forms, comments, upper case, '
         'permuted columns, extra annotation column) read by the real ReadNGSFilter; reads BUILT from a declared sample: flank + tag + spacer + primer '
         'instance + barcode + rc(primer instance) + rc(spacer) + rc(tag) + flank in both orientations (1/6 of the reads without left / right flank: the outer '
         'tag touches the read end), primer mismatches within and beyond the budget, tag errors incl. built ties between two declared tags, missing priming '
         'sites, chimeras of 1..3 amplicons, truncated reads; expectations (generator intent + strand symmetry) are checked for fixed-length AND delimited '
         'tags; hand-picked sheets (inconsistent tag lengths, a primer used twice, close primers, duplicated tag pair, empty read, primer dimers); unit cases '
         'of Hamming / Levenshtein / lookForTag / lookForRescueTag; `multi` cases = HISTORIES: one sheet, 2..8 reads sent in order through ONE library object '
         "(and each read again through a library read afresh), then the whole obimultiplex stage (IExtractBarcode with the options set through the command's "
         'own parser: nothing / --keep-errors / -u file / both) on the same reads: histories on libraries made for them (hamming / indel, same tag length on '
         'both sides, forward and reverse tag SETS different but drawn from one pool, close neighbours and ties, fixed / delimited / rescue extraction) whose '
         'reads show the same declared or erroneous tag string first on one side then on the other side of later reads, exchanged tag pairs (tag jumps), plus '
         'data sets of generated reads of every class (chimeras, lone sites, truncated reads) on random libraries; `sheet` cases: generated CSV records (0..12 '
         '@param lines over the 16 parameter names + unknown names, 0/1/2/3 values, per-primer forms with known / unknown / upper-case primers, valid and '
         'invalid integers, delimiters, booleans, matching modes; permuted / duplicated / missing columns, extra columns, tag forms a:b, a, -:b, a:-, -, "", '
         'a:b:c, duplicated tag pairs, shared primers, rows of the wrong width, header only, @param after the header; decorated with leading blanks, comments, '
         'CRLF, no final newline) and old-format lines (blank / comment lines, tabs, 5..7 fields, annotation parts) read by the real ReadNGSFilter and by the '
         'model of the reader; non-trivial = distinct well-formed case',
 'technique': 'Lean 4 theorems on a transcription of multimatch.go (distances, tag extractors, nearest-unique-tag loop, sample identification, the '
              'forward->reverse state machine) and of the semantic part of ngsfilter_read.go + the setters of ngslibrary.go / marker.go + differential '
              'correspondence with the real ReadNGSFilter (library dump: every parameter, tag length, sample, annotation of every marker, or sheet-error / '
              'fatal / panic) and ExtractMultiBarcodeSliceWorker and obimultiplex.IExtractBarcode (main output and file of unidentified reads), the primer '
              'hits being obtained from the real matcher (C10) and handed to the model as data + generator-knows-the-answer oracle, strand-symmetry oracle, '
              'brute-force safety oracle and determinism oracles (demultiplexing and sheet reading), history-independence oracle (a read after others on one '
              'library object = the read on a fresh library), routing oracles (no unassigned record in the main output, nothing lost) and the tie of the '
              'gating model (a search started at p = the hits of the whole read starting at p or after) on the real code',
 'level_text': 'Proved in Lean for all inputs on the transcription of multimatch.go: hamming_spec; levenshtein_is_edit_distance + levenshtein_eq_editDist (the '
               'two-row programme = the textbook recurrence on the strings AS GIVEN: the recurrence is proved invariant under reversal) + '
               'levenshtein_min_script (= the cost of a cheapest edit script, inductive specification Align, independent of any recurrence) + '
               'levenshtein_metric (zero iff equal, symmetric, triangle inequality, length bounds); closest_unique / closest_unique_complete / '
               'closest_unique_perm (a tag is returned iff it is the unique minimiser, whatever the order in which the Go map delivers the tags); '
               'never_wrong_sample (a sample is returned only if the proposed pair is declared for it and each proposed tag is identified from the extracted '
               'tag under strict / hamming / indel), under the hypothesis that CheckTagLength accepted the sheet (wf_tags_nonempty, tagExtractor_untagged), '
               'with the counterexample wrong_sample_without_taglength_check (the input that failed on the unrepaired code), and '
               'accepted_sheet_never_wrong_sample: that hypothesis is discharged for every marker of a sheet accepted by the model of ReadNGSFilter in either '
               'format (accepted_sheet_wellformed: primer unicity survives the @param lines, CheckTagLength holds; params_touch_parameters_only: no @param '
               'line, whatever its name / arity / value, changes primers or the tag pair -> sample table); unassigned_is_flagged / no_amplicon_is_flagged; '
               'constructed_read (fixed tags) and constructed_read_any_tags (each side fixed-length OR delimited without rescue: any flanks, the declared '
               'spacers, absent tags, any marker position in the sheet, all three modes: exactly one amplicon = barcode, forward, matches, tags, declared '
               'sample, given primer hits at the built sites only); constructed_read_rc(_any_tags) and strand_symmetry(_any_tags) (the reverse-complemented '
               'built read with the mirrored hits gives the same amplicon, direction flipped — the different window widths of the two delimited extractors are '
               'proved immaterial on built reads, and delimited_window_asymmetry shows the exact read shape, outside built reads, where they matter); '
               'constructed_read_rescue / constructed_read_rc_rescue / strand_symmetry_rescue (each side fixed, delimited OR RESCUE — delimiter + tag indels, '
               'the observed tag with insertions / deletions within the declared number of indels between two borders, a non-delimiter base before the outer '
               'border: exactly one amplicon with the observed tags, identification = nearest unique declared tag; the two rescue windows have the same width, '
               'so the reverse complement gives the same amplicon, direction flipped; rescue_scanner_layout is the statement on lookForRescueTag itself, '
               'rescue_limits the exact counterexamples: no base before the outer border -> tag lost, outer border longer than declared -> the extra '
               'delimiters join the tag); machine_selects_adjacent_pairs and pairing_strand_symmetric (chimeras: the state machine extracts exactly the '
               'adjacent forward/complementary hit pairs, and that selection is mirror-symmetric); symmetric_class + symmetric_iff_ungated + '
               'gated_hits_break_mirror (strand symmetry beyond built reads, in terms of hit lists: for ALL the hits of the four patterns of every marker, '
               'separated — no two hits starting / ending at the same place, none nested — the sorted list collected on the reverse complement is the mirror '
               'image of the list collected on the read, and the state machine extracts the mirrored pairs, IF AND ONLY IF the gating of the two complemented '
               'searches drops nothing on either strand; a hit dropped on one strand is always collected on the other: the open gating finding is exactly the '
               'complement of the class, known_finding_is_gated places its read there); amplicon_is_exact (ANY read, ANY hits: every amplicon comes from an '
               'adjacent pair, its sequence is exactly Subsequence(f.End, m.Begin) between the two primer matches, reverse-complemented in reverse '
               'orientation, matches / error counts / tags / identification read off the read at the two hits: EmitSpec); annotation_set (the complete '
               'annotation list of an amplicon as a concatenation of blocks: primers, matches, error counts, non-empty tags, direction, per tagged side mode / '
               "distance / proposed tag, then obimultiplex_error with its text OR sample, experiment and the sheet's annotation columns); record_error_flag + "
               'main_output_is_assigned + routing_is_a_partition (model of IExtractBarcode: without --keep-errors, and in the main output with -u, only '
               'amplicons that SampleIdentifier assigned, the sequence written being that barcode; --keep-errors writes everything; -u splits the records, '
               'nothing lost). The models are tied to /repo by running the real ReadNGSFilter on generated CSV records / old-format lines (library dump '
               'compared with the model of the reader) and ReadNGSFilter + ExtractMultiBarcodeSliceWorker on generated sheets (both formats) and built reads, '
               'comparing every returned record (id, sequence, all annotations) with the model fed with the primer hits of the real matcher, on single reads '
               "and on histories of reads on one library object, and the two output streams of the real obimultiplex stage with the model's routing; oracles "
               'on the real code: generator intent, strand symmetry (incl. chimeras and delimited tags), brute-force safety, determinism over repeated runs, '
               'independence of the reads demultiplexed before on the same library (catches the seeded per-marker nearest-tag cache C12-m3 with failing '
               'histories),  sheet-as-read = sheet-as-declared.',
 'level_note': 'Trusted: Lean kernel; the transcriptions Model/Demux.lean and Model/NgsFilter.lean; the primer matcher (hits are data, C10). The model of the '
               'gated searches used by symmetric_class (gate: a search started at position p returns the hits of the whole read starting at p or after) is an '
               'assumption on the matcher, checked on every demux case against the real AllMatches (stat demux.gate-is-filter; required for mismatch-only '
               'patterns, counted for patterns with indels). Partial: strand symmetry of what each selected pair YIELDS (barcode, matches, tags) is proved for '
               'built reads with fixed-length, delimited or rescue tags; for arbitrary chimeras the pairing is proved symmetric on the class symmetric_class '
               'and what each pair yields is the harness oracle (the tag windows can reach into a neighbouring amplicon). The rescue theorems need 0 < indels '
               "< tag length and a non-delimiter base before the outer border (rescue_limits shows both failure shapes; the generator's built reads with "
               'rescue markers and no outer base are in the correspondence, without expectation). The model has no state: that the real library object keeps '
               'none between reads is the history oracle of the harness (multi cases), not a theorem. obimultiplex is modelled from the records of the worker '
               'on (route); batching, parallel workers and the writers are C03/C04/C05; the file of unidentified reads is compared as (id, sequence, error '
               'text). The sheet reader is modelled from the CSV records / the lines on: the byte-level layers (mimetype text sniffing other than the two CSV '
               'detectors, encoding/csv quoting / comments / TrimLeadingSpace, bufio line splitting) are exercised, not modelled; the annotation part of the '
               'old format is modelled for the sub-grammar key=word; only (ParseOBIFeatures is C02); text is ASCII. A CSV text that is not detected as CSV is '
               'assumed to be rejected by the old reader (no line with six blank-separated fields). Observation (not a property violation, no patch): '
               'OBIMimeNGSFilterTypeGuesser registers one more CSV detector in the global mimetype tree at every call, so repeated readings get slower (the '
               'harness reads each sheet once per library). Open finding (code left as it is, modelled as it is, theorem gating_breaks_symmetry): the hits of '
               'a complemented primer are collected only when the partner primer hits somewhere, so in reads with lone priming sites a hit lying between a '
               'forward hit and its complementary hit can be invisible to the state machine (pseudo-amplicon, and a different answer on the other strand). '
               'Three defects repaired in /repo (tag-length error dropped, map-order dependence, primer-unicity error dropped): the model is of the repaired '
               'behaviour.',
 'trusted_base': LEAN_TB + ['the primer hits (AllMatches of the four compiled patterns of each marker) are data of the model: the matcher is property C10',
                  'a search of a primer pattern started at position p returns the hits of the whole read that start at p or after (model `gate` of the '
                  'symmetry theorems; checked against the real matcher on every case)',
                  'pkg/obingslibrary/verif_hooks.go (read-only accessors to the compiled patterns, the sample table and the two private scanners)',
                  'the sheet renderers (markers -> text, CSV records -> text) and the reference identification (naive Hamming / memoised recursive edit '
                  'distance / unique minimiser) of the harness',
                  'encoding/csv, bufio and the generic part of mimetype detection (exercised, not modelled)',
                  'harness/c12_multi.go reaches the unexported option variable obimultiplex._UnidentifiedFile through go:linkname to clear -u between cases '
                  "(the option parser cannot); every other option goes through the command's own parser"],
 'modelled': 'pkg/obingslibrary multimatch.go (Hamming, Levenshtein, lookForTag, lookForRescueTag, begin/end Fixed/Delimited/Rescue tag extractors, '
             'TagExtractor, ClosestForwardTag/ClosestReverseTag, SampleIdentifier, ExtractMultiBarcode), marker.go (CheckTagLength, GetPCR, the Set… setters, '
             'normalizeTagDelimiter), ngslibrary.go (GetMarker, CheckPrimerUnicity, Set… / Set…For); pkg/obiformats ngsfilter_read.go (ReadNGSFilter, '
             'ReadCSVNGSFilter from the records on, ReadOldNGSFilter from the lines on, _parseMainNGSFilter(Tags), the table library_parameter, '
             'NGSFilterCsvDetector + the text/csv detector of mimetype); pkg/obitools/obimultiplex demultiplex.go (IExtractBarcode: FilterOn / DivideOn on '
             'obimultiplex_error under --keep-errors / -u)',
 'assumptions': ['reads and tags are made of a/c/g/t (the reverse complement is the involution proved in C07 on its alphabet)',
                 'PCR annotation values are plain words (typed values of the old format are C02)',
                 'sample sheets are ASCII; CSV fields contain no comma, quote or line break',
                 'the sample sheet defines no annotation column named obimultiplex_error (hypothesis NoErrorKey of the routing theorems)']}
