from common import LEAN_TB

CFG = {'lean_modules': ['ObiVerif.Props.C12'],
 'gen': True,
 'thorough_seeds': 8,
 'rule': 'cases = (sample sheet, read): sheets rendered in the old ngsfilter text or in CSV with @param lines (1-3 markers, plain or IUPAC primers, tag lengths '
         '0/3..9 per side, asymmetric and absent tags, shared tags between samples, strict/hamming/indel, spacers 0..3 (unequal on the two sides), tag delimiters, rescue indels, primer '
         'budgets 0..4 and -e override, global / forward_ / reverse_ / per-primer parameter forms, comments, upper case, permuted columns, extra annotation '
         'column) read by the real ReadNGSFilter; reads BUILT from a declared sample: flank + tag + spacer + primer instance + barcode + rc(primer instance) + '
         'rc(spacer) + rc(tag) + flank in both orientations (1/6 of the reads without left / right flank: the outer tag touches the read end), primer mismatches '
         'within and beyond the budget, tag errors incl. built ties between two declared tags, missing priming sites, chimeras of '
         '1..3 amplicons, truncated reads; expectations (generator intent + strand symmetry) are checked for fixed-length AND delimited tags; hand-picked sheets '
         '(inconsistent tag lengths, a primer used twice, close primers, duplicated tag pair, empty read, '
         'primer dimers); unit cases of Hamming / Levenshtein / lookForTag / lookForRescueTag; `sheet` cases: generated CSV records (0..12 @param lines over the 16 '
         'parameter names + unknown names, 0/1/2/3 values, per-primer forms with known / unknown / upper-case primers, valid and invalid integers, delimiters, '
         'booleans, matching modes; permuted / duplicated / missing columns, extra columns, tag forms a:b, a, -:b, a:-, -, "", a:b:c, duplicated tag pairs, shared primers, '
         'rows of the wrong width, header only, @param after the header; decorated with leading blanks, comments, CRLF, no final newline) and old-format lines '
         '(blank / comment lines, tabs, 5..7 fields, annotation parts) read by the real ReadNGSFilter and by the model of the reader; non-trivial = distinct well-formed case',
 'technique': 'Lean 4 theorems on a transcription of multimatch.go (distances, tag extractors, nearest-unique-tag loop, sample identification, the '
              'forward->reverse state machine) and of the semantic part of ngsfilter_read.go + the setters of ngslibrary.go / marker.go + differential correspondence '
              'with the real ReadNGSFilter (library dump: every parameter, tag length, sample, annotation of every marker, or sheet-error / fatal / panic) and '
              'ExtractMultiBarcodeSliceWorker, the primer hits '
              'being obtained from the real matcher (C10) and handed to the model as data + generator-knows-the-answer oracle, strand-symmetry oracle, '
              'brute-force safety oracle and determinism oracles (demultiplexing and sheet reading) on the real code',
 'level_text': 'Proved in Lean for all inputs on the transcription of multimatch.go: hamming_spec; levenshtein_is_edit_distance + levenshtein_eq_editDist (the two-row '
               'programme = the textbook recurrence on the strings AS GIVEN: the recurrence is proved invariant under reversal) + levenshtein_min_script (= the cost of a '
               'cheapest edit script, inductive specification Align, independent of any recurrence) + levenshtein_metric (zero iff equal, symmetric, triangle inequality, '
               'length bounds); closest_unique / closest_unique_complete / closest_unique_perm (a tag is returned iff '
               'it is the unique minimiser, whatever the order in which the Go map delivers the tags); never_wrong_sample (a sample is returned only if the '
               'proposed pair is declared for it and each proposed tag is identified from the extracted tag under strict / hamming / indel), under the hypothesis '
               'that CheckTagLength accepted the sheet (wf_tags_nonempty, tagExtractor_untagged), with the counterexample wrong_sample_without_taglength_check '
               '(the input that failed on the unrepaired code), and accepted_sheet_never_wrong_sample: that hypothesis is discharged for every marker of a sheet accepted by '
               'the model of ReadNGSFilter in either format (accepted_sheet_wellformed: primer unicity survives the @param lines, CheckTagLength holds; '
               'params_touch_parameters_only: no @param line, whatever its name / arity / value, changes primers or the tag pair -> sample table); '
               'unassigned_is_flagged / no_amplicon_is_flagged; constructed_read (fixed tags) and constructed_read_any_tags (each side fixed-length OR delimited without '
               'rescue: any flanks, the declared spacers, absent tags, any marker position in the sheet, all three modes: exactly one amplicon = barcode, forward, matches, tags, declared sample, '
               'given primer hits at the built sites only); constructed_read_rc(_any_tags) and strand_symmetry(_any_tags) (the reverse-complemented built read with the mirrored hits '
               'gives the same amplicon, direction flipped — the different window widths of the two delimited extractors are proved immaterial on built reads, and '
               'delimited_window_asymmetry shows the exact read shape, outside built reads, where they matter); machine_selects_adjacent_pairs and pairing_strand_symmetric (chimeras: the state machine extracts '
               'exactly the adjacent forward/complementary hit pairs, and that selection is mirror-symmetric). The models are tied to /repo by running the real '
               'ReadNGSFilter on generated CSV records / old-format lines (library dump compared with the model of the reader) and ReadNGSFilter + '
               'ExtractMultiBarcodeSliceWorker on generated sheets (both formats) and built reads, comparing every returned record '
               '(id, sequence, all annotations) with the model fed with the primer hits of the real matcher; oracles on the real code: generator intent, '
               'strand symmetry (incl. chimeras and delimited tags), brute-force safety, determinism over repeated runs, sheet-as-read = sheet-as-declared.',
 'level_note': 'Trusted: Lean kernel; the transcriptions Model/Demux.lean and Model/NgsFilter.lean; the primer matcher (hits are data, C10). Partial: strand symmetry of what each '
               'selected pair yields is proved for built reads with fixed-length or delimited tags; the rescue extractors (delimiter + tag indels) are modelled and compared '
               'but no positive theorem is proved about them (the property exercises them for the safety clause only: never_wrong_sample covers them); for arbitrary '
               'chimeras symmetry is the harness oracle. The sheet reader is modelled from the CSV records / the lines on: the byte-level layers (mimetype text sniffing other '
               'than the two CSV detectors, encoding/csv quoting / comments / TrimLeadingSpace, bufio line splitting) are exercised, not modelled; the annotation part of the old '
               'format is modelled for the sub-grammar key=word; only (ParseOBIFeatures is C02); text is ASCII. A CSV text that is not detected as CSV is assumed to be '
               'rejected by the old reader (no line with six blank-separated fields). Observation (not a property violation, no patch): OBIMimeNGSFilterTypeGuesser '
               'registers one more CSV detector in the global mimetype tree at every call, so repeated readings get slower (the harness reads each sheet once per library). '
               'Open finding (code left as it is, modelled as it is, theorem gating_breaks_symmetry): the hits of a complemented primer are collected only when the partner primer hits somewhere, so in reads with lone priming sites a hit lying between a forward hit and its complementary hit can be invisible to the state machine (pseudo-amplicon, and a different answer on the other strand). Three defects repaired in /repo '
               '(tag-length error dropped, map-order dependence, primer-unicity error dropped): the model is of the repaired behaviour.',
 'trusted_base': LEAN_TB + ['the primer hits (AllMatches of the four compiled patterns of each marker) are data of the model: the matcher is property C10',
                            'pkg/obingslibrary/verif_hooks.go (read-only accessors to the compiled patterns, the sample table and the two private scanners)',
                            'the sheet renderers (markers -> text, CSV records -> text) and the reference identification (naive Hamming / memoised recursive edit distance / unique minimiser) of the harness',
                            'encoding/csv, bufio and the generic part of mimetype detection (exercised, not modelled)'],
 'modelled': 'pkg/obingslibrary multimatch.go (Hamming, Levenshtein, lookForTag, lookForRescueTag, begin/end Fixed/Delimited/Rescue tag extractors, TagExtractor, '
             'ClosestForwardTag/ClosestReverseTag, SampleIdentifier, ExtractMultiBarcode), marker.go (CheckTagLength, GetPCR, the Set… setters, normalizeTagDelimiter), '
             'ngslibrary.go (GetMarker, CheckPrimerUnicity, Set… / Set…For); pkg/obiformats ngsfilter_read.go (ReadNGSFilter, ReadCSVNGSFilter from the records on, '
             'ReadOldNGSFilter from the lines on, _parseMainNGSFilter(Tags), the table library_parameter, NGSFilterCsvDetector + the text/csv detector of mimetype)',
 'assumptions': ['reads and tags are made of a/c/g/t (the reverse complement is the involution proved in C07 on its alphabet)',
                 'PCR annotation values are plain words (typed values of the old format are C02)',
                 'sample sheets are ASCII; CSV fields contain no comma, quote or line break']}
