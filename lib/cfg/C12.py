from common import LEAN_TB

CFG = {'lean_modules': ['ObiVerif.Props.C12'],
 'gen': True,
 'thorough_seeds': 8,
 'rule': 'cases = (sample sheet, read): sheets rendered in the old ngsfilter text or in CSV with @param lines (1-3 markers, plain or IUPAC primers, tag lengths '
         '0/3..9 per side, asymmetric and absent tags, shared tags between samples, strict/hamming/indel, spacers 0..3, tag delimiters, rescue indels, primer '
         'budgets 0..4 and -e override, global / forward_ / reverse_ / per-primer parameter forms, comments, upper case, permuted columns, extra annotation '
         'column) read by the real ReadNGSFilter; reads BUILT from a declared sample: flank + tag + spacer + primer instance + barcode + rc(primer instance) + '
         'rc(spacer) + rc(tag) + flank in both orientations, primer mismatches within and beyond the budget, tag errors, missing priming sites, chimeras of '
         '1..3 amplicons, truncated reads; hand-picked sheets (inconsistent tag lengths, a primer used twice, close primers, duplicated tag pair, empty read, '
         'primer dimers); unit cases of Hamming / Levenshtein / lookForTag / lookForRescueTag; non-trivial = distinct well-formed case',
 'technique': 'Lean 4 theorems on a transcription of multimatch.go (distances, tag extractors, nearest-unique-tag loop, sample identification, the '
              'forward->reverse state machine) + differential correspondence with the real ReadNGSFilter + ExtractMultiBarcodeSliceWorker, the primer hits '
              'being obtained from the real matcher (C10) and handed to the model as data + generator-knows-the-answer oracle, strand-symmetry oracle, '
              'brute-force safety oracle and determinism oracle on the real code',
 'level_text': 'Proved in Lean for all inputs on the transcription of multimatch.go: hamming_spec; levenshtein_is_edit_distance (the two-row programme = the textbook '
               'recurrence on the strings read from their last character); closest_unique / closest_unique_complete / closest_unique_perm (a tag is returned iff '
               'it is the unique minimiser, whatever the order in which the Go map delivers the tags); never_wrong_sample (a sample is returned only if the '
               'proposed pair is declared for it and each proposed tag is identified from the extracted tag under strict / hamming / indel), under the hypothesis '
               'that CheckTagLength accepted the sheet (wf_tags_nonempty, tagExtractor_untagged), with the counterexample wrong_sample_without_taglength_check '
               '(the input that failed on the unrepaired code); unassigned_is_flagged / no_amplicon_is_flagged; constructed_read (any flanks, spacers, fixed tags '
               'incl. absent ones, any marker position in the sheet, all three modes: exactly one amplicon = barcode, forward, matches, tags, declared sample, '
               'given primer hits at the built sites only); constructed_read_rc and strand_symmetry (the reverse-complemented built read with the mirrored hits '
               'gives the same amplicon, direction flipped); machine_selects_adjacent_pairs and pairing_strand_symmetric (chimeras: the state machine extracts '
               'exactly the adjacent forward/complementary hit pairs, and that selection is mirror-symmetric). The model is tied to /repo by running the real '
               'ReadNGSFilter + ExtractMultiBarcodeSliceWorker on generated sheets (both formats) and built reads and comparing every returned record '
               '(id, sequence, all annotations) with the model fed with the primer hits of the real matcher; oracles on the real code: generator intent, '
               'strand symmetry (incl. chimeras), brute-force safety, determinism over repeated runs, sheet-as-read = sheet-as-declared.',
 'level_note': 'Trusted: Lean kernel; the transcription Model/Demux.lean; the primer matcher (hits are data, C10). Partial: strand symmetry of what each '
               'selected pair yields is proved for built reads with fixed-length tags only (delimited tags use windows of different widths on the two sides — '
               'exercised for the safety clause only, as the property says); for arbitrary chimeras it is the harness oracle. The edit-distance specification is '
               'stated on reversed strings (prefix recurrence); its invariance under reversal is not proved. Sheet parsing (mimetype sniffing, encoding/csv, '
               'ParseOBIFeatures) is exercised through the real reader and compared with the declared sheet, not modelled. Open finding (code left as it is, modelled as it is, theorem gating_breaks_symmetry): the hits of a complemented primer are collected only when the partner primer hits somewhere, so in reads with lone priming sites a hit lying between a forward hit and its complementary hit can be invisible to the state machine (pseudo-amplicon, and a different answer on the other strand). Three defects repaired in /repo '
               '(tag-length error dropped, map-order dependence, primer-unicity error dropped): the model is of the repaired behaviour.',
 'trusted_base': LEAN_TB + ['the primer hits (AllMatches of the four compiled patterns of each marker) are data of the model: the matcher is property C10',
                            'pkg/obingslibrary/verif_hooks.go (read-only accessors to the compiled patterns, the sample table and the two private scanners)',
                            'the sheet renderer and the reference identification (naive Hamming / memoised recursive edit distance / unique minimiser) of the harness',
                            'mimetype detection of the sheet format and encoding/csv (exercised, not modelled)'],
 'modelled': 'pkg/obingslibrary multimatch.go (Hamming, Levenshtein, lookForTag, lookForRescueTag, begin/end Fixed/Delimited/Rescue tag extractors, TagExtractor, '
             'ClosestForwardTag/ClosestReverseTag, SampleIdentifier, ExtractMultiBarcode), marker.go (CheckTagLength), ngslibrary.go (CheckPrimerUnicity); '
             'ngsfilter_read.go is exercised through the real reader (its result is compared with the declared sheet)',
 'assumptions': ['reads and tags are made of a/c/g/t (the reverse complement is the involution proved in C07 on its alphabet)',
                 'PCR annotation values are plain words (typed values of the old format are C02)']}
