from common import LEAN_TB

CFG = {'lean_modules': ['ObiVerif.Props.C12', 'ObiVerif.Props.C12S', 'ObiVerif.Props.C12B', 'ObiVerif.Props.C12M'],
 'gen': True,
 'thorough_seeds': 8,
 'rule': ('cases = (sample sheet, read): sheets rendered in the old ngsfilter text or in CSV with @param lines (1-3 markers, plain or IUPAC primers, tag lengths 0/3..9 '
 'per side, asymmetric and absent tags, shared tags between samples, strict/hamming/indel, spacers 0..3 (unequal on the two sides), tag delimiters, rescue '
 'indels, primer budgets 0..4 and -e override, global / forward_ / reverse_ / per-primer parameter forms, comments, upper case, permuted columns, extra '
 'annotation column) read by the real ReadNGSFilter; reads BUILT from a declared sample: flank + tag + spacer + primer instance + barcode + rc(primer '
 'instance) + rc(spacer) + rc(tag) + flank in both orientations (1/6 of the reads without left / right flank: the outer tag touches the read end), primer '
 'mismatches within and beyond the budget, tag errors incl. built ties between two declared tags, missing priming sites, chimeras of 1..3 amplicons, truncated '
 'reads; expectations (generator intent + strand symmetry) are checked for fixed-length AND delimited tags; hand-picked sheets (inconsistent tag lengths, a '
 'primer used twice, close primers, duplicated tag pair, empty read, primer dimers); unit cases of Hamming / Levenshtein / lookForTag / lookForRescueTag; '
 '`multi` cases = HISTORIES: one sheet, 2..8 reads sent in order through ONE library object (and each read again through a library read afresh), then the '
 "whole obimultiplex stage (IExtractBarcode with the options set through the command's own parser: nothing / --keep-errors / -u file / both) on the same "
 'reads: histories on libraries made for them (hamming / indel, same tag length on both sides, forward and reverse tag SETS different but drawn from one pool, '
 'close neighbours and ties, fixed / delimited / rescue extraction) whose reads show the same declared or erroneous tag string first on one side then on the '
 'other side of later reads, exchanged tag pairs (tag jumps), plus data sets of generated reads of every class (chimeras, lone sites, truncated reads) on '
 'random libraries; `sheet` cases: generated CSV records (0..12 @param lines over the 16 parameter names + unknown names, 0/1/2/3 values, per-primer forms '
 'with known / unknown / upper-case primers, valid and invalid integers, delimiters, booleans, matching modes; permuted / duplicated / missing columns, extra '
 'columns, tag forms a:b, a, -:b, a:-, -, "", a:b:c, duplicated tag pairs, shared primers, rows of the wrong width, header only, @param after the header; '
 'decorated with leading blanks, comments, CRLF, no final newline) and old-format lines (blank / comment lines, tabs, 5..7 fields, annotation parts) read by '
 'the real ReadNGSFilter and by the model of the reader; `sheetb` cases: the sheets from their BYTES — renderings of generated CSV records / old-format lines '
 'with byte-level decorations (mixed LF / CRLF, a lone CR at the end, no final newline, blank-only lines, blanks (space, tab, VT, FF) before any field incl. '
 'the first one where reader and detectors see different records, blanks after fields, indented comments, double quotes inside bare fields, trailing commas, '
 "tab-separated old sheets, FASTQ / FASTA / EMBL / GenBank / ecoPCR look-alikes and texts with 'binary' bytes (vertical tab, 0x01, 0x1f), sheets padded beyond "
 'the 3072 bytes the detectors look at with the inconsistency before / at / after the limit, exactly 3072 bytes), hand-picked texts, the sheet printed by '
 '`obimultiplex --template` (LF and CRLF); `wk` cases: 1..3 workers (-e in -1..4, --with-indels on / off) built one after the other on ONE library object read '
 'from a generated sheet; `conc` cases: one sheet (nearest-tag libraries in hamming / indel mode, with delimited / rescue tags, random libraries of every '
 'kind) and 6..100 chimeric reads (1..10 generated reads joined by linkers: several amplicons of several markers with different outcomes per read), '
 'demultiplexed alone, then from 8..24 goroutines sharing ONE library and ONE closure per round (10..800 rounds = libraries used for the first time by '
 'overlapping calls), through the slice worker on batches of 1..64 reads (obimultiplex) or through ExtractMultiBarcode read by read (obitagpcr); non-trivial = '
 'distinct well-formed case'),
 'technique': ('Lean 4 theorems on a transcription of multimatch.go (distances, tag extractors, nearest-unique-tag loop, sample identification, the forward->reverse state '
 'machine) and of the semantic part of ngsfilter_read.go + the setters of ngslibrary.go / marker.go, of its byte-level layers (encoding/csv as configured by '
 'the reader and by the two detectors, the choice of the reader by mimetype.Detect on the first 3072 bytes, _readLines; built on the line / field models of '
 'C14 and C04) and of the library OBJECT (state threaded through worker constructions and reads) + differential correspondence with the real ReadNGSFilter '
 '(library dump: every parameter, tag length, sample, annotation of every marker, or sheet-error / fatal / panic) and ExtractMultiBarcodeSliceWorker and '
 'obimultiplex.IExtractBarcode (main output and file of unidentified reads), the primer hits being obtained from the real matcher (C10) and handed to the '
 'model as data + generator-knows-the-answer oracle, strand-symmetry oracle, brute-force safety oracle and determinism oracles (demultiplexing and sheet '
 'reading), history-independence oracle (a read after others on one library object = the read on a fresh library), routing oracles (no unassigned record in '
 'the main output, nothing lost) frame oracle (the library object after a history of reads = before), option oracles (-e / --with-indels → budgets of every '
 'marker), template oracle (the sheet printed by --template is accepted as shown), concurrent-use oracle (conc cases: every answer obtained from g goroutines '
 'sharing the library and the closure = the answer of the read alone, which is the line the model recomputes; no call dies; the library object is unchanged; '
 'the concurrent phase runs in a child process so that a runtime `concurrent map` fatal error is a failure with its input; thorough tier, first seed: four '
 'cases replayed through a `go build -race` build, a report with an access in obingslibrary / obiapat / obimultiplex / obitagpcr is a failure); the classes of '
 'the gating model (a search started at p = / ≠ the hits of the whole read starting at p or after) are counted on the real code, not required'),
 'level_text': ('Proved in Lean for all inputs on the transcription of multimatch.go: hamming_spec; levenshtein_is_edit_distance + levenshtein_eq_editDist (the two-row '
 'programme = the textbook recurrence on the strings AS GIVEN: the recurrence is proved invariant under reversal) + levenshtein_min_script (= the cost of a '
 'cheapest edit script, inductive specification Align, independent of any recurrence) + levenshtein_metric (zero iff equal, symmetric, triangle inequality, '
 'length bounds); closest_unique / closest_unique_complete / closest_unique_perm (a tag is returned iff it is the unique minimiser, whatever the order in '
 'which the Go map delivers the tags); never_wrong_sample (a sample is returned only if the proposed pair is declared for it and each proposed tag is '
 'identified from the extracted tag under strict / hamming / indel), under the hypothesis that CheckTagLength accepted the sheet (wf_tags_nonempty, '
 'tagExtractor_untagged), with the counterexample wrong_sample_without_taglength_check (the input that failed on the unrepaired code), and '
 'accepted_sheet_never_wrong_sample: that hypothesis is discharged for every marker of a sheet accepted by the model of ReadNGSFilter in either format '
 '(accepted_sheet_wellformed: primer unicity survives the @param lines, CheckTagLength holds; params_touch_parameters_only: no @param line, whatever its name '
 '/ arity / value, changes primers or the tag pair -> sample table); unassigned_is_flagged / no_amplicon_is_flagged; constructed_read (fixed tags) and '
 'constructed_read_any_tags (each side fixed-length OR delimited without rescue: any flanks, the declared spacers, absent tags, any marker position in the '
 'sheet, all three modes: exactly one amplicon = barcode, forward, matches, tags, declared sample, given primer hits at the built sites only); '
 'constructed_read_rc(_any_tags) and strand_symmetry(_any_tags) (the reverse-complemented built read with the mirrored hits gives the same amplicon, direction '
 'flipped — the different window widths of the two delimited extractors are proved immaterial on built reads, and delimited_window_asymmetry shows the exact '
 'read shape, outside built reads, where they matter); constructed_read_rescue / constructed_read_rc_rescue / strand_symmetry_rescue (each side fixed, '
 'delimited OR RESCUE — delimiter + tag indels, the observed tag with insertions / deletions within the declared number of indels between two borders, a '
 'non-delimiter base before the outer border: exactly one amplicon with the observed tags, identification = nearest unique declared tag; the two rescue '
 'windows have the same width, so the reverse complement gives the same amplicon, direction flipped; rescue_scanner_layout is the statement on '
 'lookForRescueTag itself, rescue_limits the exact counterexamples: no base before the outer border -> tag lost, outer border longer than declared -> the '
 'extra delimiters join the tag); machine_selects_adjacent_pairs and pairing_strand_symmetric (chimeras: the state machine extracts exactly the adjacent '
 'forward/complementary hit pairs, and that selection is mirror-symmetric); symmetric_class + symmetric_iff_ungated + gated_hits_break_mirror (strand symmetry '
 'beyond built reads, in terms of hit lists: for ALL the hits of the four patterns of every marker, separated — no two hits starting / ending at the same '
 'place, none nested — the sorted list collected on the reverse complement is the mirror image of the list collected on the read, and the state machine '
 'extracts the mirrored pairs, IF AND ONLY IF the gating of the two complemented searches drops nothing on either strand; a hit dropped on one strand is '
 'always collected on the other: the open gating finding is exactly the complement of the class, known_finding_is_gated places its read there); '
 'amplicon_is_exact (ANY read, ANY hits: every amplicon comes from an adjacent pair, its sequence is exactly Subsequence(f.End, m.Begin) between the two '
 'primer matches, reverse-complemented in reverse orientation, matches / error counts / tags / identification read off the read at the two hits: EmitSpec); '
 'annotation_set (the complete annotation list of an amplicon as a concatenation of blocks: primers, matches, error counts, non-empty tags, direction, per '
 "tagged side mode / distance / proposed tag, then obimultiplex_error with its text OR sample, experiment and the sheet's annotation columns); "
 'record_error_flag + main_output_is_assigned + routing_is_a_partition (model of IExtractBarcode: without --keep-errors, and in the main output with -u, only '
 'amplicons that SampleIdentifier assigned, the sequence written being that barcode; --keep-errors writes everything; -u splits the records, nothing lost). '
 'The models are tied to /repo by running the real ReadNGSFilter on generated CSV records / old-format lines (library dump compared with the model of the '
 'reader) and ReadNGSFilter + ExtractMultiBarcodeSliceWorker on generated sheets (both formats) and built reads, comparing every returned record (id, '
 'sequence, all annotations) with the model fed with the primer hits of the real matcher, on single reads and on histories of reads on one library object, and '
 "the two output streams of the real obimultiplex stage with the model's routing; oracles on the real code: generator intent, strand symmetry (incl. chimeras "
 'and delimited tags), brute-force safety, determinism over repeated runs, independence of the reads demultiplexed before on the same library (catches the '
 'seeded per-marker nearest-tag cache C12-m3 with failing histories),  sheet-as-read = sheet-as-declared. Third pass. THE LIBRARY OBJECT (Props/C12S.lean on '
 'Model/DemuxState.lean: parameters, sample tables and compiled patterns — which freeze the budgets they were compiled with — threaded as state): '
 'read_leaves_library_unchanged / history_leaves_library_unchanged (frame: ExtractMultiBarcode writes nothing), read_independence (the results of a history on '
 'one object = each read alone on the initial state), answer_independent_of_history, history_perm (order of the reads immaterial); worker_options_spec (-e > 0 '
 "replaces both budgets of every marker, -e <= 0 keeps the sheet's values, --with-indels can only switch indels on, nothing else is touched), "
 'worker_compiles_current_parameters, mkWorker_idem, worker_options_persist (the object REMEMBERS the workers built before: state that exists in the code as '
 'it is; obimultiplex builds one worker per object); params_applied_in_order (@param lines compose in file order: a later line overrides an earlier '
 'conflicting one), last_global_param_wins. THE SHEET FROM ITS BYTES (Props/C12B.lean on Model/NgsFilterBytes.lean): csv_rendering_read_back (every rendering '
 'of records — blanks before any field, LF or CRLF per line, comment and empty lines anywhere — is read back by encoding/csv as configured by ReadCSVNGSFilter '
 'as exactly the declared records), csv_rendering_seen_by_detectors (the same without TrimLeadingSpace), rendering_reader_choice, '
 'accepted_csv_sheet_is_declared_table_partial (PARTIAL: renderings shorter than the 3072-byte window, that do not look like a sequence file and hold no '
 "'binary data byte': such a sheet goes to the CSV reader iff its records have a constant number > 1 of fields, or those that are not @param lines do, and is "
 'then read from exactly the declared records), old_rendering_read_back (_readLines returns the declared lines whatever the blanks around them, LF / CRLF, '
 'blank lines), accepted_bytes_wellformed (a library returned for ANY bytes by either reader satisfies the hypotheses of never_wrong_sample). CHIMERAS '
 '(Props/C12M.lean): pair_yield_strand_symmetric (any read A ++ P1 ++ BC ++ P2 ++ B with ARBITRARY flanks A, B — other amplicons, lone sites, a tag window '
 'reaching into the neighbour, a flank too short — and fixed-length or absent tags on both sides: the pair yields barcode / matches / error counts / tags / '
 'identification as a function of (P1, BC, P2, the two tag windows), and the reverse-complemented read with the mirrored hits yields the same amplicon, '
 'direction flipped, coordinates mirrored: with symmetric_class this is strand symmetry of whole chimeric reads for fixed tags), '
 'pair_yield_depends_on_tag_windows_only; positional_gating_breaks_symmetry (the gating finding has a second, positional part that also fails when BOTH direct '
 'primers hit: failing read on the real code in the corpus). GATED SEARCHES: gated_search_is_filter_on_separated_hits / gated_search_is_not_filter_in_general '
 "(on C10's model of FilterBestMatch: a search started at p is the filter of the whole-read search when the raw hits are pairwise non-overlapping, and not in "
 'general).'),
 'level_note': ('Trusted: Lean kernel; the transcriptions Model/Demux.lean and Model/NgsFilter.lean; the primer matcher (hits are data, C10). The model `gate` of the gated '
 'searches used by symmetric_class / symmetric_iff_ungated (a search started at position p returns the hits of the whole read starting at p or after) is NOT a '
 'property of the matcher (FilterBestMatch keeps one representative per chain of overlapping raw hits, and the chains seen from p differ from those seen from '
 "0): it is exact when the raw hits of the pattern are pairwise non-overlapping (theorem gated_search_is_filter_on_separated_hits, on C10's model of "
 'FilterBestMatch, for mismatch-only patterns whose raw search from p is the filter of the raw search from 0) and false otherwise '
 '(gated_search_is_not_filter_in_general: the shape met by the sweep on a degenerate IUPAC primer with 3 mismatches). The classes are COUNTED on every demux '
 'case (stats demux.gate-is-filter, demux.gate-is-not-filter.overlapping-raw-hits / .raw-search-not-a-filter / .UNEXPLAINED-separated-raw-hits, '
 'demux.gate-differs-indel-pattern), never reported as failures: the model of demultiplexing takes the hit lists of the real gated calls as data and does not '
 'use `gate`. Strand symmetry of what each selected pair YIELDS is proved for ARBITRARY flanks (chimeras) when both sides of the marker use fixed-length or '
 "absent tags (pair_yield_strand_symmetric, hit pairs with begin < end < begin' < end' inside the read); for delimited tags with a spacer > 0 it is false "
 'outside built reads (delimited_window_asymmetry is the exact counterexample: the two windows have different widths); for delimited tags with spacer 0 and '
 'for rescue tags it is proved on built reads only (strand_symmetry_any_tags / strand_symmetry_rescue) and is the harness oracle on chimeras. The rescue '
 "theorems need 0 < indels < tag length and a non-delimiter base before the outer border (rescue_limits shows both failure shapes; the generator's built reads "
 'with rescue markers and no outer base are in the correspondence, without expectation). The library object is modelled WITH its state (Model/DemuxState.lean) '
 'and read-independence is a theorem on the transcription (the per-read code has no write to the library: every access is a read of the state argument); the '
 'model executable runs every history of the multi cases through that state-passing model (runHistory on one object, the matcher parameter being the hit lists '
 'of the real calls); that the transcription misses no write of the real code is tied by the history oracle (a read after others = the read on a fresh '
 'library) and the frame oracle (library dump after = before) of the multi cases — the seeded cache C12-m3 is such a missed write and is caught by them. The '
 'matcher is a parameter of that model (its hits are a function of the primers, the frozen budgets and the read: C10); the pooled annotation maps of obiseq '
 'are C05. obimultiplex is modelled from the records of the worker on (route); batching, parallel workers and the writers are C03/C04/C05; the file of '
 'unidentified reads is compared as (id, sequence, error text). The sheet reader is modelled from the BYTES (sheetb cases) for texts in which no CSV field '
 'starts with a double quote (a quoted field is the explicit outcome `unmodelled`, never generated; with LazyQuotes a quote inside a bare field is an ordinary '
 'byte): encoding/csv comments / empty lines / TrimLeadingSpace / CRLF, the 3072-byte window of the detectors with its dropped last line, and the choice of '
 'the reader IN THE STATE OF THE MIMETYPE TREE OF THE RUNNING COMMAND (whichReader): the tree is process-global and both guessers of obiformats extend it, in '
 'front, at every call; obimultiplex opens its input (OBIMimeTypeGuesser: FASTQ / FASTA / EMBL / GenBank-prefix / ecoPCR detectors and a csv detector attached '
 "to the ROOT, asked even for data with 'binary' bytes such as a vertical tab) before it reads the sheet, so a sheet that looks like a sequence file (e.g. "
 "'@param,…' followed by one line without blank, or by a line starting with '+': FASTQ) goes to the old reader, a constant-width CSV is text/csv whatever its "
 'bytes, and only then magic.Text and NGSFilterCsvDetector are asked; tab-separated-values / plain text / octet-stream all go to the old reader. The harness '
 'pins that state once per process (OBSERVATION, no patch: in a process that has not opened a sequence file, ReadNGSFilter sends a constant-width CSV holding '
 'a vertical tab to the old reader, which rejects it; the answer of a library function depends on what the process did before). Not modelled: the second form '
 "of the GenBank detector (a first line '… Genetic Sequence Data Bank'), the other children of text/plain (html, xml, php, js, lua, perl, python, json, "
 'ndjson, rtf, srt, tcl, vcard, icalendar, warc, vtt) and the formats recognised by magic numbers — the text is assumed to be ASCII that none of them '
 'recognises. The read-back theorems are stated for renderings with a final line terminator (no final newline, a lone final CR: correspondence only) and '
 'accepted_csv_sheet_is_declared_table_partial for renderings below the 3072-byte window that do not look like a sequence file and hold no binary byte (beyond '
 'the window: modelled and tied, not in the theorem); the annotation part of the old format is modelled for the sub-grammar key=word; only (ParseOBIFeatures '
 'is C02); text is ASCII. In the record-level model (sheet cases) a CSV text that is not detected as CSV is assumed to be rejected by the old reader; the '
 'byte-level model (sheetb cases) sends it to the old reader and reads its lines. Observation (not a property violation, no patch): '
 'OBIMimeNGSFilterTypeGuesser registers one more CSV detector in the global mimetype tree at every call, so repeated readings get slower (the harness reads '
 'each sheet once per library). obimultiplex command level: --allowed-mismatches / --with-indels → library parameters is modelled (applyOpts) and tied on the '
 'real worker constructor (wk cases, incl. several constructions on one object); --keep-errors / --unidentified are modelled (route) and tied through the '
 "command's own option parser and IExtractBarcode; the template printed by --template is read by the real reader and by the byte-level model (LF and CRLF). "
 'Open finding (code left as it is, modelled as it is, theorems gating_breaks_symmetry and positional_gating_breaks_symmetry; KEPT after measurement: removing '
 'the gating costs a fourth whole-read scan per marker on every ordinary read — 3 -> 4 scans, 2 -> 4 on reads without site; measured 11 -> 23 us per read for '
 "the scans of the template library on the loaded machine, the whole worker taking ~30 us — and a fix limited to 'scan the complemented primer when the direct "
 "one misses' costs the same fourth scan and leaves the positional half of the asymmetry): the hits of a complemented primer are collected only when the "
 'partner primer hits somewhere, so in reads with lone priming sites a hit lying between a forward hit and its complementary hit can be invisible to the state '
 'machine (pseudo-amplicon, and a different answer on the other strand). Three defects repaired in /repo (tag-length error dropped, map-order dependence, '
 'primer-unicity error dropped): the model is of the repaired behaviour. Concurrency: obimultiplex (IExtractBarcode) reads ONE library, builds ONE closure '
 'ExtractMultiBarcodeSliceWorker (options applied and the four patterns of every marker compiled once, before any worker starts) and hands it to '
 'MakeISliceWorker, whose nworkers goroutines all call that closure, each on the slice of its own batch; obitagpcr compiles the library once (Compile2) and '
 'its nworkers goroutines call ngsfilter.ExtractMultiBarcode(consensus) directly. Shared by the calls: the *NGSLibrary (Markers map; per marker the '
 'parameters, the tag pair -> PCR map and the four compiled ApatPattern, whose C matcher has its own concurrent oracle in C10), the closure, the process-wide '
 'pools of obiseq (C05). Per call, nothing handed in: the ApatSequence of the read, the hit list, the marker / primer tables, the sorted primer pairs, the '
 'scratch annotation map of every amplicon, the two rows of Levenshtein, the result slice. The model side of the `conc` op is the sequential history model '
 '(read_independence: the answer of a read is its answer alone); that the real calls share nothing that changes an answer is the conc oracle on the real code, '
 'not a theorem (the Go memory model is not modelled). Checked by seeded regressions in a scratch tree, each exact sequentially and reported with a failing '
 'input: hit list hoisted to a package-level buffer (conc.differs / conc.panic in every case), Levenshtein rows hoisted (conc.differs in the indel-mode cases, '
 'incl. a WRONG SAMPLE), nearest-tag memo in an unsynchronised map keyed by (marker, side, mode, tag) (conc.crash), result slice kept in the library object '
 '(conc.differs / conc.crash), sorted primer pairs built in place at first use (seen only by the many-round `first` cases, in about 3 quick runs out of 4). '
 'Limits: overlap is a matter of timing (the quick tier gives ~76 000 concurrent calls on ~690 libraries per run); the race detector treats every cgo call as '
 'a synchronisation point, so a race between two accesses separated by calls to the C matcher is reported only when the accesses physically overlap; the whole '
 'iterator pipeline around the worker (batches, FilterOn / DivideOn) under parallel workers is C03.'),
 'trusted_base': LEAN_TB + ['the primer hits (AllMatches of the four compiled patterns of each marker) are data of the model: the matcher is property C10',
 'model `gate` of the symmetry theorems (a search started at p = the hits of the whole read starting at p or after): exact on pairwise non-overlapping raw '
 "hits (proved on C10's model of FilterBestMatch), counted on every case, not assumed elsewhere",
 'pkg/obingslibrary/verif_hooks.go (read-only accessors to the compiled patterns, the sample table and the two private scanners)',
 'the sheet renderers (markers -> text, CSV records -> text) and the reference identification (naive Hamming / memoised recursive edit distance / unique '
 'minimiser) of the harness',
 'encoding/csv quoted fields, and the second form of the GenBank detector, the children of text/plain other than text/csv and the ngsfilter extension, and the '
 'magic-number formats in mimetype detection (not modelled: texts are plain ASCII without a field starting with a double quote)',
 'harness/c12_multi.go reaches the unexported option variable obimultiplex._UnidentifiedFile through go:linkname to clear -u between cases (the option parser '
 "cannot); every other option goes through the command's own parser",
 'Model/TaxLoad.lean (rawLines, csvLine, splitOn, trimLeft: the line / field layer of encoding/csv and bufio written for C14) and Model/Apat.lean filterBest '
 '(C10) are imported, not re-derived',
 'the harness calls obiformats.OBIMimeTypeGuesser once per process before any sheet is read, to put the process-global mimetype tree in the state it has when '
 'obimultiplex reads its sheet',
 'harness/c12_conc.go: the barrier / child-process machinery of the concurrent phase and the split of the records of a batch by read number (identifier r<i> '
 'or r<i>_sub[…])'],
 'modelled': ('pkg/obingslibrary multimatch.go (Hamming, Levenshtein, lookForTag, lookForRescueTag, begin/end Fixed/Delimited/Rescue tag extractors, TagExtractor, '
 'ClosestForwardTag/ClosestReverseTag, SampleIdentifier, ExtractMultiBarcode), marker.go (CheckTagLength, GetPCR, the Set… setters, normalizeTagDelimiter), '
 'ngslibrary.go (GetMarker, CheckPrimerUnicity, Set… / Set…For); ExtractMultiBarcodeSliceWorker (options -> parameters -> Compile2) and ExtractMultiBarcode as '
 'state-passing functions on the library object; pkg/obiformats ngsfilter_read.go (ReadNGSFilter from the bytes on: OBIMimeNGSFilterTypeGuesser / dropLastLine '
 "/ mimetype's 3072-byte window and csv / tsv detectors, encoding/csv as configured, _readLines; ReadCSVNGSFilter, ReadOldNGSFilter, "
 '_parseMainNGSFilter(Tags), the table library_parameter, NGSFilterCsvDetector + the text/csv detector of mimetype); pkg/obitools/obimultiplex demultiplex.go '
 '(IExtractBarcode: FilterOn / DivideOn on obimultiplex_error under --keep-errors / -u)'),
 'assumptions': ['reads and tags are made of a/c/g/t (the reverse complement is the involution proved in C07 on its alphabet)',
 'PCR annotation values are plain words (typed values of the old format are C02)',
 'sample sheets are plain ASCII text; no CSV field starts with a double quote (quotes elsewhere are modelled); in the record-level cases CSV fields contain no '
 'comma, quote or line break',
 'the sample sheet defines no annotation column named obimultiplex_error (hypothesis NoErrorKey of the routing theorems)']}
