from common import LEAN_TB

CFG = {'lean_modules': ['ObiVerif.Props.C14'],
 'gen': False,
 'thorough_seeds': 8,
 'rule': 'cases = (taxonomy as taxid:parent:rank list + merged-id aliases in load order, list of queries): a hand-picked corpus (root alone, ancestor pairs, '
         'alias chains / shadowed / overwritten aliases, root taxid != 1, taxid 0, two roots, missing parent, odd rank strings, dump loading); every rooted '
         'labelled tree on n <= 5 (quick) / n <= 6 (thorough) nodes with all pairs LCA / sub-clade, all paths, all (node, rank) queries, every non-empty subset '
         '(n <= 4) as a merged_taxid map, all (clade, sequence taxid) restrict/ignore queries; the n <= 4 shapes relabelled with arbitrary taxids, aliases and '
         'unknown taxids; 2500 (quick) / 5000 (thorough, per seed) random trees of 1..340 nodes in seven shapes (uniform, chain, star, deep, heap, caterpillar, '
         'local) with the 44 NCBI rank labels or odd labels, 12..42 random queries each; 12 / 24 trees of 1000..7000 nodes (random, chain, star, deep) with 60 '
         'queries; one case in six is loaded through a synthetic NCBI dump directory; 28 query kinds (the 16 older ones + Taxon(string) forms str/rss, the drained '
         'iterators isub/irank/ibel, taxonomic_path, scientific name, full state of the nodes/alias maps); mode dump: 300 (quick) / 1000 (thorough, per seed) '
         'trees of 1..230 nodes rendered as the bytes of nodes.dmp / names.dmp / merged.dmp in random equivalent layouts (NCBI layout, no blanks, blanks, CRLF, '
         'comment and empty lines, no final line break, final \\r, + signs and leading zeros, extra fields, decoy names) with the declared tree as oracle, one in three '
         'damaged in one of 19 ways (duplicate taxid, bare quote, field count change, not-a-number, missing field, blank line, empty/short/comment/over-long line in '
         'names.dmp, unknown parent, damaged merged.dmp, taxid 2^63-1 / 2^63, \\v \\f \\r blanks) where the loader model is the reference; 30 hand-written dump cases; '
         'second pass: 36 query kinds (+ vf sp hq sw sn tr: IsAValidTaxon(true), Taxonomy.IsSubCladeOf / HasRequiredRank closures, MakeSetSpecies/Genus/Family/TaxonAtRank workers and '
         'their Set… methods, SetScientificName, SetTaxonomicRank called directly; wlo: Taxonomy.LCA run 300 times on a map in which one taxon has a zero and a positive count under two keys, '
         'the set of answers over the map orders); sequence taxids drawn alias-heavy (35% merged id incl. alias of alias, 10% unknown, 10% root, 5% none); every n <= 4 shape with aliases x every '
         'carried taxid (nodes, merged ids, unknown, none) x every clade (nodes, merged ids) x all sequence level queries (21 cases of 100-400 queries); alias oracle on every sequence query whose '
         'taxid is a merged id (rerun with the current taxid, answers must be equal: ~6600 per quick run, ~1100 through alias chains); merged_taxid maps with several keys for one taxon carry different '
         'positive counts; one dump case in three is in the exact NCBI layout and flagged L: the model checks that nodes.dmp / merged.dmp are byte for byte renderNodes / renderMerged of the '
         'declared tree (so that loadDump_rendered applies to the very files the real loader reads); taxd cases up to 300 nodes are loaded by the model from its own rendering; '
         'third pass: 40 query kinds (+ itx isl isp ifind: Taxonomy.Iterator() drained; a TaxonSlice source of 0..10 taxa with repetitions and merged ids through IFilterOnSubcladeOf / IFilterOnTaxRank / '
         'IFilterBelongingSubclades / the obifind ITaxonRestrictions pipeline, TaxonSlice() in order and TaxonSet() keys; an iterator and its Split() under a schedule of Next calls of the two handles, what each receives, '
         'what is left, Finished, the current of each; obifind ITaxonRestrictions on Taxonomy.Iterator()); on every tree of n <= 5 (6) nodes: every node as the clade of the subtree enumeration from a descending source with a '
         'repetition, every (rank, clade) pair through obifind, every schedule of two consumers up to n+2 calls (n <= 3); merged_taxid maps now carry unrelated counts under the keys of one taxon (a zero next to a positive '
         'one in ~10% of the maps), every wl map of two or more keys is run 7 times (wl.order), wlo demands ONE answer over 300 runs = the tree-implied one (also for all-zero maps: the root); '
         'non-trivial = distinct well-formed case line',
 'technique': 'Lean 4 theorems on a functional model of the obitax queries for every well-formed taxonomy (any size, any taxids, any ranks, any alias table) + '
              'differential correspondence of the model with the real obitax / obigrep / obiannotate code on synthetic taxonomies + naive ancestor-set oracle',
 'level_text': 'For every well-formed taxonomy (WF: one self-parent root, parents are nodes, a depth function decreasing along parent links — shown equivalent to '
               '"every node reaches the root" by wellFormed_of_reaches) of any size, taxids, ranks and alias table, proved in full on the Lean model: path_spec (the path '
               'runs node -> root along parent links, lists exactly the ancestors-or-self, each once), lca_total / lca_is_common_ancestor / lca_deepest / lca_unique / '
               'lca_comm / lca_idem / lca_assoc, fuel_nodes_suffices (the fuel nodes+1 of the model executable never runs out on a well-formed taxonomy), isSubClade_iff_anc, taxonAtRank_first / _some / _none, hasRankDefined_iff, resolve_node / alias_resolves / '
               'resolve_lands_on_node, restrictTo_spec / ignoreTaxon_spec / requireRanks_spec / taxFilter_spec / taxFilter_fatal / inCladeSlot_spec / '
               'setTaxonAtRank_spec (fatal exactly for an unknown clade or a rank no node carries; otherwise select exactly what the ancestor relation implies), '
               'filterSubclade_spec / filterRank_spec / filterBelonging_spec (the drained ITaxonSet filters IFilterOnSubcladeOf, IFilterOnTaxRank, IFilterBelongingSubclades yield exactly the '
               'taxa of the source in the clade(s) / of the rank, in source order, each once when the source lists it once), pathString_items (taxonomic_path splits back into its items), '
               'taxid_decimal_roundtrip / taxid_TX_roundtrip / taxonOfString_forms / taxonOfString_noparse (Taxon(string): Atoi(Itoa n) = n; any text pre ++ "TX:" ++ decimal n ++ suf with no earlier '
               'TX:<digit> in pre and no digit heading suf designates n; otherwise parse error), loadDump_declared / loaded_nodes_declared / loaded_aliases / loadNodes_panic (LoadNCBITaxDump on files '
               'whose csv records are the declarations builds exactly the declared nodes map - last line of a taxid wins, every line when taxids are distinct, no other node, ids complete - and the '
               'alias table AddNewAlias*(merged.dmp in file order), resolution always landing on a node of the dump; a record with a missing or non-numeric field panics), '
               'weightedLca_threshold_one (Taxonomy.LCA at threshold 1.0 on a non-empty map of known taxids with positive counts = left fold of TaxNode.LCA over the '
               'taxa present = the deepest common ancestor of all of them, independent of weights and order), weightedLca_unknown, weightedLca_empty. '
               'Second pass: rendered_csv_records / loadDump_rendered / rendered_dump_is_declared_tree (byte level: for every list of declarations whose fields hold no |, line feed or double quote, taxids < 2^63, '
               'ranks / names / classes without blank at either end, a constant number of columns, names.dmp lines within 4096 bytes, the files rendered in the NCBI layout - fields separated by \\t|\\t, lines '
               'ended by \\t|\\n - are read by the csv reader to the end, record for record, and LoadNCBITaxDump builds exactly the declared nodes, scientific names and merged ids: parse (render decl) = decl, '
               'so loadDump_declared applies to rendered dumps unconditionally); taxon_idempotent, isValidTaxon_alias / _unknown, isSubCladeOfPred_spec / _eq_restrictTo, hasRequiredRankPred_eq_requireRanks, '
               'seq_predicates_alias, seq_predicates_clade_alias, seq_annotations_alias, seq_annotations_spec, weightedLca_alias (every sequence predicate / method / worker of sequence_predicate.go, sequence_methods.go, '
               'sequence_workers.go and the obigrep filters answer for a sequence carrying a merged taxid - or a clade given by a merged taxid - exactly what they answer for the current taxid; IsAValidTaxon(true) rewrites '
               'the merged taxid into the current one and is then a fixed point); Third pass: weightedLca_counts / weightedLca_order_free / taxonomicDistribution_sums / taxCount_pos (FULL, no side condition on the map: for every merged_taxid map of known taxids - zero counts, merged taxids, '
               'several keys for one taxon with any counts - Taxonomy.LCA(sequence, 1.0) is the deepest common ancestor of the taxa whose SUMMED count is positive, the root for a non-empty all-zero map, nil for the empty map, and '
               'the same for every permutation of the key list, i.e. every Go map iteration order; TaxonomicDistribution holds one entry per taxon with the sum of the counts of its keys), with taxDistAssign_last_wins / '
               'weightedLca_order_counterexample kept as theorems about the UNREPAIRED assignment semantics (defs taxDistAssign / weightedLcaAssign: the code before /repo 5d9c1cf), on which the answer did depend on the order; '
               'iterator_drains_source / taxonSet_of_iterator (the ITaxonSet protocol Next / Get / Finished as a state machine: TaxonSlice() receives exactly what the producer sends, in order, each once, the loop ends with fuel len+1, '
               'the handle is then finished for good; TaxonSet() holds one entry per taxid received), taxonomy_iterator_all_nodes / subtree_enumeration / rank_enumeration / findRestrict_spec / findRestrict_enumeration '
               '(Taxonomy.Iterator() lists every node exactly once; Taxonomy.IFilterOnSubcladeOf(c) lists exactly the descendant set of c, no duplicate; IFilterOnTaxRank the nodes of the rank; obifind ITaxonRestrictions = rank filter '
               'then IFilterBelongingSubclades exactly the nodes of the rank in the clades; for two Go map orders the listings are permutations of one another), split_every_taxon_once (ITaxonSet.Split(): for EVERY interleaving of the '
               'Next calls of two consumers each taxon of the source goes to exactly one of them, each sees its share in source order, and once more calls were made than there are taxa the shares are a partition of the source). The model is '
               'tied to pkg/obitax, obigrep/options.go and the obiannotate workers by running both on the same synthetic taxonomies (API-built and loaded from dump '
               'directories), all rooted labelled trees up to 6 nodes exhaustively, random trees to 7000 nodes, with an independent ancestor-set oracle on the real code.',
 'level_note': 'Trusted: Lean kernel; the transcription Model/Tax.lean (pointer comparisons of TaxNode read as taxid comparisons; the float test rmax >= 1.0 read as '
               'the integer test total > 0 and weighMax = total); Model/TaxLoad.lean (functional model of encoding/csv as configured by the loader, of bufio.ReadLine, strings.Split/TrimSpace, strconv.Atoi '
               'on ASCII bytes, of regexp TX:(\\d+) as leftmost scan). Model/TaxSeq.lean (sequence level closures / methods / workers as functions of the taxid attribute), Model/TaxRender.lean (the NCBI layout; the L-flagged dump cases check the '
               'file bytes against it), Model/TaxIter.lean (ITaxonSet as shared state rest-to-send + *p_finished, Next, the draining loops, Split, the obifind pipeline). Tied by correspondence only (no theorem): the byte level of the loader on layouts OTHER than the NCBI one (no blanks / extra blanks, \\r\\n, comments, empty lines, no final line '
               'break, + signs and leading zeros: 100+ generated layouts per run with the declared tree as oracle) and on damaged files (ErrBareQuote / ErrFieldCount ending the loading silently, the 4096-byte limit: model = '
               'reference); lca_name value, AddLCAWorker = Taxonomy.LCA; the goroutines and unbuffered channels under ITaxonSet (the model is the sequential protocol: one producer order, atomic receives; Split() is proved for every '
               'interleaving of the Next calls but the harness drives the two handles from one goroutine - the unsynchronised *p_finished flag under truly parallel consumers is a data race outside the model). No PARTIAL theorem is left (the order dependence of TaxonomicDistribution found in the second pass was repaired in /repo by 5d9c1cf, the model follows the repaired code, the wlo / wl.order oracles are unconditional). Decided out of scope (observations, '
               'no oracle): the loaders stop silently on a csv error keeping the records read so far (a file with a csv syntax error is not the rendering of any taxonomy - rendered_csv_records shows every rendering is read to the '
               'end -, the queries on the truncated taxonomy agree with the truncated tree, model = reference on 19 damage kinds); AddNewName drops the first alternate name of a taxon and indexes names under the taxid given '
               '(no query of the statement reads alternate names); SetScientificName writes the attribute scienctific_name (sic); IsAValidTaxon(true) on a taxonomy whose root is taxid 0 stores 1 (SetTaxid), modelled as is. Explicitly not modelled (outcome unmodelled, never generated): csv fields starting with a double quote, negative taxids, non-ASCII bytes in dump files. '
               'Not covered: thresholds below 1.0 '
               '(outside the statement; map-order dependent on ties), name-based '
               'filters (IFilterOnName), '
               'parallel consumption of an iterator from several goroutines, taxonomies that are not well formed (parent cycles hang, two roots make '
               'TaxNode.LCA index out of range — modelled as outcomes hang / panic, the latter exercised).',
 'trusted_base': LEAN_TB + ['Go map semantics (one TaxNode object per taxid after ReindexParent, so pointer comparisons are taxid comparisons)',
                            'IEEE-754 double division of integers below 2^53 (w/total = 1.0 iff w = total), used to replace the float test rmax >= 1.0 by an integer test',
                            'naive ancestor-set oracle in the harness',
                            'Model/TaxRender.lean is the NCBI layout (fields separated by tab bar tab, lines ended by tab bar line feed); checked byte for byte against the files of the L-flagged dump cases',
                            'Go standard library behaviour transcribed in Model/TaxLoad.lean: encoding/csv Reader (Comma |, Comment #, TrimLeadingSpace), bufio.Reader.ReadLine (4096), strings.TrimSpace, strconv.Atoi, regexp leftmost match'],
 'modelled': 'pkg/obitax taxonomy.go (Taxon, AddNewAlias, ReindexParent, RankList), path.go (Path, TaxonAtRank), lca.go (TaxNode.LCA, TaxonomicDistribution, '
             'Taxonomy.LCA at threshold 1.0), issuubcladeof.go (IsSubCladeOf), taxon.go (HasRankDefined), sequence_predicate.go (IsAValidTaxon with and without auto-correction, IsSubCladeOf, IsSubCladeOfSlot, HasRequiredRank), sequence_methods.go '
             '(SetTaxonAtRank, SetSpecies, SetGenus, SetFamily, SetPath, SetScientificName, SetTaxonomicRank), sequence_workers.go (MakeSetTaxonAtRankWorker, MakeSetSpecies/Genus/FamilyWorker, MakeSetPathWorker), '
             'obiannotate AddScientificNameWorker / AddTaxonRankWorker, obigrep/options.go (CLIRestrictTaxonomyPredicate, CLIAvoidTaxonomyPredicate, CLIHasRankDefinedPredicate, '
             'CLITaxonomyFilterPredicate); ncbitaxdump/read.go (loadNodeTable, loadNameTable scientific names, loadMergedTable, LoadNCBITaxDump from the file bytes), taxonomy.go Taxon(string) and '
             'IsSubCladeOfSlot on string attributes, iterator.go / filter_on_subclade_of.go / filter_on_rank.go / issuubcladeof.go IsBelongingSubclades (drained), taxonslice.go String; iterator.go ITaxonSet protocol (Iterator of TaxonSet / TaxonSlice / Taxonomy, Next, Get, Finished, Split, TaxonSet(), TaxonSlice()), obitools/obifind iterator.go '
             '(IFilterRankRestriction, ITaxonRestrictions) and options.go CLITaxonomicalRestrictions; exercised by the '
             'harness without a model of their own: AddLCAWorker, obiannotate.AddTaxonAtRankWorker name annotations, alternate names',
 'assumptions': ['the taxonomy is well formed: exactly one node is its own parent, every parent taxid is a node, every node reaches the root (a parent cycle '
                 'makes the Go loops spin forever: outcome hang of the model, never executed on the real code)',
                 'weights of a merged_taxid map are >= 0 and their sum is below 2^53 (any counts under the keys of one taxon: they are added)',
                 'dump files are ASCII, no csv field starts with a double quote, taxids are non-negative (else the loader model answers unmodelled)',
                 'threshold of the weighted LCA is exactly 1.0 (--lca-error 0); lower thresholds depend on the map iteration order on ties and are outside the statement']}
