from common import LEAN_TB

CFG = {'lean_modules': ['ObiVerif.Props.C14'],
 'gen': False,
 'thorough_seeds': 8,
 'rule': 'cases = (taxonomy as taxid:parent:rank list + merged-id aliases in load order, list of queries): a hand-picked corpus (root alone, ancestor pairs, '
         'alias chains / shadowed / overwritten aliases, root taxid != 1, taxid 0, two roots, missing parent, odd rank strings, dump loading); every rooted '
         'labelled tree on n <= 5 (quick) / n <= 6 (thorough) nodes with all pairs LCA / sub-clade, all paths, all (node, rank) queries, every non-empty subset '
         '(n <= 4) as a merged_taxid map, all (clade, sequence taxid) restrict/ignore queries; the n <= 4 shapes relabelled with arbitrary taxids, aliases and '
         'unknown taxids; 2500 (quick) / 5000 (thorough, per seed) random trees of 1..340 nodes in seven shapes (uniform, chain, star, deep, heap, caterpillar, '
         'local) with the 44 NCBI rank labels or odd labels, 12..42 random queries each; 12 / 24 trees of 1000..7000 nodes (random, chain, star, deep) with 60 '
         'queries; one case in six is loaded through a synthetic NCBI dump directory; non-trivial = distinct well-formed case line',
 'technique': 'Lean 4 theorems on a functional model of the obitax queries for every well-formed taxonomy (any size, any taxids, any ranks, any alias table) + '
              'differential correspondence of the model with the real obitax / obigrep / obiannotate code on synthetic taxonomies + naive ancestor-set oracle',
 'level_text': 'For every well-formed taxonomy (WF: one self-parent root, parents are nodes, a depth function decreasing along parent links — shown equivalent to '
               '"every node reaches the root" by wellFormed_of_reaches) of any size, taxids, ranks and alias table, proved in full on the Lean model: path_spec (the path '
               'runs node -> root along parent links, lists exactly the ancestors-or-self, each once), lca_total / lca_is_common_ancestor / lca_deepest / lca_unique / '
               'lca_comm / lca_idem / lca_assoc, fuel_nodes_suffices (the fuel nodes+1 of the model executable never runs out on a well-formed taxonomy), isSubClade_iff_anc, taxonAtRank_first / _some / _none, hasRankDefined_iff, resolve_node / alias_resolves / '
               'resolve_lands_on_node, restrictTo_spec / ignoreTaxon_spec / requireRanks_spec / taxFilter_spec / taxFilter_fatal / inCladeSlot_spec / '
               'setTaxonAtRank_spec (fatal exactly for an unknown clade or a rank no node carries; otherwise select exactly what the ancestor relation implies), '
               'weightedLca_threshold_one (Taxonomy.LCA at threshold 1.0 on a non-empty map of known taxids with positive counts = left fold of TaxNode.LCA over the '
               'taxa present = the deepest common ancestor of all of them, independent of weights and order), weightedLca_unknown, weightedLca_empty. The model is '
               'tied to pkg/obitax, obigrep/options.go and the obiannotate workers by running both on the same synthetic taxonomies (API-built and loaded from dump '
               'directories), all rooted labelled trees up to 6 nodes exhaustively, random trees to 7000 nodes, with an independent ancestor-set oracle on the real code.',
 'level_note': 'Trusted: Lean kernel; the transcription Model/Tax.lean (pointer comparisons of TaxNode read as taxid comparisons; the float test rmax >= 1.0 read as '
               'the integer test total > 0 and weighMax = total). Tied by correspondence only (no theorem): ncbitaxdump.LoadNCBITaxDump builds the same taxonomy as the API calls; taxonomic_path / '
               'lca_name / rank_name annotations (names), Taxon(string) parsing of "TX:n", AddLCAWorker = Taxonomy.LCA. Not covered: thresholds below 1.0 '
               '(outside the statement; map-order dependent on ties), zero/duplicate-key weight overwriting in TaxonomicDistribution beyond equal weights, name-based '
               'filters (IFilterOnName, AddNewName alternate names), the ITaxonSet iterators, taxonomies that are not well formed (parent cycles hang, two roots make '
               'TaxNode.LCA index out of range — modelled as outcomes hang / panic, the latter exercised).',
 'trusted_base': LEAN_TB + ['Go map semantics (one TaxNode object per taxid after ReindexParent, so pointer comparisons are taxid comparisons)',
                            'IEEE-754 double division of integers below 2^53 (w/total = 1.0 iff w = total), used to replace the float test rmax >= 1.0 by an integer test',
                            'naive ancestor-set oracle in the harness'],
 'modelled': 'pkg/obitax taxonomy.go (Taxon, AddNewAlias, ReindexParent, RankList), path.go (Path, TaxonAtRank), lca.go (TaxNode.LCA, TaxonomicDistribution, '
             'Taxonomy.LCA at threshold 1.0), issuubcladeof.go (IsSubCladeOf), taxon.go (HasRankDefined), sequence_predicate.go, sequence_methods.go '
             '(SetTaxonAtRank), obigrep/options.go (CLIRestrictTaxonomyPredicate, CLIAvoidTaxonomyPredicate, CLIHasRankDefinedPredicate, '
             'CLITaxonomyFilterPredicate); exercised by the harness without a model of their own: ncbitaxdump.LoadNCBITaxDump, SetPath, AddLCAWorker, '
             'obiannotate.AddTaxonAtRankWorker, scientific names',
 'assumptions': ['the taxonomy is well formed: exactly one node is its own parent, every parent taxid is a node, every node reaches the root (a parent cycle '
                 'makes the Go loops spin forever: outcome hang of the model, never executed on the real code)',
                 'weights of a merged_taxid map are >= 0 and below 2^53; keys resolving to the same node carry the same weight (TaxonomicDistribution '
                 'overwrites instead of adding, in map order)',
                 'threshold of the weighted LCA is exactly 1.0 (--lca-error 0); lower thresholds depend on the map iteration order on ties and are outside the statement']}
